#!/bin/bash
# usage: benign_lane.sh <lane checkout> <work dir> <patch dirs...>
lane=$1; work=$2; shift 2
for d in "$@"; do
  echo "=== $(basename $d)"
  cd $lane && git checkout -q -- . && git apply $d/patch.diff || { echo "PATCH DOES NOT APPLY"; continue; }
  out=$(mktemp -d /tmp/benign-run-XXXX)
  cd /verif && printf "%s\n" C01 C02 C04 C05 C06 C07 C08 C09 C10 C11 C12 C15 C16 C17 C18 C20 | VERIF_REPO=$lane VERIF_WORK=$work VERIF_NO_SCEN=1 VERIF_EVIDENCE_DIR=$out/ev xargs -P 3 -I{} sh -c "./check {} > $out/{}.log 2>&1; echo \"{} rc=\$?\"" | sort | tr '\n' ' '
  echo
  grep -hE "^VIOLATION|^BROKEN-CHECK" $out/*.log | cut -c1-260
  rm -rf $out
  cd $lane && git checkout -q -- .
done
echo LANE-DONE
