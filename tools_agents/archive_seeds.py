import json, os, shutil, sys
rnd, base, HEAD = sys.argv[1], int(sys.argv[2]), sys.argv[3]
also={'C01':['C02','C09','C20','C10'],'C02':['C10','C07'],'C04':['C02','C10'],'C05':['C11','C07'],'C06':['C16','C12'],'C07':['C10','C02'],'C08':['C09','C10'],'C09':['C12','C01'],
      'C10':['C09','C02'],'C11':['C20','C01'],'C12':['C11','C09'],'C15':['C16','C06'],'C16':['C08','C06'],'C17':['C09','C15'],'C18':['C10','C02'],'C20':['C09','C11']}
for p in sys.argv[4:]:
    for i,m in enumerate(['mut1','mut2']):
        src=f'/tmp/out{rnd}_{p}/{m}'; sid=f'{p}-mut{i+base}'; dst=f'/verif/seeded/{sid}'
        os.makedirs(dst, exist_ok=True)
        for f in ['patch.diff','demo.diff','notes.md']:
            shutil.copy(os.path.join(src,f), dst)
        notes=open(os.path.join(src,'notes.md')).read()
        meta=dict(id=sid, property=p, base_commit=HEAD, needs_to_manifest=notes[:1500], confirmed_by='pending: tools_confirm_seed.sh', also=also.get(p,[]),
                  how_to_run=f'cd /verif && ./tools_seed.sh /verif/seeded/{sid}/patch.diff {p}')
        json.dump(meta, open(os.path.join(dst,'meta.json'),'w'), indent=1)
        print('archived', sid)
