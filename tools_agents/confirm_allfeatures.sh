#!/bin/bash
# usage: confirm_feat.sh <worktree> <mutdir>   (all-features variant)
wt=$1; d=$2
cd "$wt" || exit 9
git checkout -q -- . && git clean -fdq -e target
names=$(grep -E '^\+\s*(async )?fn test_' "$d/demo.diff" | sed -E 's/^\+\s*(async )?fn (test_[A-Za-z0-9_]+).*/\2/' | sort -u | tr '\n' ' ')
echo "demo tests: $names"
git apply "$d/patch.diff" || { echo "RESULT patch-does-not-apply"; exit 1; }
cargo test --workspace --no-fail-fast --offline > "$d/confirm_suite_default.log" 2>&1
cargo test --workspace --all-features --no-fail-fast --offline > "$d/confirm_suite_allfeat.log" 2>&1
for f in default allfeat; do grep -E "^test result" "$d/confirm_suite_$f.log" | awk -v f=$f '{p+=$4; x+=$6} END {print "suite " f " with patch: passed=" p " failed=" x}'; done
git apply "$d/demo.diff"
wp=0; for n in $names; do cargo test --workspace --all-features --offline $n > "$d/confirm_demo_with_$n.log" 2>&1; grep -qE "test result: FAILED|error: test failed" "$d/confirm_demo_with_$n.log" && wp=$((wp+1)); done
echo "demo with patch: $wp of $(echo $names | wc -w) fail"
git checkout -q -- . && git clean -fdq -e target
git apply "$d/demo.diff"
np=0; for n in $names; do cargo test --workspace --all-features --offline $n > "$d/confirm_demo_without_$n.log" 2>&1; grep -qE "test result: FAILED|error: test failed|could not compile" "$d/confirm_demo_without_$n.log" && np=$((np+1)); done
echo "demo without patch: $np of $(echo $names | wc -w) fail"
git checkout -q -- . && git clean -fdq -e target
