import json,sys,os,glob
pid=sys.argv[1]; wtname=sys.argv[2]
p=[json.loads(l) for l in open('/verif/properties.jsonl') if json.loads(l)['id']==pid][0]
prev=[]
for d in sorted(glob.glob(f'/verif/seeded/{pid}-mut*')):
    prev.append(open(d+'/notes.md').read().splitlines()[0].lstrip('# ').strip())
prevtxt = '\n'.join('   - '+x for x in prev)
wt=f'/tmp/{wtname}'; out=f'/tmp/out7_{pid}'
print(f"""You are helping test a verification framework by seeding realistic defects into a Rust code base. Work ONLY inside the git worktree at {wt} (a checkout of the Rust workspace marmot-protocol/mdk: MLS group messaging over Nostr with in-memory and SQLite storage backends; crates under crates/). Do NOT read or touch /repo or /verif. There is no network: always build/test with `--offline` (e.g. `cd {wt} && cargo test --workspace --offline`). The first build takes a few minutes. Other jobs share this machine: do not run more than one cargo command at a time.

Here is a semantic property the library is supposed to satisfy:

{p['id']} — {p['title']}

{p['statement']}

Quantified over: {p['quantifier']['text']}

YOUR TASK: produce TWO different, independent, realistic source changes (mutations) to the library code (non-test code under crates/*/src, or a migration .sql file) such that each one:
  1. BREAKS the property above (there is a concrete scenario in which the property is violated with the change and not without it);
  2. still COMPILES and still PASSES the entire existing test suite (`cargo test --workspace --offline` must be green with the change applied — verify this yourself, it matters);
  3. needs something SPECIFIC to manifest — a particular multi-step sequence of operations, a crash/fault at a particular point, an unusual input (boundary value, tie, empty/maximal length, duplicate), a particular state of the store, or two cooperating code sites that each look fine alone — NOT something ordinary use would expose at once. Think of the kind of subtle bug a hurried refactor, a merge conflict resolution or an "optimisation" would introduce.
  4. is small (a few lines).
Make the two mutations different in kind and in different functions/files, and prefer code paths the earlier rounds (listed below) did not touch: error paths, configuration-dependent branches (non-default MdkConfig / storage limits), sender-side operations, start-up / restart paths, and interactions between two functions. Also consider: ordering of two statements that each look fine, a default value / constant changed by one, an Option/Result combinator swapped (unwrap_or vs unwrap_or_default, ok() dropping an error, map vs and_then), a key or index of the wrong kind that happens to coincide in the tests, an iterator adaptor that changes which element is picked on ties; where the property speaks about both storage backends, put one in crates/mdk-memory-storage or crates/mdk-core and the other in crates/mdk-sqlite-storage.
Earlier rounds already produced the following mutations for this property — do something DIFFERENT (a different function, clause of the property, or mechanism):
{prevtxt}

For each mutation also write a DEMONSTRATION: a Rust test (an extra `#[test]` inside an existing `#[cfg(test)] mod tests` of a crate, or an integration test file) that FAILS with the mutation applied and PASSES on the unmodified code. Name the test functions `test_{pid.lower()}_...`. If the mutated code is behind a cargo feature (e.g. `mip04`), say which feature flags the demonstration needs.

DELIVERABLES, in {out}/:
  - mut1/patch.diff and mut2/patch.diff : `git diff` of ONLY the library change (no test code), applicable with `git apply` to a clean checkout of the worktree's HEAD;
  - mut1/demo.diff and mut2/demo.diff : `git diff` adding only the demonstration test(s) (applicable on a clean checkout independently of patch.diff);
  - mut1/notes.md and mut2/notes.md : first line `# {pid} / mutN — <one-line summary>`; then which clause of the property it breaks, what exactly is needed for it to manifest, the exact commands you ran (test suite green with patch; demo fails with patch + passes without) and their outcome.
Leave the worktree clean (git checkout -- . ; remove untracked files, keep target/) when you are done, but do not delete the worktree. Be rigorous about actually running the commands; report honestly if something could not be achieved.""")
