#!/bin/bash
# usage: tools_benign.sh <patch.diff> [check ids...]  -- apply a behaviour-preserving change to /repo, run every quick check, undo.
# Any VIOLATION (exit 1) or BROKEN-CHECK (exit 2) here is a false alarm / robustness gap of the machinery.
patch=$1; shift
ids=${@:-C01 C02 C04 C05 C06 C07 C08 C09 C10 C11 C12 C15 C16 C17 C18 C20}
cd /repo && { git diff --quiet || { echo "REPO HAS UNCOMMITTED CHANGES - refusing"; exit 4; }; } && git apply "$patch" || { echo "PATCH DOES NOT APPLY"; exit 3; }
out=$(mktemp -d /tmp/benign-run-XXXX)
cd /verif && printf "%s\n" $ids | VERIF_EVIDENCE_DIR=$out/ev xargs -P 5 -I{} sh -c "./check {} > $out/{}.log 2>&1; echo \"{} rc=\$?\"" | sort | tr '\n' ' '
echo
grep -hE "^VIOLATION|^BROKEN-CHECK|^KNOWN-FINDING" $out/*.log | grep -v "^KNOWN" | cut -c1-260
rm -rf $out
cd /repo && git checkout -- . && git status --short | head -3
