//! Native replay scenarios: ordinary tests against the real crates (memory and SQLite backends, real OpenMLS groups).
//! Each test asserts the *property*; it fails exactly when the defect it replays is present.
use mdk_core::prelude::*;
use mdk_memory_storage::MdkMemoryStorage;
use mdk_storage_traits::MdkStorageProvider;
use nostr::event::builder::EventBuilder;
use nostr::{Event, EventId, Keys, Kind, RelayUrl};

pub fn relay() -> RelayUrl {
    RelayUrl::parse("ws://localhost:8080").unwrap()
}

pub fn ident() -> (Keys, MDK<MdkMemoryStorage>) {
    (Keys::generate(), MDK::new(MdkMemoryStorage::default()))
}

pub fn kp<S: MdkStorageProvider>(k: &Keys, m: &MDK<S>) -> Event {
    let (enc, tags, _) = m.create_key_package_for_event(&k.public_key(), [relay()]).unwrap();
    EventBuilder::new(Kind::MlsKeyPackage, enc).tags(tags).build(k.public_key()).sign_with_keys(k).unwrap()
}

/// the invitee tries every welcome rumor until one is addressed to it
pub fn join<S: MdkStorageProvider>(m: &MDK<S>, rumors: &[nostr::UnsignedEvent]) {
    for w in rumors {
        if let Ok(wel) = m.process_welcome(&EventId::all_zeros(), w) {
            m.accept_welcome(&wel).unwrap();
            return;
        }
    }
    panic!("no welcome for this member");
}

/// alice creates a group with bob (both admins) and carol (plain member), everybody joins
pub fn three<SC: MdkStorageProvider>(c: &MDK<SC>, ck: &Keys) -> ((Keys, MDK<MdkMemoryStorage>), (Keys, MDK<MdkMemoryStorage>), GroupId) {
    let (ak, a) = ident();
    let (bk, b) = ident();
    let cfg = NostrGroupConfigData::new("g".into(), "d".into(), None, None, None, vec![relay()], vec![ak.public_key(), bk.public_key()]);
    let res = a.create_group(&ak.public_key(), vec![kp(&bk, &b), kp(ck, c)], cfg).unwrap();
    let gid = res.group.mls_group_id.clone();
    a.merge_pending_commit(&gid).unwrap();
    join(&b, &res.welcome_rumors);
    join(c, &res.welcome_rumors);
    ((ak, a), (bk, b), gid)
}
