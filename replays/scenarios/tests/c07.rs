use mdk_core::prelude::*;
use mdk_memory_storage::MdkMemoryStorage;
use nostr::Keys;
use scenarios::*;

fn epoch<S: mdk_storage_traits::MdkStorageProvider>(m: &MDK<S>, g: &GroupId) -> u64 {
    m.get_group(g).unwrap().unwrap().epoch
}

/// C01-O7 / C07-O4: a *proposal* of epoch N that arrives after the commit of epoch N was applied must change nothing.
/// (OpenMLS answers WrongEpoch for it; only a competing COMMIT may be compared with the applied commit and trigger a rollback.)
#[test]
fn c07_late_proposal_of_a_past_epoch_does_not_roll_back() {
    // alice is the only admin; bob and carol are plain members
    let (ak, a) = ident();
    let (bk, b) = ident();
    let (ck, c) = ident();
    let cfg = NostrGroupConfigData::new("g".into(), "d".into(), None, None, None, vec![relay()], vec![ak.public_key()]);
    let res = a.create_group(&ak.public_key(), vec![kp(&bk, &b), kp(&ck, &c)], cfg).unwrap();
    let gid = res.group.mls_group_id.clone();
    a.merge_pending_commit(&gid).unwrap();
    join(&b, &res.welcome_rumors);
    join(&c, &res.welcome_rumors);
    let e0 = epoch(&b, &gid);
    // carol asks to leave: a proposal event of epoch e0 (the oldest timestamp of the story)
    let p = c.leave_group(&gid).unwrap().evolution_event;
    // bob (not an admin) sees the proposal and keeps it pending
    let _ = b.process_message(&p).unwrap();
    std::thread::sleep(std::time::Duration::from_millis(1100));
    // alice (admin) sees the proposal and auto-commits the leave
    let commit = match a.process_message(&p).unwrap() {
        MessageProcessingResult::Proposal(r) => r.evolution_event,
        other => panic!("admin did not auto-commit the leave: {:?}", other),
    };
    a.merge_pending_commit(&gid).unwrap();
    // bob applies the commit ...
    assert!(matches!(b.process_message(&commit), Ok(MessageProcessingResult::Commit { .. })));
    assert_eq!(epoch(&b, &gid), e0 + 1);
    // ... and is then offered the (older) proposal of the previous epoch once more
    let _ = b.process_message(&p);
    assert_eq!(epoch(&b, &gid), e0 + 1, "a re-delivered proposal of the previous epoch rolled the applied commit back");
    assert_eq!(epoch(&b, &gid), epoch(&a, &gid));
    // and bob can still read traffic of the current epoch
    let m = a.create_message(&gid, nostr::event::builder::EventBuilder::new(nostr::Kind::Custom(9), "hi").build(ak.public_key())).unwrap();
    assert!(matches!(b.process_message(&m), Ok(MessageProcessingResult::ApplicationMessage(_))), "bob no longer follows the group");
}
