use mdk_core::prelude::*;
use nostr::event::builder::EventBuilder;
use nostr::Kind;
use scenarios::*;

/// C05-O7: an admin's own operation changes exactly what it names. Bob (not an admin) builds, directly with the MLS
/// library, a proposal to remove Carol. Alice (admin) receives it -- MDK keeps it "pending for admin approval" --
/// and later merely renames the group. The rename must not remove Carol.
#[test]
fn c05_admin_rename_does_not_carry_out_a_foreign_remove_proposal() {
    let (ak, a) = ident();
    let (bk, b) = ident();
    let (ck, c) = ident();
    let cfg = NostrGroupConfigData::new("g".into(), "d".into(), None, None, None, vec![relay()], vec![ak.public_key()]);
    let res = a.create_group(&ak.public_key(), vec![kp(&bk, &b), kp(&ck, &c)], cfg).unwrap();
    let gid = res.group.mls_group_id.clone();
    a.merge_pending_commit(&gid).unwrap();
    join(&b, &res.welcome_rumors);
    join(&c, &res.welcome_rumors);
    assert_eq!(a.get_members(&gid).unwrap().len(), 3);
    // bob proposes to remove carol (raw OpenMLS proposal, wrapped as a kind-445 event)
    let p = mdk_core::verif_hooks::raw_remove_proposal_event(&b, &gid, &ck.public_key()).unwrap();
    let r = a.process_message(&p).unwrap();
    assert!(matches!(r, MessageProcessingResult::PendingProposal { .. }), "alice did not queue the proposal: {:?}", r);
    assert_eq!(a.get_members(&gid).unwrap().len(), 3, "a proposal took effect by itself");
    // alice renames the group: an operation that names no member
    let upd = NostrGroupDataUpdate::new().name("renamed".to_string());
    let ev = a.update_group_data(&gid, upd).unwrap().evolution_event;
    a.merge_pending_commit(&gid).unwrap();
    let members = a.get_members(&gid).unwrap();
    assert!(
        members.contains(&ck.public_key()),
        "alice's rename carried out bob's pending proposal: carol was removed by an operation that names no member"
    );
    // and every receiver sees the same
    let _ = c.process_message(&p);
    let _ = c.process_message(&ev);
    let m = a.create_message(&gid, EventBuilder::new(Kind::Custom(9), "hi").build(ak.public_key())).unwrap();
    assert!(matches!(c.process_message(&m), Ok(MessageProcessingResult::ApplicationMessage(_))), "carol was evicted by the rename");
}
