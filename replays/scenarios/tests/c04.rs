use mdk_core::prelude::*;
use mdk_memory_storage::MdkMemoryStorage;
use nostr::event::builder::EventBuilder;
use nostr::{Keys, Kind};
use scenarios::*;

/// C04-O2 (receive side): a member's rumor carrying a pre-set id equal to another member's message id must not
/// replace that message at the receiver.
#[test]
fn c04_preset_id_receive() {
    let ck = Keys::generate();
    let c = MDK::new(MdkMemoryStorage::default());
    let ((ak, a), (bk, b), gid) = three(&c, &ck);
    // victim (alice) sends a message; carol stores it
    let victim = a.create_message(&gid, EventBuilder::new(Kind::Custom(9), "alice says hi").build(ak.public_key())).unwrap();
    let stored = match c.process_message(&victim).unwrap() {
        MessageProcessingResult::ApplicationMessage(m) => m,
        other => panic!("{other:?}"),
    };
    let victim_id = stored.id;
    // attacker (bob) builds a rumor with the victim's id pre-set
    let mut rumor = EventBuilder::new(Kind::Custom(9), "bob overwrites").build(bk.public_key());
    rumor.id = Some(victim_id);
    let attack = match b.create_message(&gid, rumor) {
        Ok(ev) => ev,
        Err(_) => return, // refused at creation: property holds
    };
    let _ = c.process_message(&attack);
    let after = c.get_message(&gid, &victim_id).unwrap().expect("victim message still stored");
    assert_eq!(after.pubkey, ak.public_key(), "stored message re-attributed to another author");
    assert_eq!(after.content, "alice says hi", "stored message content replaced");
    assert!(after.event.verify_id().is_ok());
}

/// C04-O2 (send side): create_message must not store a message under an id that is not the hash of its content.
#[test]
fn c04_preset_id_send() {
    let ck = Keys::generate();
    let c = MDK::new(MdkMemoryStorage::default());
    let ((_ak, _a), (bk, b), gid) = three(&c, &ck);
    let mut rumor = EventBuilder::new(Kind::Custom(9), "x").build(bk.public_key());
    rumor.id = Some(nostr::EventId::from_byte_array([7u8; 32]));
    if b.create_message(&gid, rumor).is_err() {
        return;
    }
    let msgs = b.get_messages(&gid, None).unwrap();
    for m in msgs {
        assert!(m.event.verify_id().is_ok(), "stored own message whose id is not the NIP-01 hash of its fields");
        let mut e = m.event.clone();
        e.id = None;
        assert_eq!(e.id(), m.id, "Message.id differs from the hash of the stored rumor");
    }
}
