use mdk_core::prelude::*;
use mdk_memory_storage::MdkMemoryStorage;
use mdk_storage_traits::groups::Pagination;
use nostr::Keys;
use scenarios::*;

/// C06-O1b / C18-O3: listing with a huge offset returns a result instead of panicking (memory backend)
#[test]
fn c06_memory_messages_offset_overflow() {
    let ck = Keys::generate();
    let c = MDK::new(MdkMemoryStorage::default());
    let ((_ak, _a), (_bk, _b), gid) = three(&c, &ck);
    let r = std::panic::catch_unwind(std::panic::AssertUnwindSafe(|| c.get_messages(&gid, Some(Pagination::new(Some(1), Some(usize::MAX))))));
    assert!(r.is_ok(), "get_messages(limit=1, offset=usize::MAX) panicked");
    assert!(r.unwrap().unwrap().is_empty());
}
