use mdk_core::prelude::*;
use mdk_memory_storage::MdkMemoryStorage;
use mdk_storage_traits::groups::Pagination;
use nostr::event::builder::EventBuilder;
use nostr::{Keys, Kind};
use scenarios::*;

/// C06-O1b / C18-O3: listing with a huge offset returns a result instead of panicking (memory backend)
#[test]
fn c06_memory_messages_offset_overflow() {
    let ck = Keys::generate();
    let c = MDK::new(MdkMemoryStorage::default());
    let ((ak, a), (_bk, _b), gid) = three(&c, &ck);
    let m = a.create_message(&gid, EventBuilder::new(Kind::Custom(9), "one").build(ak.public_key())).unwrap();
    c.process_message(&m).unwrap();
    let r = std::panic::catch_unwind(std::panic::AssertUnwindSafe(|| c.get_messages(&gid, Some(Pagination::new(Some(1), Some(usize::MAX))))));
    assert!(r.is_ok(), "get_messages(limit=1, offset=usize::MAX) panicked");
    assert!(r.unwrap().unwrap().is_empty());
}
