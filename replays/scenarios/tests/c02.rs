use mdk_core::prelude::*;
use mdk_memory_storage::MdkMemoryStorage;
use mdk_storage_traits::messages::types::MessageState;
use nostr::event::builder::EventBuilder;
use nostr::{Keys, Kind};
use scenarios::*;

/// C02: a message created in epoch N (before the fork) belongs to the winning history whatever commit of epoch N wins.
/// A client that first follows the losing commit, then receives the (late) epoch-N message, then the winning commit,
/// must end with that message stored and VALID.
#[test]
fn c02_pre_fork_message_received_on_losing_branch_stays_valid() {
    let ck = Keys::generate();
    let c = MDK::new(MdkMemoryStorage::default());
    let ((ak, a), (_bk, b), gid) = three(&c, &ck);
    // alice's message of epoch N, delivered late to carol
    let rumor = EventBuilder::new(Kind::Custom(9), "sent before the fork").build(ak.public_key());
    let m = a.create_message(&gid, rumor).unwrap();
    // two competing commits on epoch N
    let ev_a = a.self_update(&gid).unwrap().evolution_event;
    let ev_b = b.self_update(&gid).unwrap().evolution_event;
    let a_wins = (ev_a.created_at, ev_a.id) < (ev_b.created_at, ev_b.id);
    let (ev_w, ev_l) = if a_wins { (&ev_a, &ev_b) } else { (&ev_b, &ev_a) };
    // carol: losing commit first, then the late message of epoch N, then the winner
    assert!(matches!(c.process_message(ev_l), Ok(MessageProcessingResult::Commit { .. })));
    let r = c.process_message(&m);
    let stored = match r {
        Ok(MessageProcessingResult::ApplicationMessage(msg)) => msg,
        other => panic!("late message of the previous epoch not readable: {:?}", other),
    };
    let _ = c.process_message(ev_w);
    let after = c.get_message(&gid, &stored.id).unwrap().expect("message disappeared");
    assert_eq!(
        after.state,
        MessageState::Processed,
        "a message created before the fork was invalidated by the rollback (it was stamped with the receiver's epoch {:?}, not its own)",
        after.epoch
    );
}
