use mdk_core::prelude::*;
use mdk_memory_storage::MdkMemoryStorage;
use mdk_sqlite_storage::MdkSqliteStorage;
use mdk_storage_traits::MdkStorageProvider;
use nostr::event::builder::EventBuilder;
use nostr::{Keys, Kind};
use scenarios::*;

fn scenario<S: MdkStorageProvider>(c: MDK<S>) {
    let ck = Keys::generate();
    let ((ak, a), (_bk, _b), gid) = three(&c, &ck);
    let m = a.create_message(&gid, EventBuilder::new(Kind::Custom(9), "keep me").build(ak.public_key())).unwrap();
    assert!(matches!(c.process_message(&m), Ok(MessageProcessingResult::ApplicationMessage(_))));
    let n_before = c.get_messages(&gid, None).unwrap().len();
    assert_eq!(n_before, 1);
    c.storage().create_group_snapshot(&gid, "s1").unwrap();
    c.storage().rollback_group_to_snapshot(&gid, "s1").unwrap();
    let after = c.get_messages(&gid, None).unwrap();
    assert_eq!(after.len(), n_before, "rolling the group back to a snapshot destroyed its stored messages");
    assert!(c.get_group(&gid).unwrap().is_some());
}

/// C09: rollback destroys no stored messages (SQLite backend)
#[test]
fn c09_sqlite_rollback_keeps_messages() {
    let dir = tempfile::tempdir().unwrap();
    scenario(MDK::new(MdkSqliteStorage::new_unencrypted(dir.path().join("c.db")).unwrap()));
}

/// control: memory backend
#[test]
fn c09_memory_rollback_keeps_messages() {
    scenario(MDK::new(MdkMemoryStorage::default()));
}
