use std::collections::BTreeSet;

use mdk_memory_storage::MdkMemoryStorage;
use mdk_sqlite_storage::MdkSqliteStorage;
use mdk_storage_traits::groups::GroupStorage;
use mdk_storage_traits::groups::types::{Group, GroupState, SelfUpdateState};
use mdk_storage_traits::messages::MessageStorage;
use mdk_storage_traits::messages::types::{Message, MessageState};
use mdk_storage_traits::{GroupId, MdkStorageProvider};
use nostr::{EventId, Kind, PublicKey, Tags, Timestamp, UnsignedEvent};

fn group(gid: &GroupId, nid: u8) -> Group {
    Group {
        mls_group_id: gid.clone(), nostr_group_id: [nid; 32], name: "g".into(), description: "d".into(), admin_pubkeys: BTreeSet::new(),
        last_message_id: None, last_message_at: None, last_message_processed_at: None, epoch: 1, state: GroupState::Active,
        image_hash: None, image_key: None, image_nonce: None, self_update_state: SelfUpdateState::Required,
    }
}

fn message(gid: &GroupId, b: u8) -> Message {
    let pk = PublicKey::from_byte_array([2u8; 32]);
    let ev = UnsignedEvent::new(pk, Timestamp::from_secs(10), Kind::from(9u16), Tags::new(), "keep me".to_string());
    Message {
        id: EventId::from_byte_array([b; 32]), pubkey: pk, kind: Kind::from(9u16), mls_group_id: gid.clone(), created_at: Timestamp::from_secs(10),
        processed_at: Timestamp::from_secs(11), content: "keep me".into(), tags: Tags::new(), event: ev, wrapper_event_id: EventId::from_byte_array([b + 1; 32]),
        epoch: Some(1), state: MessageState::Processed,
    }
}

fn scenario<S: MdkStorageProvider>(s: S) {
    let g1 = GroupId::from_slice(&[1, 1, 1]);
    let g2 = GroupId::from_slice(&[2, 2, 2]);
    s.save_group(group(&g1, 1)).unwrap();
    s.save_group(group(&g2, 2)).unwrap();
    s.save_message(message(&g1, 10)).unwrap();
    s.save_message(message(&g2, 20)).unwrap();
    s.create_group_snapshot(&g1, "s1").unwrap();
    s.rollback_group_to_snapshot(&g1, "s1").unwrap();
    assert_eq!(s.messages(&g2, None).unwrap().len(), 1, "rollback of one group destroyed another group's messages");
    assert_eq!(s.messages(&g1, None).unwrap().len(), 1, "rolling the group back to a snapshot destroyed its stored messages");
    assert!(s.find_group_by_mls_group_id(&g1).unwrap().is_some());
}

/// C09: rollback destroys no stored messages (SQLite backend)
#[test]
fn c09_sqlite_rollback_keeps_messages() {
    let dir = tempfile::tempdir().unwrap();
    scenario(MdkSqliteStorage::new_unencrypted(dir.path().join("c.db")).unwrap());
}

/// control: memory backend
#[test]
fn c09_memory_rollback_keeps_messages() {
    scenario(MdkMemoryStorage::default());
}

fn retake<S: MdkStorageProvider>(s: S) {
    let g1 = GroupId::from_slice(&[1, 1, 1]);
    s.save_group(group(&g1, 1)).unwrap();
    s.create_group_snapshot(&g1, "s1").unwrap();
    // state changes, then the snapshot is taken again under the same name: it must replace the first one
    let mut g = group(&g1, 1);
    g.name = "renamed".into();
    g.epoch = 2;
    s.save_group(g).unwrap();
    s.create_group_snapshot(&g1, "s1").expect("re-taking a snapshot under an existing name must replace it");
    let mut g = group(&g1, 1);
    g.name = "third".into();
    g.epoch = 3;
    s.save_group(g).unwrap();
    s.rollback_group_to_snapshot(&g1, "s1").unwrap();
    let back = s.find_group_by_mls_group_id(&g1).unwrap().unwrap();
    assert_eq!((back.name.as_str(), back.epoch), ("renamed", 2), "rollback did not restore the state of the second snapshot");
}

/// C09: re-taking a snapshot under an existing name replaces it (SQLite)
#[test]
fn c09_sqlite_retake_snapshot_replaces() {
    let dir = tempfile::tempdir().unwrap();
    retake(MdkSqliteStorage::new_unencrypted(dir.path().join("c.db")).unwrap());
}

/// control: memory backend
#[test]
fn c09_memory_retake_snapshot_replaces() {
    retake(MdkMemoryStorage::default());
}
