use std::collections::BTreeSet;

use mdk_core::extension::NostrGroupDataExtension;
use mdk_core::prelude::*;
use mdk_core::verif_hooks::{ext_as_raw, raw_ext_to_bytes};
use nostr::base64::Engine;
use nostr::event::builder::EventBuilder;
use nostr::{EventId, Kind, Tag, TagKind, TagStandard};
use openmls::prelude::*;
use openmls_basic_credential::SignatureKeyPair;
use openmls_traits::OpenMlsProvider;
use scenarios::*;
use tls_codec::Serialize as _;

/// C16-O3: an outsider's invitation that reuses the MLS group id of a group the user is active in must not
/// modify or disable that group, merely by being processed.
#[test]
fn c16_welcome_reusing_active_group_id() {
    let (ak, a) = ident();
    let (bk, b) = ident();
    let cfg = NostrGroupConfigData::new("real group".into(), "d".into(), None, None, None, vec![relay()], vec![ak.public_key()]);
    let res = a.create_group(&ak.public_key(), vec![kp(&bk, &b)], cfg).unwrap();
    let gid = res.group.mls_group_id.clone();
    a.merge_pending_commit(&gid).unwrap();
    join(&b, &res.welcome_rumors);
    let before = b.get_group(&gid).unwrap().unwrap();

    let (mk, m) = ident();
    let cs = Ciphersuite::MLS_128_DHKEMX25519_AES128GCM_SHA256_Ed25519;
    let signer = SignatureKeyPair::new(cs.signature_algorithm()).unwrap();
    signer.store(m.provider.storage()).unwrap();
    let cred = BasicCredential::new(mk.public_key().to_bytes().to_vec());
    let cwk = CredentialWithKey { credential: cred.into(), signature_key: signer.public().into() };
    let mut admins = BTreeSet::new();
    admins.insert(mk.public_key());
    let mut relays = BTreeSet::new();
    relays.insert(relay());
    let ext = NostrGroupDataExtension {
        version: 2, nostr_group_id: [0x66; 32], name: "EVIL".into(), description: "x".into(), admins, relays,
        image_hash: None, image_key: None, image_nonce: None, image_upload_key: None,
    };
    let ext_bytes = raw_ext_to_bytes(&ext_as_raw(&ext));
    let exts = Extensions::from_vec(vec![
        Extension::Unknown(0xF2EE, UnknownExtension(ext_bytes)),
        Extension::RequiredCapabilities(RequiredCapabilitiesExtension::new(&[ExtensionType::Unknown(0xF2EE)], &[], &[])),
    ])
    .unwrap();
    let caps = Capabilities::new(None, Some(&[cs]), Some(&[ExtensionType::LastResort, ExtensionType::Unknown(0xF2EE)]), None, None);
    let gc = MlsGroupCreateConfig::builder().ciphersuite(cs).use_ratchet_tree_extension(true).capabilities(caps)
        .with_group_context_extensions(exts).build();
    let mut evil = MlsGroup::new_with_group_id(&m.provider, &signer, &gc, openmls::group::GroupId::from_slice(gid.as_slice()), cwk).unwrap();
    let bob_kp_event = kp(&bk, &b);
    let bob_kp = m.parse_key_package(&bob_kp_event).unwrap();
    let (_commit, welcome, _gi) = evil.add_members(&m.provider, &signer, &[bob_kp]).unwrap();
    evil.merge_pending_commit(&m.provider).unwrap();
    let wbytes = welcome.tls_serialize_detached().unwrap();
    let content = nostr::base64::engine::general_purpose::STANDARD.encode(&wbytes);
    let tags = vec![
        Tag::from_standardized(TagStandard::Relays(vec![relay()])),
        Tag::event(bob_kp_event.id),
        Tag::custom(TagKind::Custom("encoding".into()), ["base64"]),
    ];
    let mut rumor = EventBuilder::new(Kind::MlsWelcome, content).tags(tags).build(mk.public_key());
    rumor.ensure_id();
    let _ = b.process_welcome(&EventId::from_byte_array([9; 32]), &rumor);

    let after = b.get_group(&gid).unwrap().unwrap();
    assert_eq!(after.state, before.state, "merely processing an invitation changed the state of an active group");
    assert_eq!(after.name, before.name, "invitation replaced the group name");
    assert_eq!(after.admin_pubkeys, before.admin_pubkeys, "invitation replaced the admin set");
    assert_eq!(after.nostr_group_id, before.nostr_group_id, "invitation replaced the routing id");
    let ev = a.create_message(&gid, EventBuilder::new(Kind::Custom(9), "hello bob").build(ak.public_key())).unwrap();
    assert!(matches!(b.process_message(&ev), Ok(MessageProcessingResult::ApplicationMessage(_))), "real group traffic no longer processed");
}

/// C16-O1 / C06-O2: an invitation that is refused (rumor without id) must leave nothing behind.
#[test]
fn c16_refused_welcome_leaves_no_group() {
    let (ak, a) = ident();
    let (bk, b) = ident();
    let cfg = NostrGroupConfigData::new("g".into(), "d".into(), None, None, None, vec![relay()], vec![ak.public_key()]);
    let res = a.create_group(&ak.public_key(), vec![kp(&bk, &b)], cfg).unwrap();
    let gid = res.group.mls_group_id.clone();
    let mut rumor = res.welcome_rumors[0].clone();
    rumor.id = None;
    let r = b.process_welcome(&EventId::from_byte_array([3; 32]), &rumor);
    assert!(r.is_err(), "a welcome rumor without id is expected to be refused");
    assert!(b.get_group(&gid).unwrap().is_none(), "a refused invitation left a group record behind");
    assert!(b.get_groups().unwrap().is_empty());
}

/// C16-O1 / C06: an invitation that the store refuses on input grounds (here: the rumor is larger than the SQLite
/// backend's event-size limit) must leave nothing behind -- in particular no pending group carrying the inviter's data.
#[test]
fn c16_oversized_welcome_leaves_no_group_sqlite() {
    use mdk_sqlite_storage::MdkSqliteStorage;
    let (ak, a) = ident();
    let bk = nostr::Keys::generate();
    let b = MDK::new(MdkSqliteStorage::new_unencrypted(":memory:").unwrap());
    let cfg = NostrGroupConfigData::new("g".into(), "d".into(), None, None, None, vec![relay()], vec![ak.public_key()]);
    let res = a.create_group(&ak.public_key(), vec![kp(&bk, &b)], cfg).unwrap();
    let gid = res.group.mls_group_id.clone();
    let mut rumor = res.welcome_rumors[0].clone();
    let mut tags: Vec<Tag> = rumor.tags.clone().to_vec();
    tags.push(Tag::custom(TagKind::Custom("client".into()), ["x".repeat(150 * 1024)]));
    rumor.tags = nostr::Tags::from_list(tags);
    rumor.id = None;
    rumor.ensure_id();
    let r = b.process_welcome(&EventId::from_byte_array([4; 32]), &rumor);
    if r.is_ok() {
        return; // accepted: nothing to check here
    }
    assert!(b.get_group(&gid).unwrap().is_none(), "a refused (oversized) invitation left a group record behind: {:?}", r.err());
    assert!(b.get_groups().unwrap().is_empty());
    assert!(b.get_pending_welcomes(None).unwrap().is_empty());
}

/// C16-O6: same on the memory backend: the receiver's store accepts at most one relay per group; the invitation names two.
#[test]
fn c16_welcome_with_too_many_relays_leaves_no_group_memory() {
    use mdk_memory_storage::{MdkMemoryStorage, ValidationLimits};
    let (ak, a) = ident();
    let bk = nostr::Keys::generate();
    let b = MDK::new(MdkMemoryStorage::with_limits(ValidationLimits::new().with_max_relays_per_group(1)));
    let r2 = nostr::RelayUrl::parse("ws://localhost:8081").unwrap();
    let cfg = NostrGroupConfigData::new("g".into(), "d".into(), None, None, None, vec![relay(), r2], vec![ak.public_key()]);
    let res = a.create_group(&ak.public_key(), vec![kp(&bk, &b)], cfg).unwrap();
    let gid = res.group.mls_group_id.clone();
    let r = b.process_welcome(&EventId::from_byte_array([5; 32]), &res.welcome_rumors[0]);
    if r.is_ok() {
        return;
    }
    assert!(b.get_group(&gid).unwrap().is_none(), "an invitation refused by the store (too many relays) left a group record behind: {:?}", r.err());
}
