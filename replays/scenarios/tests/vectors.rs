//! Translator validation: concrete input/output vectors of real functions, compared by `./check C18` (O8) with what the
//! MIR interpreter computes for the same inputs.
use mdk_storage_traits::messages::types::Message;
use nostr::{EventId, Timestamp};
use std::io::Write;

fn lcg(s: &mut u64) -> u64 {
    *s = s.wrapping_mul(6364136223846793005).wrapping_add(1442695040888963407);
    *s
}

#[test]
fn emit_comparator_vectors() {
    let Ok(path) = std::env::var("VERIF_VECTORS_OUT") else { return };
    let mut f = std::fs::File::create(path).unwrap();
    let mut s = 0x1234_5678_9abc_def0u64;
    let pool = [0u64, 1, 2, u64::MAX, u64::MAX - 1, 1 << 63, (1 << 63) - 1, 1_700_000_000];
    for i in 0..300 {
        let pick = |s: &mut u64| if lcg(s) % 3 == 0 { lcg(s) } else { pool[(lcg(s) % 8) as usize] };
        let (a1, a2, b1, b2) = (pick(&mut s), pick(&mut s), pick(&mut s), pick(&mut s));
        let mut ia = [0u8; 32];
        let mut ib = [0u8; 32];
        for k in 0..32 {
            ia[k] = (lcg(&mut s) >> 33) as u8;
            ib[k] = if i % 4 == 0 { ia[k] } else { (lcg(&mut s) >> 33) as u8 };
        }
        if i % 8 == 0 {
            ib[31] = ib[31].wrapping_add(1);
        }
        let (ea, eb) = (EventId::from_byte_array(ia), EventId::from_byte_array(ib));
        let d = Message::compare_display_keys(Timestamp::from_secs(a1), Timestamp::from_secs(a2), ea, Timestamp::from_secs(b1), Timestamp::from_secs(b2), eb) as i8;
        let p = Message::compare_processed_at_keys(Timestamp::from_secs(a1), Timestamp::from_secs(a2), ea, Timestamp::from_secs(b1), Timestamp::from_secs(b2), eb) as i8;
        writeln!(f, "{{\"a1\":{a1},\"a2\":{a2},\"b1\":{b1},\"b2\":{b2},\"ia\":\"{}\",\"ib\":\"{}\",\"display\":{d},\"processed\":{p}}}", ea.to_hex(), eb.to_hex()).unwrap();
    }
}
