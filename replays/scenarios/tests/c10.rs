use std::collections::BTreeSet;

use mdk_memory_storage::MdkMemoryStorage;
use mdk_sqlite_storage::MdkSqliteStorage;
use mdk_storage_traits::groups::types::{Group, GroupState, SelfUpdateState};
use mdk_storage_traits::groups::{GroupStorage, Pagination};
use mdk_storage_traits::messages::MessageStorage;
use mdk_storage_traits::messages::types::{Message, MessageState};
use mdk_storage_traits::{GroupId, MdkStorageProvider};
use nostr::{EventId, Kind, PublicKey, Tags, Timestamp, UnsignedEvent};

fn group(gid: &GroupId) -> Group {
    Group {
        mls_group_id: gid.clone(), nostr_group_id: [1; 32], name: "g".into(), description: "d".into(), admin_pubkeys: BTreeSet::new(),
        last_message_id: None, last_message_at: None, last_message_processed_at: None, epoch: 1, state: GroupState::Active,
        image_hash: None, image_key: None, image_nonce: None, self_update_state: SelfUpdateState::Required,
    }
}

fn message(gid: &GroupId, b: u8) -> Message {
    let pk = PublicKey::from_byte_array([2u8; 32]);
    let ev = UnsignedEvent::new(pk, Timestamp::from_secs(10), Kind::from(9u16), Tags::new(), "m".to_string());
    Message {
        id: EventId::from_byte_array([b; 32]), pubkey: pk, kind: Kind::from(9u16), mls_group_id: gid.clone(), created_at: Timestamp::from_secs(10),
        processed_at: Timestamp::from_secs(11), content: "m".into(), tags: Tags::new(), event: ev, wrapper_event_id: EventId::from_byte_array([b + 1; 32]),
        epoch: Some(1), state: MessageState::Processed,
    }
}

fn huge_offset<S: MdkStorageProvider>(s: S) {
    let g = GroupId::from_slice(&[1, 2, 3]);
    s.save_group(group(&g)).unwrap();
    s.save_message(message(&g, 10)).unwrap();
    s.save_message(message(&g, 20)).unwrap();
    for off in [2usize, 3, usize::MAX / 2, (usize::MAX / 2) + 1, usize::MAX - 1] {
        let page = s.messages(&g, Some(Pagination::new(Some(1), Some(off)))).unwrap();
        assert!(page.is_empty(), "offset {off} is past the end of a 2-message listing but the page holds {} message(s)", page.len());
    }
}

/// C10-O2 / C18: pagination is exact for every offset (SQLite)
#[test]
fn c10_sqlite_messages_huge_offset() {
    let dir = tempfile::tempdir().unwrap();
    huge_offset(MdkSqliteStorage::new_unencrypted(dir.path().join("c.db")).unwrap());
}

/// control: memory backend
#[test]
fn c10_memory_messages_huge_offset() {
    huge_offset(MdkMemoryStorage::default());
}
