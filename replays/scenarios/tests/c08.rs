use mdk_core::prelude::*;
use mdk_memory_storage::{MdkMemoryStorage, ValidationLimits};
use mdk_sqlite_storage::MdkSqliteStorage;
use nostr::event::builder::EventBuilder;
use nostr::{Keys, Kind};
use scenarios::*;

/// C06-O7 / C08: a commit whose new group name the receiver's store refuses (SQLite: 255 bytes) must either be
/// refused as a whole (group exactly as it was) or be applied with the stored record following the MLS state.
#[test]
fn c08_commit_with_overlong_name_is_all_or_nothing_sqlite() {
    let ak = Keys::generate();
    let a = MDK::new(MdkMemoryStorage::with_limits(ValidationLimits::new().with_max_group_name_length(4096)));
    let bk = Keys::generate();
    let b = MDK::new(MdkSqliteStorage::new_unencrypted(":memory:").unwrap());
    let cfg = NostrGroupConfigData::new("g".into(), "d".into(), None, None, None, vec![relay()], vec![ak.public_key()]);
    let res = a.create_group(&ak.public_key(), vec![kp(&bk, &b)], cfg).unwrap();
    let gid = res.group.mls_group_id.clone();
    a.merge_pending_commit(&gid).unwrap();
    join(&b, &res.welcome_rumors);
    let before = b.get_group(&gid).unwrap().unwrap();
    let long = "n".repeat(300);
    let ev = a.update_group_data(&gid, NostrGroupDataUpdate::new().name(long.clone())).unwrap().evolution_event;
    a.merge_pending_commit(&gid).unwrap();
    let r = b.process_message(&ev);
    let after = b.get_group(&gid).unwrap().unwrap();
    // traffic of the new epoch tells whether bob's MLS state moved on
    let m = a.create_message(&gid, EventBuilder::new(Kind::Custom(9), "after rename").build(ak.public_key())).unwrap();
    let follows = matches!(b.process_message(&m), Ok(MessageProcessingResult::ApplicationMessage(_)));
    if matches!(r, Ok(MessageProcessingResult::Commit { .. })) {
        assert_eq!(after.name, long, "commit applied but the stored record does not carry the new name");
        assert!(follows);
    } else {
        assert_eq!(after.epoch, before.epoch);
        assert!(
            !follows || after.epoch > before.epoch,
            "the commit was reported as not applied ({:?}) and the stored record still says epoch {}, but the MLS state moved to the new epoch: the refused commit changed the group",
            r, after.epoch
        );
    }
}
