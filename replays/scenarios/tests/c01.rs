use mdk_core::prelude::*;
use mdk_memory_storage::MdkMemoryStorage;
use mdk_sqlite_storage::MdkSqliteStorage;
use nostr::event::builder::EventBuilder;
use nostr::{Keys, Kind};
use scenarios::*;

fn epoch<S: mdk_storage_traits::MdkStorageProvider>(m: &MDK<S>, g: &GroupId) -> u64 {
    m.get_group(g).unwrap().unwrap().epoch
}

/// C01-O6: two admins commit on the same epoch and each applies its own commit right after publishing
/// (MDK::merge_pending_commit). Once everybody has been offered both commits, all members must be on the
/// MIP-03 winner's branch.
#[test]
fn c01_immediate_merge_loser_converges() {
    let ck = Keys::generate();
    let c = MDK::new(MdkMemoryStorage::default());
    let ((ak, a), (bk, b), gid) = three(&c, &ck);
    let ev_a = a.self_update(&gid).unwrap().evolution_event;
    let ev_b = b.self_update(&gid).unwrap().evolution_event;
    let a_wins = (ev_a.created_at, ev_a.id) < (ev_b.created_at, ev_b.id);
    let (w, l, ev_w, ev_l, wk) = if a_wins { (&a, &b, &ev_a, &ev_b, &ak) } else { (&b, &a, &ev_b, &ev_a, &bk) };
    w.merge_pending_commit(&gid).unwrap();
    l.merge_pending_commit(&gid).unwrap();
    // everybody is offered both commits, twice
    for _ in 0..2 {
        for ev in [ev_l, ev_w] {
            let _ = c.process_message(ev);
            let _ = l.process_message(ev);
            let _ = w.process_message(ev);
        }
    }
    // traffic on the winning branch must be readable by every member
    let m1 = w.create_message(&gid, EventBuilder::new(Kind::Custom(9), "on winning branch").build(wk.public_key())).unwrap();
    assert!(matches!(c.process_message(&m1), Ok(MessageProcessingResult::ApplicationMessage(_))), "bystander did not converge to the winner");
    assert!(
        matches!(l.process_message(&m1), Ok(MessageProcessingResult::ApplicationMessage(_))),
        "the losing committer, having merged its own commit immediately, stays on the losing branch"
    );
    assert_eq!(epoch(w, &gid), epoch(l, &gid));
}

/// C11-O2: the same race seen by a bystander on SQLite that is restarted between the losing and the winning commit.
#[test]
fn c11_restart_between_competing_commits() {
    let dir = tempfile::tempdir().unwrap();
    let dbp = dir.path().join("c.db");
    let ck = Keys::generate();
    let c = MDK::new(MdkSqliteStorage::new_unencrypted(&dbp).unwrap());
    let ((ak, a), (bk, b), gid) = three(&c, &ck);
    let ev_a = a.self_update(&gid).unwrap().evolution_event;
    let ev_b = b.self_update(&gid).unwrap().evolution_event;
    let a_wins = (ev_a.created_at, ev_a.id) < (ev_b.created_at, ev_b.id);
    let (w, ev_w, ev_l, wk) = if a_wins { (&a, &ev_a, &ev_b, &ak) } else { (&b, &ev_b, &ev_a, &bk) };
    w.merge_pending_commit(&gid).unwrap();
    assert!(matches!(c.process_message(ev_l), Ok(MessageProcessingResult::Commit { .. })));
    drop(c);
    let c = MDK::new(MdkSqliteStorage::new_unencrypted(&dbp).unwrap()); // restart
    let _ = c.process_message(ev_w);
    let m1 = w.create_message(&gid, EventBuilder::new(Kind::Custom(9), "on winning branch").build(wk.public_key())).unwrap();
    assert!(
        matches!(c.process_message(&m1), Ok(MessageProcessingResult::ApplicationMessage(_))),
        "after a restart the better commit no longer triggers the rollback: the member stays on the losing branch"
    );
}
