#!/bin/sh
# Run once after a fresh restore, offline: warms the build caches the checks use (all under /verif/.work).
set -e
cd "$(dirname "$0")"
export CARGO_NET_OFFLINE=true
mkdir -p .work evidence
cp /repo/Cargo.lock kani/direct/Cargo.lock
# E1: compile the Kani harness crate (dependencies of mdk-core under the Kani toolchain)
( cd kani/direct && cargo kani --target-dir /verif/.work/kani/t0 -Z stubbing --only-codegen >/verif/.work/setup-kani.log 2>&1 ) || { tail -30 /verif/.work/setup-kani.log; exit 1; }
# E3: build the nightly dependency graph once and cache the MIR dumps of the current tree
/opt/veriftools/pyvenv/bin/python3 -c "
import sys; sys.path.insert(0, '/verif')
from mirsym.mirparse import dump_mir
for c in ('mdk-core', 'mdk-storage-traits', 'mdk-memory-storage', 'mdk-sqlite-storage'):
    print(c, dump_mir(c)[1:])
" > /verif/.work/setup-mir.log 2>&1 || { tail -30 /verif/.work/setup-mir.log; exit 1; }
echo setup ok
