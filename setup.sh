#!/bin/sh
# Run once after a fresh restore, offline: warms the build caches the checks use (all under /verif/.work).
set -e
cd "$(dirname "$0")"
export CARGO_NET_OFFLINE=true
mkdir -p .work evidence
cp /repo/Cargo.lock kani/direct/Cargo.lock
# E1: compile the Kani harness crate (dependencies of mdk-core under the Kani toolchain)
( cd kani/direct && cargo kani --target-dir /verif/.work/kani/t0 -Z stubbing --only-codegen >/verif/.work/setup-kani.log 2>&1 ) || { tail -30 /verif/.work/setup-kani.log; exit 1; }
echo setup ok
