#!/bin/bash
# usage: tools_confirm_seed.sh <worktree> <mutation dir with patch.diff demo.diff>
# Confirms in a scratch worktree: (1) suite green with patch, (2) demo fails with patch, (3) demo passes without patch.
wt=$1; d=$2
cd "$wt" || exit 9
git checkout -q -- . && git clean -fdq -e target
names=$(grep -E '^\+\s*(async )?fn test_' "$d/demo.diff" | sed -E 's/^\+\s*(async )?fn (test_[A-Za-z0-9_]+).*/\2/' | sort -u | tr '\n' ' ')
echo "demo tests: $names"
git apply "$d/patch.diff" || { echo "RESULT patch-does-not-apply"; exit 1; }
cargo test --workspace --no-fail-fast --offline > "$d/confirm_suite_with_patch.log" 2>&1
fails=$(grep -E "^test result" "$d/confirm_suite_with_patch.log" | awk '{f+=$6} END {print f+0}')
passed=$(grep -E "^test result" "$d/confirm_suite_with_patch.log" | awk '{f+=$4} END {print f+0}')
compile=$(grep -c "error: could not compile" "$d/confirm_suite_with_patch.log")
echo "suite with patch: passed=$passed failed=$fails compile_errors=$compile"
git apply "$d/demo.diff" || { echo "RESULT demo-does-not-apply-on-patch"; }
wp=0
for n in $names; do cargo test --workspace --offline $n > "$d/confirm_demo_with_patch_$n.log" 2>&1; grep -qE "test result: FAILED|error: test failed" "$d/confirm_demo_with_patch_$n.log" && wp=$((wp+1)); done
echo "demo with patch: $wp of $(echo $names | wc -w) fail"
git checkout -q -- . && git clean -fdq -e target
git apply "$d/demo.diff"
np=0
for n in $names; do cargo test --workspace --offline $n > "$d/confirm_demo_without_patch_$n.log" 2>&1; if grep -qE "test result: FAILED|error: test failed|could not compile" "$d/confirm_demo_without_patch_$n.log"; then np=$((np+1)); fi; done
echo "demo without patch: $np of $(echo $names | wc -w) fail"
git checkout -q -- . && git clean -fdq -e target
if [ "$fails" = 0 ] && [ "$compile" = 0 ] && [ "$passed" -ge 820 ] && [ "$wp" -ge 1 ] && [ "$np" = 0 ]; then echo "RESULT confirmed"; else echo "RESULT NOT-confirmed"; fi
