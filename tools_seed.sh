#!/bin/bash
# usage: tools_seed.sh <patch.diff> <check args...>  -- apply a seeded change to /repo, run a check, undo
patch=$1; shift
cd /repo && { git diff --quiet || { echo "REPO HAS UNCOMMITTED CHANGES - refusing"; exit 4; }; } && git apply "$patch" || { echo "PATCH DOES NOT APPLY"; exit 3; }
cd /verif && ./check "$@" 2>&1 | grep -E "VIOLATION|KNOWN|BROKEN|violated|broken|holds" | cut -c1-260
echo "rc=${PIPESTATUS[0]}"
cd /repo && git checkout -- . && git status --short | head -3
