#!/opt/veriftools/pyvenv/bin/python3
"""Regenerates MANIFEST.json from the table below (keeps it valid against /root/.vp/MANIFEST.schema.json)."""
import json, os, subprocess, sys
HERE = os.path.dirname(os.path.abspath(__file__))
sys.path.insert(0, HERE)
from manifest_data import CHECKS, NOT_APPLICABLE, ENGINES, NOTES

hooks_commits = subprocess.run(['git', '-C', '/repo', 'log', '--format=%H %s'], capture_output=True, text=True).stdout.splitlines()
hook_shas = [l.split()[0] for l in hooks_commits if ' verif-hooks' in l]
m = dict(
    version=1,
    setup_cmd='./setup.sh',
    hooks=dict(guard='cargo feature verif-hooks (crate mdk-core)',
               enable='harness crates depend on mdk-core with features=["verif-hooks","mip04"]; MIR dumps use --features verif-hooks,mip04',
               baseline_off_cmd='cd /repo && cargo nextest run --workspace --no-fail-fast --test-threads 8 --offline || cargo test --workspace --no-fail-fast --offline',
               source_commits=hook_shas, add_only=True),
    engines=ENGINES,
    checks=[],
    notes=NOTES,
    not_applicable=NOT_APPLICABLE,
)
for c in CHECKS:
    pid = c['id']
    m['checks'].append(dict(
        property_id=pid,
        quick_cmd=f'./check {pid} --tier quick',
        thorough_cmd=f'./check {pid} --tier thorough',
        evidence_file=f'/verif/evidence/{pid}.json',
        replay_cmd_template=f'./check {pid} --replay {{path}}',
        engine=c['engine'],
        level_claimed=dict(category='other', text=c['text'], design_ref=c['design_ref']),
        level_note=c['note'],
        technique=c['technique'],
    ))
json.dump(m, open(os.path.join(HERE, 'MANIFEST.json'), 'w'), indent=1)
import jsonschema
jsonschema.validate(m, json.load(open('/root/.vp/MANIFEST.schema.json')))
ids = {c['id'] for c in CHECKS} | {n['property_id'] for n in NOT_APPLICABLE}
allp = {json.loads(l)['id'] for l in open(os.path.join(HERE, 'properties.jsonl'))}
assert ids == allp, (allp - ids, ids - allp)
print('MANIFEST ok:', len(CHECKS), 'claimed,', len(NOT_APPLICABLE), 'not applicable')
