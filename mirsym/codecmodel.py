"""Library contracts for byte/string conversions used by the wire-format code (environment models for C15; each is a library fact,
not MDK logic):
  to_vec / as_bytes / into_bytes / to_string keep the content (modelled as the same term tagged with its byte length),
  <Vec<u8> as TryInto<[u8; N]>>::try_into is Ok exactly when the length is N (and then returns the content),
  String::from_utf8 / str::from_utf8 succeed on bytes that came from a String / str and otherwise return an arbitrary result,
  PublicKey::from_byte_array(pk.as_bytes()) == pk,   RelayUrl::parse(url.to_string()) == Ok(url).
"""
import re
import z3

from .mirparse import MirError
from .values import Opaque, Agg, Ref, SeqV, MapV, IterV, StrV, Tok, vrepr, copy_val, FnItem
from . import models as M

R = re.compile

CONTRACTS = [
    'bytes(x) of a [u8; N] / String / RelayUrl keeps the content and has length N / len(x); try_into::<[u8; N]> is Ok iff length == N and returns the content',
    'String::from_utf8(bytes(s)) == Ok(s); PublicKey::from_byte_array(*pk.as_bytes()) == pk; RelayUrl::parse(url.to_string()) == Ok(url)',
    'Vec<u8> values of unknown origin have an arbitrary length (symbolic u64) and arbitrary content',
]


class Bytes:
    """Vec<u8>/&[u8]/&str whose content is `src` (any value) and whose length is `length` (z3 BV64)"""
    def __init__(self, src, length, kind='bytes'):
        self.src, self.length, self.kind = src, length, kind

    def __repr__(self):
        return f'{self.kind}({vrepr(self.src)})'


def blen(eng, st, v):
    v = M.deref_all(eng, st, v)
    if isinstance(v, StrV) and isinstance(v.sym, Bytes):
        return v.sym.length
    if isinstance(v, StrV) and v.text is not None:
        return z3.BitVecVal(len(v.text.encode()), 64)
    if isinstance(v, Opaque):
        return z3.BitVec(v.uid.lstrip('*') + '#len', 64)
    if isinstance(v, SeqV):
        return z3.BitVecVal(len(v.items), 64)
    raise MirError(f'length of {vrepr(v)}')


def wrap(src, length, kind='bytes'):
    return StrV(sym=Bytes(src, length, kind))


def array_len(ty):
    m = re.search(r'\[u8; (\d+)\]', ty)
    return int(m.group(1)) if m else None


def codec_models():
    def to_vec(eng, st, call):
        v = M.deref_all(eng, st, call.args[0])
        if isinstance(v, StrV) and isinstance(v.sym, Bytes):
            return [(st, wrap(v.sym.src, v.sym.length))]
        if isinstance(v, (Opaque, Agg)) or z3.is_expr(v):
            # an array [u8; N] viewed as a slice (unsize coercion keeps the value): length from the parameter type is not visible here,
            # it is attached when the array type is known (map_or_else closure) -- fall back to a symbolic length tied to the value
            n = None
            ty = getattr(v, 'ty', '') or ''
            n = array_len(ty)
            ln = z3.BitVecVal(n, 64) if n else z3.BitVec(M._ident(v).lstrip('*') + '#len', 64)
            return [(st, wrap(v, ln))]
        return None

    def as_bytes(eng, st, call):
        v = M.deref_all(eng, st, call.args[0])
        if isinstance(v, StrV) and isinstance(v.sym, Bytes):
            return [(st, Ref(st.temp(wrap(v.sym.src, v.sym.length)), ()))]
        if isinstance(v, (Opaque, StrV)):
            ln = z3.BitVec(M._ident(v).lstrip('*') + '#len', 64)
            return [(st, Ref(st.temp(wrap(v, ln, 'utf8')), ()))]
        return None

    def try_into_array(eng, st, call):
        m = re.search(r'TryInto<\[u8; (\d+)\]>>::try_into$', call.fn)
        n = int(m.group(1))
        v = M.deref_all(eng, st, call.args[0])
        ln = blen(eng, st, v)
        out = []
        for s2, ok in M.bool_cases(eng, st, ln == n):
            if ok:
                src = v.sym.src if isinstance(v, StrV) and isinstance(v.sym, Bytes) else Opaque('array_of(' + M._ident(v) + ')', f'[u8; {n}]')
                out.append((s2, M.OK(src)))
            else:
                out.append((s2, M.ERR(v)))
        return out

    def is_empty(eng, st, call):
        v = M.deref_all(eng, st, call.args[0])
        if isinstance(v, (SeqV, MapV)):
            return None
        return [(st, blen(eng, st, v) == 0)]

    def from_utf8(eng, st, call):
        v = M.deref_all(eng, st, call.args[0])
        if isinstance(v, StrV) and isinstance(v.sym, Bytes) and v.sym.kind in ('utf8',) :
            return [(st, M.OK(v.sym.src))]
        if isinstance(v, StrV) and isinstance(v.sym, Bytes) and isinstance(v.sym.src, (StrV,)) :
            return [(st, M.OK(v.sym.src))]
        return None

    def from_byte_array(eng, st, call):
        v = M.deref_all(eng, st, call.args[0])
        if isinstance(v, Opaque) and 'as_bytes_of' in v.attrs:
            return [(st, v.attrs['as_bytes_of'])]
        return [(st, Opaque('pk(' + M._ident(v) + ')', 'nostr::key::PublicKey', attrs={'bytes': v}))]

    def pk_as_bytes(eng, st, call):
        v = M.deref_all(eng, st, call.args[0])
        if isinstance(v, Opaque) and 'bytes' in v.attrs:
            b = v.attrs['bytes']
        else:
            b = Opaque('bytes_of(' + M._ident(v) + ')', '[u8; 32]', attrs={'as_bytes_of': v})
        return [(st, Ref(st.temp(b), ()))]

    def url_to_string(eng, st, call):
        v = M.deref_all(eng, st, call.args[0])
        return [(st, wrap(v, z3.BitVec(M._ident(v).lstrip('*') + '#len', 64), 'utf8'))]

    def into_bytes(eng, st, call):
        v = M.deref_all(eng, st, call.args[0])
        if isinstance(v, StrV) and isinstance(v.sym, Bytes):
            return [(st, wrap(v.sym.src, v.sym.length, v.sym.kind))]
        return None

    def url_parse(eng, st, call):
        v = M.deref_all(eng, st, call.args[0])
        if isinstance(v, StrV) and isinstance(v.sym, Bytes):
            return [(st, M.OK(v.sym.src))]
        if isinstance(v, Opaque) and v.attrs.get('url') is not None:
            return [(st, M.OK(v.attrs['url']))]
        return None

    def str_from_utf8(eng, st, call):
        v = M.deref_all(eng, st, call.args[0])
        if isinstance(v, StrV) and isinstance(v.sym, Bytes) and v.sym.kind == 'utf8':
            return [(st, M.OK(Ref(st.temp(v), ())))]
        return None

    def map_or_else(eng, st, call):
        out = []
        for s2, vn, p in M.split_enum(eng, st, call.args[0], 'Option'):
            if vn == 'Some':
                # attach the array type so that to_vec knows the length
                m = re.search(r'Option::<\[u8; (\d+)\]>', call.fn)
                if m and isinstance(p, Opaque) and not array_len(p.ty or ''):
                    p = Opaque(p.uid, f'[u8; {m.group(1)}]', p.over, p.discr, p.attrs)
                out.extend(M.call_closure(eng, s2, call.args[2], [p]))
            else:
                out.extend(M.call_closure(eng, s2, call.args[1], []))
        return out

    def vec_new_fn(eng, st, call):
        return None

    return [
        (R(r'slice::<impl \[u8\]>::to_vec$|<\[u8; \d+\]>::to_vec$|^<\[u8\] as ToOwned>::to_owned$'), to_vec),
        (R(r'String::as_bytes$|str>::as_bytes$'), as_bytes),
        (R(r'TryInto<\[u8; \d+\]>>::try_into$'), try_into_array),
        (R(r'Vec::<u8>::is_empty$|slice::<impl \[u8\]>::is_empty$'), is_empty),
        (R(r'String::from_utf8$'), from_utf8),
        (R(r'^(core::str::|std::str::)?from_utf8$'), str_from_utf8),
        (R(r'PublicKey::from_byte_array$'), from_byte_array),
        (R(r'PublicKey::as_bytes$'), pk_as_bytes),
        (R(r'^<(nostr::types::)?(url::)?RelayUrl as ToString>::to_string$'), url_to_string),
        (R(r'String::into_bytes$'), into_bytes),
        (R(r'RelayUrl::parse(::<.*>)?$'), url_parse),
        (R(r'Option::<\[u8; \d+\]>::map_or_else::<'), map_or_else),
    ]
