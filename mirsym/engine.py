"""Engine E3/E3c: symbolic execution of the repository's MIR.

* every integer is a z3 bit-vector of its machine width (wrapping; overflow `assert`s become panic paths),
* paths are enumerated by forking at switchInt / assert / model-level case splits, each fork guarded by a z3
  feasibility query,
* callees: (1) obligation-supplied models, (2) exact models of the core/alloc/std items the anchored functions use,
  (3) repository functions selected by the obligation are inlined from their own MIR, (4) everything else is an
  uninterpreted environment call: fresh symbolic result of the MIR return type + an entry in the path's call trace.
* an unknown MIR construct raises MirError (check BROKEN), never a silent skip.
"""
import os, re, time
import z3
from vlib import cross

from .mirparse import MirError, split_top, strip_generics, split_path, simple_type_name, last_seg
from .values import (Ref, Agg, Opaque, Tok, SeqV, MapV, IterV, FnItem, StrV, int_width, is_signed, fresh_of_type,
                     copy_val, deep_copy, vrepr)

BINOPS = ('Eq', 'Ne', 'Lt', 'Le', 'Gt', 'Ge', 'Add', 'Sub', 'Mul', 'Div', 'Rem', 'BitAnd', 'BitOr', 'BitXor', 'Shl', 'Shr',
          'AddWithOverflow', 'SubWithOverflow', 'MulWithOverflow', 'AddUnchecked', 'SubUnchecked', 'MulUnchecked',
          'ShlUnchecked', 'ShrUnchecked', 'Offset', 'Cmp')
UNOPS = ('Not', 'Neg', 'PtrMetadata')
SKIP_STMT = ('StorageLive', 'StorageDead', 'nop', 'FakeRead', 'PlaceMention', 'Retag', 'AscribeUserType', 'Coverage',
             'ConstEvalCounter', 'BackwardIncompatibleDropHint')


class Panic:
    def __init__(self, msg):
        self.msg = msg

    def __repr__(self):
        return f'Panic({self.msg})'


class Event:
    __slots__ = ('fn', 'short', 'args', 'ret', 'depth', 'site')

    def __init__(self, fn, short, args, ret, depth=0, site=None):
        self.fn, self.short, self.args, self.ret, self.depth, self.site = fn, short, args, ret, depth, site

    def __repr__(self):
        return self.short


class Frame:
    __slots__ = ('func', 'cells', 'index')

    def __init__(self, func, index=0):
        self.func = func
        self.cells = {}
        self.index = index


class State:
    def __init__(self):
        self.frames = []
        self.pc = []
        self.trace = []
        self.heap = {}        # uid -> value (pointees of opaque references)
        self.temps = {}       # n -> value (temporaries created by models: closure environments, literals)
        self.ext = {}         # obligation-specific model state (copied with the state)
        self.counter = {}     # name -> int (fresh-name counters; part of the state so clones stay deterministic)
        self.cut = None
        self.notes = []
        self.model = None

    def clone(self):
        s = State()
        for f in self.frames:
            g = Frame(f.func, f.index)
            g.cells = {k: copy_val(v) for k, v in f.cells.items()}
            s.frames.append(g)
        s.heap = {k: copy_val(v) for k, v in self.heap.items()}
        s.temps = {k: copy_val(v) for k, v in self.temps.items()}
        s.ext = deep_copy(self.ext)
        s.trace = list(self.trace)
        s.pc = list(self.pc)
        s.counter = dict(self.counter)
        s.cut = self.cut
        s.notes = list(self.notes)
        s.model = self.model
        return s

    def fresh(self, base):
        n = self.counter.get(base, 0)
        self.counter[base] = n + 1
        return f'{base}#{n}' if n else base

    def temp(self, v):
        n = self.counter.get('%temp', 0)
        self.counter['%temp'] = n + 1
        self.temps[n] = v
        return ('T', n)

    # location access
    def get(self, loc):
        k = loc[0]
        if k == 'L':
            return self.frames[loc[1]].cells.get(loc[2])
        if k == 'H':
            return self.heap.get(loc[1])
        return self.temps.get(loc[1])

    def put(self, loc, v):
        k = loc[0]
        if k == 'L':
            self.frames[loc[1]].cells[loc[2]] = v
        elif k == 'H':
            self.heap[loc[1]] = v
        else:
            self.temps[loc[1]] = v


class Path:
    def __init__(self, st, kind, ret=None, msg=None):
        self.st, self.kind, self.ret, self.msg = st, kind, ret, msg
        self.pc, self.trace = st.pc, st.trace

    def calls(self, *subs):
        return [e for e in self.trace if any(s in e.fn for s in subs)]

    def __repr__(self):
        return f'Path({self.kind}, ret={vrepr(self.ret)}, trace={[e.short for e in self.trace]})'


class Call:
    __slots__ = ('fn', 'args', 'argops', 'dest_ty', 'frame', 'func', 'site', 'st_depth')


# ----------------------------------------------------------------------------------------------------------
# parsing of places / operands / rvalues (cached per function text)

def _match_paren(s, i):
    """index of the bracket matching s[i] (one of ([{<)"""
    d = 0
    pairs = {'(': ')', '[': ']', '{': '}', '<': '>'}
    j = i
    instr = False
    while j < len(s):
        c = s[j]
        if instr:
            if c == '\\':
                j += 2; continue
            if c == '"':
                instr = False
        elif c == '"':
            instr = True
        elif c in '([{<':
            d += 1
        elif c in ')]}>' and not (c == '>' and j > 0 and s[j - 1] in '-='):
            d -= 1
            if d == 0:
                return j
        j += 1
    raise MirError('unbalanced: ' + s[:120])


_PLACE_CACHE = {}


def parse_place(s):
    s = s.strip()
    r = _PLACE_CACHE.get(s)
    if r is None:
        r = _parse_place(s)
        _PLACE_CACHE[s] = r
    return r


def _parse_place(s):
    m = re.match(r'^_\d+$', s)
    if m:
        return ('local', s)
    if s.endswith(']'):
        # find the '[' matching the final ']'
        d = 0
        for k in range(len(s) - 1, -1, -1):
            if s[k] == ']':
                d += 1
            elif s[k] == '[':
                d -= 1
                if d == 0:
                    break
        base, idx = s[:k], s[k + 1:-1]
        if base and (base[0] in '(_'):
            b = parse_place(base)
            if re.match(r'^_\d+$', idx):
                return ('index', b, idx)
            m = re.match(r'^(-?\d+) of (\d+)$', idx)
            if m:
                return ('cindex', b, int(m.group(1)), idx.startswith('-'))
            raise MirError('index form? ' + s)
    if s.startswith('(') and _match_paren(s, 0) == len(s) - 1:
        inner = s[1:-1].strip()
        if inner.startswith('*'):
            return ('deref', parse_place(inner[1:]))
        # base place prefix
        if inner.startswith('('):
            e = _match_paren(inner, 0) + 1
        else:
            m = re.match(r'^_\d+', inner)
            if not m:
                raise MirError('place? ' + s)
            e = m.end()
        while e < len(inner) and inner[e] == '[':
            e = _match_paren(inner, e) + 1
        base, rest = inner[:e], inner[e:]
        if rest == '':
            return parse_place(base)
        m = re.match(r'^\.(\d+): (.*)$', rest, re.S)
        if m:
            return ('field', parse_place(base), int(m.group(1)), m.group(2))
        m = re.match(r'^ as (\w+)$', rest)
        if m:
            return ('downcast', parse_place(base), m.group(1))
        raise MirError('place? ' + s)
    raise MirError('place? ' + s)


def parse_operand(s):
    s = s.strip()
    for pre in ('no_retag copy ', 'no_retag move ', 'copy ', 'move '):
        if s.startswith(pre):
            return (pre.split()[-1], parse_place(s[len(pre):]))
    if s.startswith('const '):
        return ('const', s[6:].strip())
    if re.match(r'^[A-Za-z_<][\w:<>, &\[\];\'()]*$', s) and ('::' in s or re.match(r'^[A-Za-z]\w*$', s)):
        return ('fnitem', s)          # a function item used as a value (a path, or the bare name of a free function of the crate)
    raise MirError('operand? ' + s[:200])


_RV_CACHE = {}


def parse_rvalue(s):
    r = _RV_CACHE.get(s)
    if r is None:
        r = _parse_rvalue(s)
        _RV_CACHE[s] = r
    return r


def _parse_rvalue(s):
    s = s.strip()
    mcast = re.match(r'^(.*) as (.*) \((PointerCoercion\(.*\)|FnPtrToPtr)\)$', s, re.S)
    if mcast and not s.startswith(('copy ', 'move ', 'no_retag ', 'const ', '&')):
        # function item reified to a function pointer:  path::to::f as fn(..) -> .. (PointerCoercion(ReifyFnPointer(Safe), ..))
        return ('cast', ('fnitem', mcast.group(1).strip()), mcast.group(2), mcast.group(3))
    if s.startswith(('copy ', 'move ', 'no_retag ', 'const ')):
        # operand, or cast: "<operand> as <ty> (<Kind>)"
        m = re.match(r'^(.*) as (.*) \((PointerCoercion\(.*\)|IntToInt|IntToFloat|FloatToInt|FloatToFloat|PtrToPtr|Transmute|FnPtrToPtr|PointerExposeProvenance|PointerWithExposedProvenance|Subtype)\)$', s, re.S)
        if m and not s.startswith('const "'):
            return ('cast', parse_operand(m.group(1)), m.group(2), m.group(3))
        return ('use', parse_operand(s))
    m = re.match(r'^&(mut |raw const \(fake\) |raw mut \(fake\) |raw const |raw mut |fake shallow |fake )?(.*)$', s, re.S)
    if m and not s.startswith('&&'):
        return ('ref', parse_place(m.group(2)), (m.group(1) or '').strip())
    m = re.match(r'^(\w+)\((.*)\)$', s, re.S)
    if m and m.group(1) in BINOPS:
        a, b = split_top(m.group(2))
        return ('bin', m.group(1), parse_operand(a), parse_operand(b))
    if m and m.group(1) in UNOPS:
        return ('un', m.group(1), parse_operand(m.group(2)))
    if m and m.group(1) == 'discriminant':
        return ('discr', parse_place(m.group(2)))
    if m and m.group(1) in ('Len',):
        return ('len', parse_place(m.group(2)))
    if m and m.group(1) in ('CopyForDeref',):
        return ('use', ('copy', parse_place(m.group(2))))
    if s.startswith('deref_copy '):
        return ('use', ('copy', parse_place(s[len('deref_copy '):])))
    if s.startswith('{closure@') or s.startswith('{coroutine@'):
        e = _match_paren(s, 0)
        cty = s[:e + 1]
        rest = s[e + 1:].strip()
        caps = []
        if rest:
            if not (rest.startswith('{') and rest.endswith('}')):
                raise MirError('closure agg? ' + s[:200])
            for t in split_top(rest[1:-1]):
                nm, _, op = t.partition(': ')
                caps.append(parse_operand(op))
        return ('agg', 'closure', cty, caps, None)
    if s.startswith('(') and _match_paren(s, 0) == len(s) - 1:
        inner = s[1:-1].strip()
        ops = [parse_operand(t) for t in split_top(inner)] if inner else []
        return ('agg', 'tuple', None, ops, None)
    if s.startswith('[') and s.endswith(']'):
        inner = s[1:-1]
        parts = split_top(inner, ';')
        if len(parts) == 2 and ',' not in strip_generics(parts[0]) or (len(parts) == 2 and len(split_top(inner)) == 1):
            return ('repeat', parse_operand(parts[0]), parts[1].strip())
        return ('agg', 'array', None, [parse_operand(t) for t in split_top(inner)], None)
    # ADT aggregates:  Path::<..>::Variant(ops) | Path { f: op, .. } | Path::Variant | Path
    if s.endswith(')'):
        # find the '(' matching the final ')'
        d = 0
        for k in range(len(s) - 1, -1, -1):
            if s[k] == ')':
                d += 1
            elif s[k] == '(':
                d -= 1
                if d == 0:
                    break
        name, inner = s[:k].strip(), s[k + 1:-1]
        return ('agg', 'adt', name, [parse_operand(t) for t in split_top(inner)], None)
    if s.endswith('}'):
        k = s.index(' {')
        name, inner = s[:k].strip(), s[k + 2:-1].strip()
        names, ops = [], []
        for t in split_top(inner):
            nm, _, op = t.partition(': ')
            names.append(nm.strip()); ops.append(parse_operand(op))
        return ('agg', 'adt', name, ops, names)
    if re.match(r'^[\w:<>, &\[\];\'()]+$', s):
        return ('agg', 'adt', s, [], None)
    raise MirError('rvalue? ' + s[:200])


# ----------------------------------------------------------------------------------------------------------

class Engine:
    def __init__(self, prog, inline=(), models=(), pure=(), loop_bound=6, max_paths=20000, max_depth=12,
                 silent=(), havoc_mut=True, inline_pred=None, int_hint=None, assume_ok=()):
        self.prog = prog
        self.inline = set(inline)
        self.repo_callees = {}
        self.inline_pred = inline_pred
        self.user_models = list(models)
        self.pure = set(pure)
        self.loop_bound = loop_bound
        self.max_paths = max_paths
        self.max_depth = max_depth
        self.silent = tuple(silent)
        self.havoc_mut = havoc_mut
        self.assume_ok = [re.compile(x) if isinstance(x, str) else x for x in assume_ok]
        self.solver = z3.Solver()
        self.query_timeout_ms = int(os.environ.get('VERIF_QUERY_TIMEOUT_MS', '300000'))     # a query that does not return is `unknown` = BROKEN, never a pass
        self.solver.set('timeout', self.query_timeout_ms)
        self.queries = 0
        self.cache_hits = 0
        self._pcsets = {}
        self._wit = None
        self.solver_s = 0.0
        self.paths_done = 0
        self.functions_encoded = set()
        self.unknown_callees = {}
        from . import models as M
        self.std_models = M.STD_MODELS
        self.M = M

    # ------------------------------------------------------------------ solver
    def check(self, conds):
        self.queries += 1
        t0 = time.time()
        self.solver.push()
        try:
            for c in conds:
                self.solver.add(c)
            r = self.solver.check()
        finally:
            self.solver.pop()
        self.solver_s += time.time() - t0
        if r == z3.unknown:
            raise MirError('solver returned unknown: ' + self.solver.reason_unknown())
        if cross.ENABLED[0]:
            cross.record(conds, 'sat' if r == z3.sat else 'unsat', 'feasible')
        return r == z3.sat

    def feasible(self, st, extra=None):
        """Is pc /\\ extra satisfiable?  Uses the state's cached model first (counterexample caching).
        On success the witness model is remembered in self._wit so the caller can attach it to the successor state."""
        self._wit = None
        if extra is not None:
            e = z3.simplify(extra)
            if z3.is_true(e):
                self._wit = st.model
                return True
            if z3.is_false(e):
                return False
            if st.model is not None:
                try:
                    if z3.is_true(st.model.eval(e, model_completion=True)):
                        self._wit = st.model
                        self.cache_hits += 1
                        return True
                except z3.Z3Exception:
                    pass
            conds = st.pc + [e]
        else:
            conds = st.pc
        self.queries += 1
        t0 = time.time()
        self.solver.push()
        try:
            for c in conds:
                self.solver.add(c)
            r = self.solver.check()
            if r == z3.sat:
                self._wit = self.solver.model()
        finally:
            self.solver.pop()
        self.solver_s += time.time() - t0
        if r == z3.unknown:
            raise MirError('solver returned unknown: ' + self.solver.reason_unknown())
        if cross.ENABLED[0]:
            cross.record(conds, 'sat' if r == z3.sat else 'unsat', 'feasible')
        return r == z3.sat

    def assume(self, st, cond):
        """append cond to the path condition, keeping the cached model if it still satisfies it"""
        c = z3.simplify(cond)
        if z3.is_true(c):
            return
        st.pc.append(c)
        if st.model is not None:
            try:
                if not z3.is_true(st.model.eval(c, model_completion=True)):
                    st.model = None
            except z3.Z3Exception:
                st.model = None

    def model(self, conds):
        self.queries += 1
        s = z3.Solver()
        for c in conds:
            s.add(c)
        if s.check() == z3.sat:
            return s.model()
        return None

    def prove(self, path_or_pc, claim):
        """True iff pc => claim (checks pc /\\ not claim unsat). Returns (holds, model or None).
        Fast paths: conjuncts that literally occur in the path condition; refutation by the path's cached model."""
        pc = path_or_pc.pc if hasattr(path_or_pc, 'pc') else path_or_pc
        if isinstance(claim, bool):
            claim = z3.BoolVal(claim)
        cs = z3.simplify(claim)
        if z3.is_true(cs):
            return True, None
        conj = cs.children() if z3.is_and(cs) else [cs]
        if len(conj) <= 4:
            pcs = pc + [z3.simplify(c) for c in pc]
            if all(any(c.eq(x) for x in pcs) for c in conj):
                return True, None
        st = getattr(path_or_pc, 'st', None)
        mdl = getattr(st, 'model', None) if st is not None else None
        if mdl is not None:
            try:
                if z3.is_false(mdl.eval(cs, model_completion=True)):
                    return False, mdl
            except z3.Z3Exception:
                pass
        self.queries += 1
        t0 = time.time()
        s = z3.Solver()
        s.set('timeout', self.query_timeout_ms)
        for c in pc:
            s.add(c)
        s.add(z3.Not(claim))
        r = s.check()
        self.solver_s += time.time() - t0
        if r == z3.unknown:
            raise MirError('solver unknown')
        cross.record(list(pc) + [z3.Not(claim)], 'unsat' if r == z3.unsat else 'sat', 'claim')
        if r == z3.unsat:
            return True, None
        return False, s.model()

    # ------------------------------------------------------------------ memory
    def heap_loc(self, st, opq, pointee_ty=None):
        if opq.uid not in st.heap:
            ty = pointee_ty or deref_type(opq.ty)
            st.heap[opq.uid] = fresh_of_type('*' + opq.uid, ty)
        return ('H', opq.uid)

    def resolve(self, st, fi, p):
        """place -> (loc, path); fi = frame index"""
        k = p[0]
        if k == 'local':
            return ('L', fi, p[1]), ()
        if k == 'field':
            c, path = self.resolve(st, fi, p[1])
            return c, path + (('f', p[2], p[3]),)
        if k == 'downcast':
            c, path = self.resolve(st, fi, p[1])
            return c, path + (('v', p[2]),)
        if k == 'deref':
            c, path = self.resolve(st, fi, p[1])
            v = self.read(st, c, path)
            return self.deref_value(st, v)
        if k == 'index':
            c, path = self.resolve(st, fi, p[1])
            iv = self.read(st, ('L', fi, p[2]), ())
            kk = self.concrete_int(st, iv)
            return c, path + (('i', kk),)
        if k == 'cindex':
            c, path = self.resolve(st, fi, p[1])
            return c, path + (('i', p[2]),)
        raise MirError(f'place kind {k}')

    def deref_value(self, st, v):
        if isinstance(v, Ref):
            return v.loc, v.path
        if isinstance(v, Opaque):
            return self.heap_loc(st, v), ()
        if isinstance(v, StrV):
            # a string literal is modelled by value: `&(*lit)` re-borrows the same string
            return st.temp(v), ()
        raise MirError(f'deref of non-reference {vrepr(v)}')

    def concrete_int(self, st, v):
        if isinstance(v, int):
            return v
        v = z3.simplify(v)
        if z3.is_bv_value(v):
            return v.as_long()
        raise MirError(f'symbolic index {v} not supported (concrete-shape containers)')

    def read(self, st, loc, path):
        v = st.get(loc)
        if v is None:
            raise MirError(f'read of uninitialised {loc}')
        variant = None
        for step in path:
            v, variant = self.child(st, v, step, variant)
        return v

    def child(self, st, v, step, variant):
        k = step[0]
        if k == 'v':
            if isinstance(v, Agg) and v.variant is not None and last_seg(v.variant) != step[1]:
                raise MirError(f'downcast of {v!r} as {step[1]}')
            return v, step[1]
        if k == 'f':
            idx = step[1]
            if isinstance(v, Agg):
                if idx >= len(v.fields):
                    raise MirError(f'field {idx} of {v!r}')
                return v.fields[idx], None
            if isinstance(v, Opaque):
                return v.child(variant, idx, step[2]), None
            if isinstance(v, Ref) and idx == 0:
                # newtype wrapper around a reference (e.g. guard types modelled as the reference itself)
                return v, None
            if isinstance(v, (SeqV, MapV, StrV, Tok)) :
                return self.M.field_of_model(self, st, v, idx, step[2]), None
            if z3.is_expr(v) and idx == 0:
                return v, None      # newtype around a scalar (Timestamp(u64), Kind(u16) ...)
            raise MirError(f'field {idx} of {vrepr(v)} ({type(v).__name__})')
        if k == 'i':
            if isinstance(v, SeqV):
                if step[1] >= len(v.items):
                    raise MirError(f'index {step[1]} out of range in model container {v!r}')
                return v.items[step[1]], None
            if isinstance(v, Agg):
                return v.fields[step[1]], None
            if isinstance(v, Opaque):
                return v.child('idx', step[1], elem_type(v.ty)), None
            raise MirError(f'index into {vrepr(v)}')
        if k in ('e', 'k'):
            if isinstance(v, MapV):
                return v.entries[step[1]][1 if k == 'e' else 0], None
            raise MirError(f'map step on {vrepr(v)}')
        raise MirError(f'step {step}')

    def write(self, st, loc, path, val):
        if not path:
            st.put(loc, val)
            return
        st.put(loc, self._set(st, st.get(loc), path, 0, val, None))

    def _set(self, st, v, path, i, val, variant):
        if i == len(path):
            return val
        step = path[i]
        k = step[0]
        if k == 'v':
            return self._set(st, v, path, i + 1, val, step[1])
        if k == 'f':
            idx = step[1]
            if isinstance(v, Agg):
                while len(v.fields) <= idx:
                    v.fields.append(None)
                v.fields[idx] = self._set(st, v.fields[idx], path, i + 1, val, None)
                return v
            if isinstance(v, Opaque):
                cur = v.child(variant, idx, step[2])
                n = Opaque(v.uid, v.ty, v.over, v.discr, v.attrs)
                n.over[(variant, idx)] = self._set(st, cur, path, i + 1, val, None)
                return n
            if v is None:
                a = Agg('struct', '?', None, [])
                return self._set(st, a, path, i, val, variant)
            if z3.is_expr(v) and idx == 0 and i + 1 == len(path):
                return val
            raise MirError(f'write field {idx} of {vrepr(v)}')
        if k == 'i':
            if isinstance(v, SeqV):
                v.items[step[1]] = self._set(st, v.items[step[1]], path, i + 1, val, None)
                return v
            if isinstance(v, Agg):
                v.fields[step[1]] = self._set(st, v.fields[step[1]], path, i + 1, val, None)
                return v
        if k == 'e' and isinstance(v, MapV):
            v.entries[step[1]][1] = self._set(st, v.entries[step[1]][1], path, i + 1, val, None)
            return v
        raise MirError(f'write step {step} on {vrepr(v)}')

    # ------------------------------------------------------------------ operands / rvalues
    def place_type(self, fr, p):
        k = p[0]
        if k == 'local':
            return fr.func.types.get(p[1], '?')
        if k == 'field':
            return p[3]
        if k == 'deref':
            return deref_type(self.place_type(fr, p[1]))
        if k in ('index', 'cindex'):
            return elem_type(self.place_type(fr, p[1]))
        if k == 'downcast':
            return self.place_type(fr, p[1])
        return '?'

    def operand_type(self, fr, op):
        if op[0] == 'fnitem':
            return 'fn'
        if op[0] == 'const':
            m = re.match(r'^-?\d+_(\w+)$', op[1])
            if m:
                return m.group(1)
            if op[1] in ('true', 'false'):
                return 'bool'
            return '?'
        return self.place_type(fr, op[1])

    def const_value(self, st, fr, c):
        if c == 'true':
            return z3.BoolVal(True)
        if c == 'false':
            return z3.BoolVal(False)
        if c == '()':
            return Agg('tuple', '()', None, [])
        m = re.match(r'^(-?\d+)_(\w+)$', c)
        if m:
            w = int_width(m.group(2))
            if w:
                return z3.BitVecVal(int(m.group(1)), w)
        m = re.match(r'^"(.*)"$', c, re.S)
        if m:
            return StrV(text=_unescape(m.group(1)))
        m = re.match(r'^b"(.*)"$', c, re.S)
        if m:
            bs = _unescape_bytes(m.group(1))
            return Ref(st.temp(SeqV([z3.BitVecVal(b, 8) for b in bs], '[u8]')), ())
        m = re.match(r"^'(.*)'$", c)
        if m:
            ch = _unescape(m.group(1))
            return z3.BitVecVal(ord(ch), 32)
        m = re.match(r'^(.*)::promoted\[(\d+)\]$', c)
        if m:
            pf = self.prog.promoted(self.owner_fn(fr.func), int(m.group(2)))
            return self.eval_const_body(st, pf)
        m = re.match(r'^ZeroSized: (.*)$', c, re.S)
        if m:
            ty = m.group(1).strip()
            mm = re.search(r'(\{closure@[^}]*\})', ty)
            if mm and ty.startswith('{closure@'):
                return Agg('closure', mm.group(1), None, [])
            mm = re.match(r'^fn\(.*?\)(?: -> .*?)? \{(.*)\}$', ty, re.S)
            if mm:
                return FnItem(mm.group(1))
            return Agg('struct', ty, None, [])
        m = re.match(r'^(?:std::|core::)?(result::Result|option::Option)::<.*?>::(Ok|Err|Some)\((.*)\)$', c, re.S)
        if m:
            en = 'Result' if 'Result' in m.group(1) else 'Option'
            return Agg('enum', en, f'{en}::{m.group(2)}', [self.const_value(st, fr, m.group(3))])
        if re.match(r'^(?:std::|core::)?option::Option::<.*>::None$', c, re.S):
            return Agg('enum', 'Option', 'Option::None', [])
        if c.startswith('{alloc') or c.startswith('Indirect') or c.startswith('Scalar'):
            return Opaque('const:' + re.sub(r'\s+', '', c)[:50], '?')
        # named constant / static / unit enum constant
        val = self.M.named_const(self, st, fr, c)
        if val is not None:
            return val
        return Opaque('const:' + c[:80], '?')

    def owner_fn(self, f):
        return f

    def eval_const_body(self, st, f):
        """evaluate a promoted/const MIR body in the given state; returns its value (bodies are straight-line)."""
        key = ('const', f.crate, f.name)
        paths = self.run_function(st, f, [])
        if len(paths) != 1 or paths[0][1] is None:
            raise MirError(f'const body {f.name} did not evaluate to one value')
        return paths[0][1]

    def eval_operand(self, st, fr, op):
        if op[0] == 'const':
            return self.const_value(st, fr, op[1])
        if op[0] == 'fnitem':
            return FnItem(op[1])
        c, path = self.resolve(st, fr.index, op[1])
        v = self.read(st, c, path)
        return copy_val(v)

    def eval_rvalue(self, st, fr, rv, dest_ty=None):
        k = rv[0]
        if k == 'use':
            return self.eval_operand(st, fr, rv[1])
        if k == 'ref':
            c, path = self.resolve(st, fr.index, rv[1])
            return Ref(c, path, mut=('mut' in rv[2]))
        if k == 'discr':
            c, path = self.resolve(st, fr.index, rv[1])
            v = self.read(st, c, path)
            return self.discriminant(v, self.place_type(fr, rv[1]))
        if k == 'bin':
            a = self.eval_operand(st, fr, rv[2]); b = self.eval_operand(st, fr, rv[3])
            ty = self.operand_type(fr, rv[2])
            if ty == '?':
                ty = self.operand_type(fr, rv[3])
            return self.binop(rv[1], a, b, ty)
        if k == 'un':
            a = self.eval_operand(st, fr, rv[2])
            if rv[1] == 'Not':
                if z3.is_bool(a):
                    return z3.Not(a)
                return ~a
            if rv[1] == 'Neg':
                return -a
            if rv[1] == 'PtrMetadata':
                return self.M.len_of(self, st, a)
        if k == 'len':
            c, path = self.resolve(st, fr.index, rv[1])
            return self.M.len_of(self, st, self.read(st, c, path))
        if k == 'cast':
            v = self.eval_operand(st, fr, rv[1])
            kind = rv[3]
            if kind == 'IntToInt':
                src_ty = self.operand_type(fr, rv[1])
                dw = int_width(rv[2])
                if z3.is_bool(v):
                    v = z3.If(v, z3.BitVecVal(1, 8), z3.BitVecVal(0, 8)); src_ty = 'u8'
                if not z3.is_bv(v):
                    # discriminant-like opaque -> treat as 64-bit
                    raise MirError(f'IntToInt on {vrepr(v)}')
                sw = v.size()
                if dw is None:
                    raise MirError('cast to ' + rv[2])
                if dw == sw:
                    return v
                if dw < sw:
                    return z3.Extract(dw - 1, 0, v)
                return z3.SignExt(dw - sw, v) if is_signed(src_ty) else z3.ZeroExt(dw - sw, v)
            if kind.startswith('PointerCoercion') or kind in ('PtrToPtr', 'Transmute', 'Subtype', 'FnPtrToPtr'):
                return v
            raise MirError('cast kind ' + kind)
        if k == 'repeat':
            v = self.eval_operand(st, fr, rv[1])
            m = re.match(r'^(?:const )?(\d+)(?:_usize)?$', rv[2])
            if not m:
                raise MirError('repeat count ' + rv[2])
            return SeqV([copy_val(v) for _ in range(int(m.group(1)))], 'array')
        if k == 'agg':
            _, akind, name, ops, names = rv
            vals = [self.eval_operand(st, fr, o) for o in ops]
            if akind == 'tuple':
                return Agg('tuple', None, None, vals)
            if akind == 'array':
                return SeqV(vals, 'array')
            if akind == 'closure':
                return Agg('closure', name, None, vals)
            return self.make_adt(name, vals, names, dest_ty, fr.func.crate)
        raise MirError(f'rvalue {rv}')

    def make_adt(self, name, vals, names, dest_ty=None, crate=None):
        """ADT aggregate. name is 'path::Type::<..>::Variant' (enum), 'path::Type' (struct) -- decided with the catalogue."""
        segs = split_path(name)
        segs_ng = [strip_generics(s) for s in segs]
        segs_ng = [s for s in segs_ng if s != '']
        last = segs_ng[-1]
        cat = self.prog.cat
        # trimmed paths: MIR prints unambiguous items by their last segment only ("_5 = ProcessedCommit;"),
        # so the destination type decides first
        if dest_ty and dest_ty[0] not in '&*([{':
            dn = simple_type_name(dest_ty)
            if dn and dn not in ('Option', 'Result') and re.match(r'^[A-Z]\w*$', dn):
                try:
                    dvs = cat.variants(dn, strip_generics(dest_ty), crate)
                except MirError:
                    dvs = None
                if dvs and last in dvs and (len(segs_ng) == 1 or segs_ng[-2] == dn):
                    qual = self.qualify([x for x in strip_generics(dest_ty).split('::') if x], crate)
                    if names:
                        order = cat.variant_fields(dn, last, strip_generics(dest_ty), crate)
                        if order and set(order) == set(names):
                            vals = [vals[names.index(n)] for n in order]
                            names = order
                    return Agg('enum', qual, qual + '::' + last, vals, names)
        # enum variant? (Type::Variant) -- check the catalogue for the second-to-last segment
        if len(segs_ng) >= 2:
            en = segs_ng[-2]
            vs = None
            try:
                vs = cat.variants(en, '::'.join(segs_ng[:-1]), crate)
            except MirError:
                vs = None
            if vs and last in vs:
                if names:
                    order = cat.variant_fields(en, last, '::'.join(segs_ng[:-1]), crate)
                    if order and set(order) == set(names):
                        vals = [vals[names.index(n)] for n in order]
                        names = order
                return Agg('enum', self.qualify(segs_ng[:-1], crate), name_variant(segs_ng), vals, names)
        # struct
        if names:
            order = None
            try:
                order = cat.fields(last, '::'.join(segs_ng), crate)
            except MirError:
                order = None
            if order and set(order) == set(names):
                vals = [vals[names.index(n)] for n in order]
                names = order
            elif order is None:
                # unknown struct with named fields: keep the printed order (MIR prints declaration order)
                pass
            else:
                raise MirError(f'struct {name}: fields {names} vs catalogue {order}')
            return Agg('struct', '::'.join(segs_ng), None, vals, names)
        return Agg('struct', '::'.join(segs_ng), None, vals, None)

    def qualify(self, segs, crate):
        from .mirparse import CRATES
        if not crate or not segs:
            return '::'.join(segs)
        ext = {CRATES[k]['extern'] for k in CRATES}
        if segs[0] in ext or segs[0] in ('std', 'core', 'alloc', 'openmls', 'nostr', 'openmls_traits', 'openmls_basic_credential', 'tls_codec'):
            return '::'.join(segs)
        if len(segs) == 1 and segs[0] in ('Option', 'Result', 'ControlFlow', 'Ordering'):
            return segs[0]
        return CRATES[crate]['extern'] + '::' + '::'.join(segs)

    def discriminant(self, v, ty_hint=None):
        if isinstance(v, Agg):
            if v.kind != 'enum':
                raise MirError(f'discriminant of {v!r}')
            en = last_seg(v.ty)
            vn = last_seg(v.variant)
            if en == 'Ordering' and vn in ('Less', 'Equal', 'Greater'):
                return z3.BitVecVal({'Less': -1, 'Equal': 0, 'Greater': 1}[vn], 64)
            dv = self.prog.cat.discr_values(en, v.ty)
            if not dv or vn not in dv:
                raise MirError(f'unknown variant discriminant: {v.ty}::{vn}')
            return z3.BitVecVal(dv[vn], 64)
        if isinstance(v, Opaque):
            return v.discriminant()
        if isinstance(v, Ref):
            raise MirError('discriminant of reference')
        if z3.is_expr(v):
            if z3.is_bool(v):
                return z3.If(v, z3.BitVecVal(1, 64), z3.BitVecVal(0, 64))
            return z3.ZeroExt(64 - v.size(), v) if v.size() < 64 else v
        d = self.M.discriminant_of_model(self, v, ty_hint)
        if d is not None:
            return d
        raise MirError(f'discriminant of {vrepr(v)}')

    def binop(self, op, a, b, ty):
        if op in ('Eq', 'Ne'):
            e = self.M.val_eq(self, a, b)
            return e if op == 'Eq' else z3.Not(e)
        if not (z3.is_bv(a) and z3.is_bv(b)):
            if z3.is_bool(a) and z3.is_bool(b):
                if op == 'BitAnd':
                    return z3.And(a, b)
                if op == 'BitOr':
                    return z3.Or(a, b)
                if op == 'BitXor':
                    return z3.Xor(a, b)
            if op in ('Lt', 'Le', 'Gt', 'Ge') and z3.is_bool(a) and z3.is_bool(b):
                ai, bi = z3.If(a, z3.BitVecVal(1, 8), z3.BitVecVal(0, 8)), z3.If(b, z3.BitVecVal(1, 8), z3.BitVecVal(0, 8))
                return self.binop(op, ai, bi, 'u8')
            raise MirError(f'binop {op} on {vrepr(a)}, {vrepr(b)}')
        sg = is_signed(ty)
        if op == 'Lt':
            return a < b if sg else z3.ULT(a, b)
        if op == 'Le':
            return a <= b if sg else z3.ULE(a, b)
        if op == 'Gt':
            return a > b if sg else z3.UGT(a, b)
        if op == 'Ge':
            return a >= b if sg else z3.UGE(a, b)
        if op in ('Add', 'AddUnchecked'):
            return a + b
        if op in ('Sub', 'SubUnchecked'):
            return a - b
        if op in ('Mul', 'MulUnchecked'):
            return a * b
        if op == 'BitAnd':
            return a & b
        if op == 'BitOr':
            return a | b
        if op == 'BitXor':
            return a ^ b
        if op in ('Shl', 'ShlUnchecked'):
            return a << _fit(b, a.size())
        if op in ('Shr', 'ShrUnchecked'):
            return (a >> _fit(b, a.size())) if sg else z3.LShR(a, _fit(b, a.size()))
        if op == 'Div':
            return a / b if sg else z3.UDiv(a, b)
        if op == 'Rem':
            return z3.SRem(a, b) if sg else z3.URem(a, b)
        if op in ('AddWithOverflow', 'SubWithOverflow', 'MulWithOverflow'):
            w = a.size()
            if op == 'AddWithOverflow':
                r = a + b
                ov = z3.Not(z3.BVAddNoOverflow(a, b, sg)) if not sg else z3.Or(z3.Not(z3.BVAddNoOverflow(a, b, True)), z3.Not(z3.BVAddNoUnderflow(a, b)))
            elif op == 'SubWithOverflow':
                r = a - b
                ov = z3.Not(z3.BVSubNoUnderflow(a, b, sg)) if not sg else z3.Or(z3.Not(z3.BVSubNoOverflow(a, b)), z3.Not(z3.BVSubNoUnderflow(a, b, True)))
            else:
                r = a * b
                ov = z3.Not(z3.BVMulNoOverflow(a, b, sg)) if not sg else z3.Or(z3.Not(z3.BVMulNoOverflow(a, b, True)), z3.Not(z3.BVMulNoUnderflow(a, b)))
            return Agg('tuple', None, None, [r, ov])
        raise MirError('binop ' + op)

    # ------------------------------------------------------------------ execution
    def explore(self, func, args, st=None, setup=None):
        """Run `func` on `args` from state `st`; returns a list of Path."""
        st = st or State()
        self.results = []
        outs = self.run_function(st, func, args, toplevel=True)
        paths = list(self.results)
        for s2, ret in outs:
            if isinstance(ret, Panic):
                paths.append(Path(s2, 'panic', None, ret.msg))
            elif s2.cut:
                paths.append(Path(s2, 'cut', ret, s2.cut))
            else:
                paths.append(Path(s2, 'return', ret))
        self.paths_done += len(paths)
        return paths

    def run_function(self, st, func, args, toplevel=False):
        """push a frame, run, pop. returns [(state, retval | Panic)]"""
        if len(st.frames) > self.max_depth + 40:
            raise MirError('frame depth exceeded in ' + func.name)
        self.functions_encoded.add(f'{func.crate}::{func.name}')
        fr = Frame(func, len(st.frames))
        if len(args) != func.nargs:
            # closures called through Fn traits get (env, (args...)) -- the models untuple; anything else is an error
            raise MirError(f'{func.name}: {len(args)} args for {func.nargs} params')
        for (p, ty), a in zip(func.params, args):
            fr.cells[p] = a
        st.frames.append(fr)
        depth = len(st.frames) - 1
        outs = self.run_blocks(st, depth, 'bb0', {})
        res = []
        for s2, ret in outs:
            if func.kind == 'const':
                ret = self.relocate(s2, ret, depth, {})
            s2.frames.pop()
            res.append((s2, ret))
        return res

    def relocate(self, st, v, depth, memo):
        """const/promoted bodies return references to their own locals: those locals are static data -> move to temps"""
        if isinstance(v, Ref):
            if v.loc[0] == 'L' and v.loc[1] == depth:
                key = v.loc[2]
                if key not in memo:
                    memo[key] = None
                    inner = self.relocate(st, st.frames[depth].cells.get(key), depth, memo)
                    memo[key] = st.temp(inner)
                return Ref(memo[key], v.path, v.mut)
            return v
        if isinstance(v, Agg):
            return Agg(v.kind, v.ty, v.variant, [self.relocate(st, x, depth, memo) for x in v.fields], v.names)
        if isinstance(v, SeqV):
            return SeqV([self.relocate(st, x, depth, memo) for x in v.items], v.ty)
        return v

    def run_blocks(self, st, depth, bb, visits):
        results = []
        work = [(st, bb, visits)]
        # iterative on the single-successor case; recursion only at forks
        while work:
            st, bb, visits = work.pop()
            while True:
                fr = st.frames[depth]
                func = fr.func
                n = visits.get(bb, 0) + 1
                if n > self.loop_bound:
                    st.cut = f'loop bound {self.loop_bound} exceeded at {func.short}:{bb}'
                    results.append((st, None)); break
                visits = dict(visits); visits[bb] = n
                stmts = func.blocks.get(bb)
                if stmts is None:
                    raise MirError(f'{func.name}: no block {bb}')
                for s in stmts[:-1]:
                    self.exec_stmt(st, fr, s)
                t = stmts[-1].rstrip(';')
                nxt = self.exec_term(st, depth, fr, t, visits)
                # nxt: ('goto', bb) | ('done', [(st, ret)]) | ('fork', [(st, bb)])
                if nxt[0] == 'goto':
                    bb = nxt[1]; continue
                if nxt[0] == 'done':
                    results.extend(nxt[1]); break
                if nxt[0] == 'fork':
                    succ = nxt[1]
                    if not succ:
                        break
                    if len(succ) > 1:
                        self.fork_count = getattr(self, 'fork_count', 0) + len(succ) - 1
                        if self.fork_count > self.max_paths:
                            raise MirError(f'path budget {self.max_paths} exceeded in {func.name}')
                    for s2, b2 in succ[1:]:
                        work.append((s2, b2, visits))
                    st, bb = succ[0]
                    continue
                raise MirError('term result')
        return results

    def exec_stmt(self, st, fr, s):
        s = s.rstrip(';')
        if s.startswith(SKIP_STMT):
            return
        # assignment: place = rvalue  (split at the first ' = ' at depth 0)
        d = 0
        cut = None
        for i, c in enumerate(s):
            if c in '([{<':
                d += 1
            elif c in ')]}>' and not (c == '>' and s[i - 1] in '-='):
                d -= 1
            elif d == 0 and s.startswith(' = ', i):
                cut = i; break
        if cut is None:
            m = re.match(r'^discriminant\((.*)\) = (\d+)$', s)
            if m:
                raise MirError('SetDiscriminant not supported: ' + s)
            if s.startswith('Deinit('):
                return
            raise MirError('stmt? ' + s[:200])
        lhs, rhs = s[:cut], s[cut + 3:]
        place = parse_place(lhs)
        rv = parse_rvalue(rhs)
        dest_ty = self.place_type(fr, place)
        val = self.eval_rvalue(st, fr, rv, dest_ty)
        c, path = self.resolve(st, fr.index, place)
        self.write(st, c, path, val)

    def exec_term(self, st, depth, fr, t, visits):
        if t == 'return':
            ret = fr.cells.get('_0')
            if ret is None:
                ret = Agg('tuple', '()', None, [])
            return ('done', [(st, ret)])
        if t in ('unreachable',):
            return ('fork', [])
        if t.startswith('resume') or t.startswith('unwind') or t.startswith('abort') or t.startswith('terminate'):
            return ('fork', [])
        m = re.match(r'^goto -> (bb\d+)$', t)
        if m:
            return ('goto', m.group(1))
        m = re.match(r'^drop\((.*?)\) -> \[return: (bb\d+)', t)
        if m:
            return ('goto', m.group(2))
        m = re.match(r'^(?:falseEdge|falseUnwind) -> \[real: (bb\d+)', t)
        if m:
            return ('goto', m.group(1))
        if t.startswith('switchInt('):
            e = _match_paren(t, t.index('('))
            op = parse_operand(t[t.index('(') + 1:e])
            v = self.eval_operand(st, fr, op)
            m = re.match(r'^ -> \[(.*)\]$', t[e + 1:])
            targets = [x.strip() for x in m.group(1).split(',')]
            succ = []
            taken = []
            cands = []
            for tg in targets:
                kk, dest = [y.strip() for y in tg.split(':')]
                if kk == 'otherwise':
                    cond = z3.And([z3.Not(c) for c in taken]) if taken else z3.BoolVal(True)
                else:
                    lit = int(kk)
                    if z3.is_bool(v):
                        cond = v if lit != 0 else z3.Not(v)
                    elif z3.is_bv(v):
                        cond = (v == z3.BitVecVal(lit, v.size()))
                    else:
                        raise MirError(f'switchInt on {vrepr(v)}')
                    taken.append(cond)
                cands.append((cond, dest))
            feas = []
            for cond, dest in cands:
                if self.feasible(st, cond):
                    feas.append((cond, dest, self._wit))
            for i, (cond, dest, wit) in enumerate(feas):
                s2 = st if i == len(feas) - 1 else st.clone()
                cs = z3.simplify(cond)
                if not z3.is_true(cs):
                    s2.pc.append(cs)
                s2.model = wit
                succ.append((s2, dest))
            succ.reverse()
            return ('fork', succ)
        if t.startswith('assert('):
            e = _match_paren(t, 6)
            inner = t[7:e]
            parts = split_top(inner)
            cs = parts[0].strip()
            neg = cs.startswith('!')
            v = self.eval_operand(st, fr, parse_operand(cs[1:] if neg else cs))
            if not z3.is_bool(v):
                raise MirError('assert on non-bool')
            ok = z3.Not(v) if neg else v
            m = re.search(r'\[success: (bb\d+)', t[e:])
            dest = m.group(1)
            msg = parts[1].strip() if len(parts) > 1 else 'assert'
            succ = []
            bad = self.feasible(st, z3.Not(ok)); wbad = self._wit
            good = self.feasible(st, ok); wgood = self._wit
            if bad:
                s2 = st.clone() if good else st
                s2.pc.append(z3.simplify(z3.Not(ok))); s2.model = wbad
                self.emit_panic(s2, depth, f'{fr.func.short}: {msg}')
            if good:
                st.pc.append(z3.simplify(ok)); st.model = wgood
                succ.append((st, dest))
            return ('fork', succ)
        # call:  <place> = <callee>(<args>) -> [return: bbN, unwind ...]   |   ... -> unwind continue (diverges)
        m = re.match(r'^(.*?) = (.*) -> (\[return: (bb\d+).*\]|unwind .*)$', t, re.S)
        if m:
            dest_s, callexpr, tail, nxt = m.group(1), m.group(2), m.group(3), m.group(4)
            # callee(args): find '(' matching the last ')'
            d = 0
            for i in range(len(callexpr) - 1, -1, -1):
                if callexpr[i] == ')':
                    d += 1
                elif callexpr[i] == '(':
                    d -= 1
                    if d == 0:
                        break
            fn, argstr = callexpr[:i].strip(), callexpr[i + 1:-1]
            argops = [parse_operand(x) for x in split_top(argstr)]
            args = [self.eval_operand(st, fr, o) for o in argops]
            place = parse_place(dest_s)
            call = Call()
            call.fn, call.args, call.argops, call.frame, call.func = fn, args, argops, fr, fr.func
            call.dest_ty = self.place_type(fr, place)
            call.site = f'{fr.func.short}'
            outs = self.do_call(st, call)
            succ = []
            for s2, val in outs:
                if isinstance(val, Panic):
                    self.emit_panic(s2, depth, val.msg)
                    continue
                if nxt is None:
                    continue      # diverging call returned? (models return nothing for those)
                c, path = self.resolve(s2, depth, place)
                self.write(s2, c, path, val)
                succ.append((s2, nxt))
            return ('fork', succ)
        raise MirError('terminator? ' + t[:200])

    def emit_panic(self, st, depth, msg):
        """a panic unwinds through every frame: record the path at top level."""
        # drop frames above: the Path keeps the state for inspection
        self.results.append(Path(st, 'panic', None, msg))

    # ------------------------------------------------------------------ calls
    def do_call(self, st, call):
        fn = call.fn
        for rx, h in self.user_models:
            if rx.search(fn):
                r = h(self, st, call)
                if r is not None:
                    return r
        for rx, h in self.std_models:
            if rx.search(fn):
                r = h(self, st, call)
                if r is not None:
                    return r
        # closure / fn-pointer call through an operand: "move _5(args)"
        target = self.prog.resolve_call(fn, call.func.crate)
        if isinstance(target, tuple):
            target = None if not self.wants_inline(fn, None) else self._ambiguous(fn, target)
        if target is not None and self.wants_inline(fn, target):
            if len(st.frames) >= self.max_depth:
                raise MirError(f'inline depth {self.max_depth} exceeded at {fn}')
            return self.run_function(st, target, call.args)
        if target is not None and not isinstance(target, tuple):
            # a repository helper that is handed a model container by mutable reference (e.g. a loop extracted into a private function) cannot be summarised:
            # it is executed from its own MIR, like the code it was extracted from
            if self._mut_container_arg(st, call.args) and len(st.frames) < self.max_depth:
                return self.run_function(st, target, call.args)
            self.repo_callees[target.name] = target          # a repository function left uninterpreted here: obligations may want to explore it on its own
        return self.uninterpreted(st, call)

    def _mut_container_arg(self, st, args):
        """a model container passed by mutable reference, or a model struct that HOLDS model containers passed by any reference (`&self` of a store)"""
        def holds(v, depth=0):
            if isinstance(v, (SeqV, MapV, IterV)):
                return True
            if isinstance(v, Agg) and depth < 3:
                return any(holds(x, depth + 1) for x in v.fields)
            return False
        for a in args:
            if isinstance(a, Ref):
                try:
                    tgt = self.read(st, a.loc, a.path)
                except (MirError, IndexError):
                    continue
                if isinstance(tgt, (SeqV, MapV, IterV)) and a.mut:
                    return True
                if isinstance(tgt, Agg) and tgt.kind == 'struct' and holds(tgt):
                    return True
        return False

    def _ambiguous(self, fn, target):
        raise MirError(f'ambiguous callee {fn}: ' + ', '.join(f.name for f in target[1])[:300])

    def wants_inline(self, fn, target):
        short = self.M.method_name(fn)
        if short in self.inline or fn in self.inline:
            return True
        if target is not None and self.inline_pred and self.inline_pred(fn, target):
            return True
        return False

    def arg_uid(self, st, a):
        if isinstance(a, Ref):
            try:
                v = self.read(st, a.loc, a.path)
            except MirError:
                return str(a.loc)
            return self.arg_uid(st, v)
        if isinstance(a, Opaque):
            return a.uid + ('!' + str(len(a.over)) if a.over else '')
        if z3.is_expr(a):
            return str(z3.simplify(a))[:80]
        return vrepr(a)[:80]

    def snapshot_args(self, st, args):
        """event arguments are recorded by value (references are followed at call time)"""
        out = []
        for a in args:
            if isinstance(a, Ref):
                try:
                    out.append(copy_val(self.M.deref_all(self, st, a)))
                except (MirError, IndexError):
                    out.append(a)
            else:
                out.append(copy_val(a))
        return out

    def uninterpreted(self, st, call, short=None, pure=None):
        fn = call.fn
        short = short or short_name(fn)
        is_pure = pure if pure is not None else (short in self.pure or fn in self.pure)
        visible = not any(s in fn for s in self.silent) and not self.M.is_noise(fn)
        if is_pure:
            uid = f'{short}({",".join(self.arg_uid(st, a) for a in call.args)})'
        else:
            uid = st.fresh(short)
        ret = fresh_of_type(uid, call.dest_ty)
        self.M.constrain_new(self, st, ret, call.dest_ty)
        if isinstance(ret, Opaque) and any(rx.search(fn) for rx in self.assume_ok) and self.M.enum_kind(ret) == 'Result':
            self.assume(st, ret.discriminant() == 0)
        if visible:
            st.trace.append(Event(fn, short, self.snapshot_args(st, call.args), ret, len(st.frames), call.site))
            self.unknown_callees[short] = self.unknown_callees.get(short, 0) + 1
        if not is_pure and not self.M.is_noise(fn):
            for a in call.args:
                if isinstance(a, Ref) and a.mut:
                    try:
                        tgt = self.read(st, a.loc, a.path)
                    except (MirError, IndexError):
                        tgt = None
                    if isinstance(tgt, (SeqV, MapV, IterV)):
                        raise MirError(f'unmodelled call {short} receives &mut to a model container ({type(tgt).__name__}): add a model')
        if self.havoc_mut and not is_pure:
            for a in call.args:
                if isinstance(a, Opaque) and a.ty.startswith('&mut') and not a.over:
                    # opaque &mut T passed by copy/reborrow: the pointee may change
                    cur = st.heap.get(a.uid)
                    base = ('*' + a.uid)
                    st.heap[a.uid] = Opaque(st.fresh(base + "'"), deref_type(a.ty))
                    continue
                if isinstance(a, Ref) and a.mut:
                    try:
                        cur = self.read(st, a.loc, a.path)
                    except MirError:
                        continue
                    if isinstance(cur, Opaque):
                        nv = Opaque(st.fresh(cur.uid.split("'")[0] + "'"), cur.ty)
                        self.write(st, a.loc, a.path, nv)
        return [(st, ret)]


# ----------------------------------------------------------------------------------------------------------

def short_name(fn):
    """'<S as GroupStorage>::save_group' -> 'save_group'; 'MlsGroup::merge_staged_commit::<P>' -> 'MlsGroup::merge_staged_commit'"""
    f = fn.strip()
    if f.startswith('<'):
        e = _match_paren(f, 0)
        inner = f[1:e]
        rest = strip_generics(f[e + 1:]).strip(':')
        ty = inner.split(' as ')[0]
        tn = simple_type_name(ty)
        tr = simple_type_name(inner.split(' as ')[1]) if ' as ' in inner else None
        if tn in ('S', 'Storage', 'T'):
            return rest
        return f'{tn}::{rest}' if not tr else f'<{tn} as {tr}>::{rest}'
    segs = [strip_generics(s) for s in split_path(f)]
    segs = [s for s in segs if s]
    out = []
    for s in segs:
        m = re.match(r'^<impl (.*)>$', s)
        if m:
            h = m.group(1)
            if ' for ' in h:
                h = h.split(' for ', 1)[1]
            out = [simple_type_name(h)]
        else:
            out.append(s)
    return '::'.join(out[-2:]) if len(out) >= 2 and re.match(r'^[A-Z]', out[-2]) else out[-1]


def name_variant(segs):
    return '::'.join(segs)


def deref_type(ty):
    ty = ty.strip()
    m = re.match(r"^&(?:'\w+ )?(?:mut )?(.*)$", ty, re.S)
    if m:
        return m.group(1)
    m = re.match(r'^\*(?:const|mut) (.*)$', ty, re.S)
    if m:
        return m.group(1)
    m = re.match(r'^(?:std::boxed::)?Box<(.*)>$', ty, re.S)
    if m:
        return split_top(m.group(1))[0]
    return '?'


def elem_type(ty):
    ty = ty.strip()
    m = re.match(r'^\[(.*?)(?:; \d+)?\]$', ty, re.S)
    if m:
        return m.group(1)
    m = re.match(r'^(?:std::vec::)?Vec<(.*)>$', ty, re.S)
    if m:
        return split_top(m.group(1))[0]
    return '?'


def _fit(b, w):
    if b.size() == w:
        return b
    if b.size() < w:
        return z3.ZeroExt(w - b.size(), b)
    return z3.Extract(w - 1, 0, b)


def _unescape(s):
    try:
        return bytes(s, 'utf-8').decode('unicode_escape')
    except Exception:
        return s


def _unescape_bytes(s):
    out = bytearray()
    i = 0
    while i < len(s):
        if s[i] == '\\' and i + 1 < len(s):
            c = s[i + 1]
            if c == 'x':
                out.append(int(s[i + 2:i + 4], 16)); i += 4; continue
            mp = {'n': 10, 'r': 13, 't': 9, '0': 0, '\\': 92, '"': 34, "'": 39}
            out.append(mp.get(c, ord(c))); i += 2; continue
        out.append(ord(s[i]) & 0xff); i += 1
    return bytes(out)
