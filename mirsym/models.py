"""Exact models of the core/alloc/std items the anchored functions use for control flow and data structure access.
This file is the trusted base of engine E3/E3c; every model is listed in the evidence by its pattern.
"""
import re
import z3

from .mirparse import MirError, split_top, strip_generics, simple_type_name, last_seg
from .values import (Ref, Agg, Opaque, Tok, SeqV, MapV, IterV, FnItem, StrV, int_width, is_signed, fresh_of_type,
                     copy_val, vrepr)

NOISE = ('tracing::', 'tracing_core::', 'LevelFilter', 'DefaultCallsite', 'Interest::', 'Arguments::', 'core::fmt', 'FieldSet::',
         'Metadata::', 'fmt::rt::', 'Callsite', 'must_use', 'ValueSet', 'std::fmt::', 'Formatter')


def method_name(fn):
    """'<T as Trait>::name::<G>' / 'a::b::name::<G>' -> 'name'"""
    f = fn.strip()
    # drop a trailing turbofish
    if f.endswith('>'):
        d = 0
        for i in range(len(f) - 1, -1, -1):
            if f[i] == '>' and not (i > 0 and f[i - 1] in '-='):
                d += 1
            elif f[i] == '<':
                d -= 1
                if d == 0:
                    if f[:i].endswith('::'):
                        f = f[:i - 2]
                    break
    m = re.search(r'(\w+)$', f)
    return m.group(1) if m else f


def is_noise(fn):
    return any(n in fn for n in NOISE)


UNIT = lambda: Agg('tuple', '()', None, [])


def OK(v, ty='Result'):
    return Agg('enum', ty, ty + '::Ok', [v])


def ERR(v, ty='Result'):
    return Agg('enum', ty, ty + '::Err', [v])


def SOME(v):
    return Agg('enum', 'Option', 'Option::Some', [v])


def NONE():
    return Agg('enum', 'Option', 'Option::None', [])


def variant_of(v):
    return last_seg(v.variant) if isinstance(v, Agg) and v.variant else None


def deref_all(eng, st, v):
    """follow references to the value"""
    n = 0
    while isinstance(v, Ref):
        v = eng.read(st, v.loc, v.path)
        n += 1
        if n > 8:
            raise MirError('reference chain too long')
    return v


def generic_args(fn, which=0):
    """type arguments of the leading type in 'std::option::Option::<T>::method' / 'Result::<T, E>::m'"""
    m = re.search(r'::<(.*)>::\w+(?:::<.*>)?$', fn, re.S)
    if not m:
        return []
    # take the first balanced <...> after the type name
    i = fn.find('::<')
    if i < 0:
        return []
    d = 0
    j = i + 2
    for k in range(j, len(fn)):
        if fn[k] == '<':
            d += 1
        elif fn[k] == '>' and fn[k - 1] not in '-=':
            d -= 1
            if d == 0:
                return split_top(fn[j + 1:k])
    return []


def enum_kind(v, ty_hint=''):
    """'Option' / 'Result' / None for a value, from its Agg type or the opaque's type text"""
    if isinstance(v, Agg) and v.kind == 'enum':
        return last_seg(v.ty)
    t = (v.ty if isinstance(v, Opaque) else ty_hint) or ''
    t = t.strip()
    if re.match(r'^(std::|core::)?option::Option<', t) or t.startswith('Option<'):
        return 'Option'
    if re.match(r'^(std::|core::)?result::Result<', t) or t.startswith('Result<'):
        return 'Result'
    return None


def type_args(ty):
    ty = ty.strip()
    i = ty.find('<')
    if i < 0:
        return []
    from .engine import _match_paren
    e = _match_paren(ty, i)
    return split_top(ty[i + 1:e])


def split_enum(eng, st, v, kind, names=None):
    """Case-split an Option/Result value. Returns [(state, variant_name, payload)] with feasible states (forks)."""
    v = deref_all(eng, st, v) if isinstance(v, Ref) else v
    if isinstance(v, Agg):
        vn = variant_of(v)
        return [(st, vn, v.fields[0] if v.fields else None)]
    if not isinstance(v, Opaque):
        raise MirError(f'split_enum on {vrepr(v)}')
    d = v.discriminant()
    targs = type_args(v.ty)
    if kind == 'Option':
        cases = [('None', 0, None), ('Some', 1, targs[0] if targs else '?')]
    else:
        cases = [('Ok', 0, targs[0] if targs else '?'), ('Err', 1, targs[1] if len(targs) > 1 else '?')]
    out = []
    feas = []
    for n, k, t in cases:
        if eng.feasible(st, d == z3.BitVecVal(k, 64)):
            feas.append((n, k, t, eng._wit))
    for i, (n, k, t, wit) in enumerate(feas):
        s2 = st if i == len(feas) - 1 else st.clone()
        c = z3.simplify(d == z3.BitVecVal(k, 64))
        if not z3.is_true(c):
            s2.pc.append(c)
        s2.model = wit
        payload = v.child(n, 0, t) if t is not None else None
        out.append((s2, n, payload))
    return out


def call_closure(eng, st, clo, args):
    """invoke a closure / fn item value with positional args; returns [(state, value)]"""
    clo = deref_all(eng, st, clo) if isinstance(clo, Ref) else clo
    if isinstance(clo, Agg) and clo.kind == 'closure':
        f = eng.prog.closure_of(clo.ty)
        if f is None:
            raise MirError('closure body not found: ' + str(clo.ty)[:120])
        env_ty = f.params[0][1]
        if env_ty.startswith('&'):
            env = Ref(st.temp(clo), (), mut='mut' in env_ty[:6])
        else:
            env = clo
        if f.nargs == len(args) + 1:
            return eng.run_function(st, f, [env] + list(args))
        raise MirError(f'closure arity {f.nargs} vs {len(args)}')
    if isinstance(clo, FnItem):
        # tuple-struct / enum-variant constructor or a plain function used as a value
        path = clo.path
        # std functions with a model (e.g. Vec::new passed to map_or_else)
        from .engine import Call
        c = Call()
        c.fn, c.args, c.argops, c.frame, c.func, c.dest_ty, c.site = path, list(args), [], None, st.frames[-1].func if st.frames else None, '?', 'fn-item'
        for rx, h in list(eng.user_models) + list(eng.std_models):
            if rx.search(path):
                r = h(eng, st, c)
                if r is not None:
                    return r
        tgt = eng.prog.resolve_call(path, 'mdk-core')
        if tgt is not None and not isinstance(tgt, tuple) and eng.wants_inline(path, tgt):
            return eng.run_function(st, tgt, list(args))
        segs = [s for s in strip_generics(path).split('::') if s]
        if len(segs) >= 2:
            try:
                vs = eng.prog.cat.variants(segs[-2], '::'.join(segs[:-1]))
            except MirError:
                vs = None
            if vs and segs[-1] in vs:
                return [(st, Agg('enum', '::'.join(segs[:-1]), '::'.join(segs), list(args)))]
        r = Opaque(st.fresh(segs[-1]), '?')
        from .engine import Event
        st.trace.append(Event(path, segs[-1], eng.snapshot_args(st, args), r, len(st.frames)))
        return [(st, r)]
    raise MirError(f'call of non-closure {vrepr(clo)}')


# ----------------------------------------------------------------------------------------------------------
# equality / ordering on values

def val_eq(eng, a, b):
    if isinstance(a, Ref) or isinstance(b, Ref):
        raise MirError('val_eq on references (deref first)')
    if z3.is_expr(a) and z3.is_expr(b):
        if a.sort() != b.sort():
            raise MirError(f'eq sorts {a.sort()} {b.sort()}')
        return a == b
    if isinstance(a, Tok) and isinstance(b, Tok):
        return z3.BoolVal(a == b)
    if isinstance(a, StrV) and isinstance(b, StrV):
        if a.text is not None and b.text is not None:
            return z3.BoolVal(a.text == b.text)
        return _sym_eq(a, b)
    if isinstance(a, Agg) and isinstance(b, Agg):
        if a.kind == 'enum' or b.kind == 'enum':
            if variant_of(a) != variant_of(b):
                return z3.BoolVal(False)
        if len(a.fields) != len(b.fields):
            return z3.BoolVal(False)
        return z3.And([val_eq(eng, x, y) for x, y in zip(a.fields, b.fields)]) if a.fields else z3.BoolVal(True)
    if isinstance(a, SeqV) and isinstance(b, SeqV):
        if len(a.items) != len(b.items):
            return z3.BoolVal(False)
        return z3.And([val_eq(eng, x, y) for x, y in zip(a.items, b.items)]) if a.items else z3.BoolVal(True)
    if isinstance(a, Opaque) and isinstance(b, Opaque) and a.uid == b.uid and not a.over and not b.over:
        return z3.BoolVal(True)
    if isinstance(a, Agg) and a.kind == 'enum' and isinstance(b, Opaque):
        return _enum_opaque_eq(eng, a, b)
    if isinstance(b, Agg) and b.kind == 'enum' and isinstance(a, Opaque):
        return _enum_opaque_eq(eng, b, a)
    return _sym_eq(a, b)


def _enum_opaque_eq(eng, a, o):
    d = eng.discriminant(a)
    c = [o.discriminant() == d]
    vn = variant_of(a)
    for i, f in enumerate(a.fields):
        ty = str(f.sort()) if z3.is_expr(f) else '?'
        if z3.is_bv(f):
            ty = f'u{f.size()}'
        elif z3.is_bool(f):
            ty = 'bool'
        c.append(val_eq(eng, f, o.child(vn, i, ty)))
    return z3.And(c)


def _ident(v):
    if isinstance(v, Opaque):
        return v.uid
    if isinstance(v, StrV):
        return 'str:' + (repr(v.text) if v.text is not None else str(v.sym))
    return vrepr(v)


def _sym_eq(a, b):
    x, y = sorted([_ident(a), _ident(b)])
    if x == y:
        return z3.BoolVal(True)
    return z3.Bool(f'eq({x},{y})')


def len_of(eng, st, v):
    v = deref_all(eng, st, v)
    if isinstance(v, SeqV):
        return z3.BitVecVal(len(v.items), 64)
    if isinstance(v, MapV):
        return z3.BitVecVal(len(v.entries), 64)
    if isinstance(v, Agg) and v.kind in ('tuple',):
        return z3.BitVecVal(len(v.fields), 64)
    if isinstance(v, StrV) and v.text is not None:
        return z3.BitVecVal(len(v.text.encode()), 64)
    if isinstance(v, Opaque):
        return z3.BitVec(v.uid.lstrip('*') + '#len', 64)
    if isinstance(v, StrV):
        return z3.BitVec(f'len({v.sym})', 64)
    raise MirError(f'len of {vrepr(v)}')


def field_of_model(eng, st, v, idx, ty):
    raise MirError(f'field {idx} of model value {vrepr(v)}')


def discriminant_of_model(eng, v, ty_hint):
    return None


def named_const(eng, st, fr, c):
    """named constants / statics used as operands"""
    cs = strip_generics(c)
    # unit enum variants of catalogued enums (e.g. tracing::Level::WARN are consts, not variants)
    segs = [s for s in cs.split('::') if s]
    if len(segs) >= 2:
        try:
            vs = eng.prog.cat.variants(segs[-2], '::'.join(segs[:-1]))
        except MirError:
            vs = None
        if vs and segs[-1] in vs:
            return Agg('enum', '::'.join(segs[:-1]), '::'.join(segs), [])
    for cr in eng.prog.crates.values():
        ic = cr.inline_consts.get(segs[-1])
        if ic is not None:
            return eng.const_value(st, fr, ic[1])
    # constants defined in the loaded crates: evaluate their MIR body
    cands = [(cr, f) for cr in eng.prog.crates.values() for f in cr.by_last.get(segs[-1], []) if f.kind == 'const']
    if len(cands) > 1:
        cands = [(cr, f) for cr, f in cands if len(segs) == 1 or all(s in f.name for s in segs[-2:-1]) or cr.name.replace('-', '_') in segs]
    for cr, f in cands[:1]:                 # the MIR dump prints constant items without their module path: a unique last segment identifies the item
        try:
            return eng.eval_const_body(st, f)
        except MirError:
            return None
    return None


def constrain_new(eng, st, v, ty):
    """domain constraints for a fresh symbolic value of a known enum type: discriminant within range."""
    if not isinstance(v, Opaque):
        return
    t = (ty or '').strip()
    k = enum_kind(v)
    n = None
    if k in ('Option', 'Result'):
        n = 2
    else:
        nm = simple_type_name(t) if t and t[0] not in '([{&*' else None
        if nm and re.match(r'^[A-Z]\w*$', nm or ''):
            try:
                dv = eng.prog.cat.discr_values(nm, strip_generics(t))
            except MirError:
                dv = None
            if dv:
                vals = sorted(set(dv.values()))
                if vals == list(range(len(vals))):
                    n = len(vals)
                else:
                    eng.assume(st, z3.Or([v.discriminant() == z3.BitVecVal(x, 64) for x in vals]))
                    return
    if n:
        eng.assume(st, z3.ULT(v.discriminant(), z3.BitVecVal(n, 64)))


# ----------------------------------------------------------------------------------------------------------
# model handlers: h(eng, st, call) -> [(state, value)] or None (not applicable)

def m_noise(eng, st, call):
    return [(st, fresh_of_type(st.fresh('noise'), call.dest_ty))]


def m_level_le(eng, st, call):
    return [(st, z3.BoolVal(False))]


def m_format(eng, st, call):
    return [(st, StrV(sym=st.fresh('fmt')))]


def m_try_branch(eng, st, call):
    v = call.args[0]
    m = re.match(r'^<(.*) as Try>::branch$', call.fn, re.S)
    ty = m.group(1) if m else ''
    kind = enum_kind(v, ty) or ('Option' if 'Option<' in ty else 'Result')
    out = []
    for s2, vn, payload in split_enum(eng, st, v, kind):
        if vn in ('Ok', 'Some'):
            out.append((s2, Agg('enum', 'ControlFlow', 'ControlFlow::Continue', [payload])))
        else:
            # residual: Result<Infallible, E> / Option<Infallible> -- carry the error payload
            resid = Agg('enum', kind, kind + ('::Err' if kind == 'Result' else '::None'), [payload] if kind == 'Result' else [])
            out.append((s2, Agg('enum', 'ControlFlow', 'ControlFlow::Break', [resid])))
    return out


def m_from_residual(eng, st, call):
    r = call.args[0]
    m = re.match(r'^<(.*?) as FromResidual<(.*)>>::from_residual$', call.fn, re.S)
    dst = m.group(1) if m else ''
    if isinstance(r, Agg) and variant_of(r) == 'None':
        return [(st, NONE())]
    if isinstance(r, Agg) and variant_of(r) == 'Err':
        e = r.fields[0]
        dargs = type_args(dst)
        sargs = type_args(m.group(2)) if m else []
        if len(dargs) > 1 and len(sargs) > 1 and dargs[1].strip() == sargs[1].strip():
            return [(st, ERR(e))]
        # From::from conversion of the error: pure function of the source error
        conv = Opaque(f'from({_ident(e)})', dargs[1] if len(dargs) > 1 else '?', attrs={'src': e})
        if len(dargs) > 1 and dst.startswith(('std::result::Result<', 'Result<')) and 'Option' not in dst[:20]:
            return [(st, ERR(conv))]
        if 'Option<' in dst[:30]:
            return [(st, NONE())]
        return [(st, ERR(conv))]
    raise MirError(f'from_residual of {vrepr(r)}')


def m_opt_is(eng, st, call):
    v = deref_all(eng, st, call.args[0])
    name = method_name(call.fn)
    kind = enum_kind(v, call.fn) or ('Option' if 'Option' in call.fn else 'Result')
    if isinstance(v, Agg):
        vn = variant_of(v)
        val = {'is_none': vn == 'None', 'is_some': vn == 'Some', 'is_ok': vn == 'Ok', 'is_err': vn == 'Err'}[name]
        return [(st, z3.BoolVal(val))]
    d = v.discriminant()
    val = {'is_none': d == 0, 'is_some': d == 1, 'is_ok': d == 0, 'is_err': d == 1}[name]
    return [(st, val)]


def m_ok_or(eng, st, call):
    out = []
    for s2, vn, p in split_enum(eng, st, call.args[0], 'Option'):
        out.append((s2, OK(p) if vn == 'Some' else ERR(call.args[1])))
    return out


def m_ok_or_else(eng, st, call):
    out = []
    for s2, vn, p in split_enum(eng, st, call.args[0], 'Option'):
        if vn == 'Some':
            out.append((s2, OK(p)))
        else:
            for s3, r in call_closure(eng, s2, call.args[1], []):
                out.append((s3, ERR(r)))
    return out


def m_map_err(eng, st, call):
    out = []
    for s2, vn, p in split_enum(eng, st, call.args[0], 'Result'):
        if vn == 'Ok':
            out.append((s2, OK(p)))
        else:
            for s3, r in call_closure(eng, s2, call.args[1], [p]):
                out.append((s3, ERR(r)))
    return out


def outer_kind(fn, name=None):
    """'Option' / 'Result': the type the method is called on (the OUTER type: Result<Option<T>, E>::map is a Result method)"""
    m = re.search(r'(Option|Result)::<', fn)
    if m:
        return m.group(1)
    head = fn.split('::' + name)[0] if name else fn
    return 'Option' if 'Option' in head else 'Result'


def m_map(eng, st, call):
    kind = outer_kind(call.fn, 'map')
    out = []
    for s2, vn, p in split_enum(eng, st, call.args[0], kind):
        if vn in ('Some', 'Ok'):
            for s3, r in call_closure(eng, s2, call.args[1], [p]):
                out.append((s3, SOME(r) if kind == 'Option' else OK(r)))
        else:
            out.append((s2, NONE() if kind == 'Option' else ERR(p)))
    return out


def m_and_then(eng, st, call):
    kind = outer_kind(call.fn, 'and_then')
    out = []
    for s2, vn, p in split_enum(eng, st, call.args[0], kind):
        if vn in ('Some', 'Ok'):
            out.extend(call_closure(eng, s2, call.args[1], [p]))
        else:
            out.append((s2, NONE() if kind == 'Option' else ERR(p)))
    return out


def m_unwrap(eng, st, call):
    from .engine import Panic
    name = method_name(call.fn)
    kind = 'Option' if 'Option' in call.fn.split('::' + name)[0] else 'Result'
    out = []
    for s2, vn, p in split_enum(eng, st, call.args[0], kind):
        if vn in ('Some', 'Ok'):
            out.append((s2, p))
        else:
            out.append((s2, Panic(f'{name}() on {vn} in {call.site}')))
    return out


def m_unwrap_or(eng, st, call):
    name = method_name(call.fn)
    mk = re.search(r'(Option|Result)::<', call.fn)          # the outer type (a Result<Option<..>, E> is a Result)
    kind = mk.group(1) if mk else ('Option' if 'Option' in call.fn.split('::' + name)[0] else 'Result')
    out = []
    for s2, vn, p in split_enum(eng, st, call.args[0], kind):
        if vn in ('Some', 'Ok'):
            out.append((s2, p))
        elif name == 'unwrap_or':
            out.append((s2, call.args[1]))
        elif name == 'unwrap_or_default':
            try:
                out.append((s2, default_of(call.dest_ty)))
            except MirError:
                tgt = eng.prog.resolve_call(f'<{call.dest_ty} as Default>::default', call.func.crate)
                if tgt is None or isinstance(tgt, tuple):
                    raise
                out.extend(eng.run_function(s2, tgt, []))
        else:
            out.extend(call_closure(eng, s2, call.args[1], [] if kind == 'Option' else [p]))
    return out


def default_of(ty):
    w = int_width(ty or '')
    if w:
        return z3.BitVecVal(0, w)
    if ty == 'bool':
        return z3.BoolVal(False)
    t = simple_type_name(ty or '?')
    if t in ('Vec', 'VecDeque'):
        return SeqV([], ty)
    if t in ('HashMap', 'BTreeMap'):
        return MapV([], ty)
    if t in ('HashSet', 'BTreeSet'):
        return MapV([], ty, True)
    if t == 'String' or (ty or '').strip() in ('&str', "&'static str", 'str'):
        return StrV(text='')
    raise MirError('default of ' + str(ty))


def m_result_ok(eng, st, call):
    out = []
    for s2, vn, p in split_enum(eng, st, call.args[0], 'Result'):
        out.append((s2, SOME(p) if vn == 'Ok' else NONE()))
    return out


def m_result_err(eng, st, call):
    out = []
    for s2, vn, p in split_enum(eng, st, call.args[0], 'Result'):
        out.append((s2, SOME(p) if vn == 'Err' else NONE()))
    return out


def m_as_ref(eng, st, call):
    """Option<T>::as_ref / as_mut: Option<&T> pointing into the original"""
    r = call.args[0]
    if not isinstance(r, Ref):
        return None
    v = eng.read(st, r.loc, r.path)
    kind = 'Option' if 'Option' in call.fn else 'Result'
    if isinstance(v, Ref):
        r = v
        v = eng.read(st, r.loc, r.path)
    if isinstance(v, Agg):
        vn = variant_of(v)
        if vn == 'None':
            return [(st, NONE())]
        inner = Ref(r.loc, r.path + (('v', vn), ('f', 0, '?')), r.mut)
        return [(st, {'Some': SOME, 'Ok': OK, 'Err': ERR}[vn](inner))]
    if isinstance(v, Opaque):
        targs = type_args(v.ty)
        out = []
        for s2, vn, p in split_enum(eng, st, v, kind):
            if vn == 'None':
                out.append((s2, NONE())); continue
            t = (targs[1] if len(targs) > 1 else '?') if vn == 'Err' else (targs[0] if targs else '?')
            inner = Ref(r.loc, r.path + (('v', vn), ('f', 0, t)), r.mut)
            out.append((s2, {'Some': SOME, 'Ok': OK, 'Err': ERR}[vn](inner)))
        return out
    return None


def m_cloned(eng, st, call):
    """Option<&T>::cloned / copied"""
    out = []
    for s2, vn, p in split_enum(eng, st, call.args[0], 'Option'):
        if vn == 'Some':
            out.append((s2, SOME(copy_val(deref_all(eng, s2, p)))))
        else:
            out.append((s2, NONE()))
    return out


def m_clone(eng, st, call):
    v = call.args[0]
    if isinstance(v, Ref):
        return [(st, copy_val(deref_all(eng, st, v)))]
    return [(st, copy_val(v))]


def m_deref(eng, st, call):
    a = call.args[0]
    if isinstance(a, Ref):
        v = eng.read(st, a.loc, a.path)
        if isinstance(v, Ref):
            return [(st, v)]          # guard / Box / Arc modelled as the reference itself
        if isinstance(v, Opaque) and re.search(r'(MutexGuard|RwLockReadGuard|RwLockWriteGuard|Box<|Arc<|Rc<|Ref<|RefMut<)', v.ty):
            return [(st, Ref(eng.heap_loc(st, v, '?'), ()))]
        return [(st, a)]              # String -> str, Vec -> [T], Secret<T> -> T: same storage
    return None


def m_identity(eng, st, call):
    return [(st, call.args[0])]


def deep_deref(eng, st, v, depth=0):
    """value with the references nested inside aggregates replaced by what they point to (Option<&str> == Option<&str> compares the strings)"""
    v = deref_all(eng, st, v)
    if isinstance(v, Agg) and depth < 4 and any(isinstance(f, Ref) or isinstance(f, Agg) for f in v.fields):
        return Agg(v.kind, v.ty, v.variant, [deep_deref(eng, st, f, depth + 1) if isinstance(f, (Ref, Agg)) else f for f in v.fields], v.names)
    return v


def m_eq(eng, st, call):
    a, b = deep_deref(eng, st, call.args[0]), deep_deref(eng, st, call.args[1])
    e = val_eq(eng, a, b)
    if method_name(call.fn) == 'ne':
        e = z3.Not(e)
    return [(st, e)]


def m_lock(eng, st, call):
    """Mutex::lock -> Ok(guard), RwLock::read/write (parking_lot) -> guard; guard = reference to the protected value"""
    a = call.args[0]
    if not isinstance(a, Ref):
        return None
    v = eng.read(st, a.loc, a.path)
    if isinstance(v, Agg):
        g = Ref(a.loc, a.path + (('f', 0, '?'),), True)
    elif isinstance(v, Opaque):
        g = Ref(eng.heap_loc(st, Opaque(v.uid + '.locked', '&?'), '?'), (), True)
    else:
        return None
    if 'std::sync' in call.fn or call.dest_ty.startswith(('std::result::Result', 'Result<')):
        return [(st, OK(g))]
    return [(st, g)]


def m_mutex_new(eng, st, call):
    return [(st, Agg('struct', 'Mutex', None, [call.args[0]]))]


def m_some_ctor(eng, st, call):
    return None


def m_into(eng, st, call):
    m = re.match(r'^<(.*) as (?:Into|From)<(.*)>>::(into|from)$', call.fn, re.S)
    if m and m.group(1).strip() == m.group(2).strip():
        return [(st, call.args[0])]
    return None


def m_panic(eng, st, call):
    from .engine import Panic
    return [(st, Panic(f'{method_name(call.fn)} in {call.site}'))]


def m_cmp_int(eng, st, call):
    """Ord::cmp / PartialOrd on scalar newtypes -> Ordering (as i8 bit-vector: Less=-1, Equal=0, Greater=1)"""
    a, b = deref_all(eng, st, call.args[0]), deref_all(eng, st, call.args[1])
    a, b = scalar_of(a), scalar_of(b)
    if a is None or b is None:
        return None
    m = re.match(r'^<(.*?) as ', call.fn)
    sg = is_signed(m.group(1)) if m else False
    lt = (a < b) if sg else z3.ULT(a, b)
    name = method_name(call.fn)
    if name == 'cmp':
        return [(st, z3.If(lt, z3.BitVecVal(-1, 8), z3.If(a == b, z3.BitVecVal(0, 8), z3.BitVecVal(1, 8))))]
    if name == 'partial_cmp':
        return [(st, SOME(z3.If(lt, z3.BitVecVal(-1, 8), z3.If(a == b, z3.BitVecVal(0, 8), z3.BitVecVal(1, 8)))))]
    le = (a <= b) if sg else z3.ULE(a, b)
    return [(st, {'lt': lt, 'le': le, 'gt': z3.Not(le), 'ge': z3.Not(lt)}[name])]


def scalar_of(v):
    if z3.is_bv(v):
        return v
    if isinstance(v, Agg) and len(v.fields) == 1:
        return scalar_of(v.fields[0])
    return None


def m_saturating(eng, st, call):
    a, b = call.args
    name = method_name(call.fn)
    ty = call.dest_ty
    sg = is_signed(ty)
    if sg:
        return None
    w = a.size()
    if name == 'saturating_sub':
        return [(st, z3.If(z3.ULT(a, b), z3.BitVecVal(0, w), a - b))]
    if name == 'saturating_add':
        return [(st, z3.If(z3.BVAddNoOverflow(a, b, False), a + b, z3.BitVecVal(-1, w)))]
    if name == 'min':
        return [(st, z3.If(z3.ULT(a, b), a, b))]
    if name == 'max':
        return [(st, z3.If(z3.ULT(a, b), b, a))]
    if name == 'wrapping_add':
        return [(st, a + b)]
    if name == 'wrapping_sub':
        return [(st, a - b)]
    return None


def m_checked(eng, st, call):
    a, b = call.args
    name = method_name(call.fn)
    if is_signed(type_args(call.dest_ty)[0] if type_args(call.dest_ty) else 'u64'):
        return None
    if name == 'checked_add':
        ok, r = z3.BVAddNoOverflow(a, b, False), a + b
    elif name == 'checked_sub':
        ok, r = z3.UGE(a, b), a - b
    elif name == 'checked_mul':
        ok, r = z3.BVMulNoOverflow(a, b, False), a * b
    else:
        return None
    out = []
    f_ok, f_bad = eng.feasible(st, ok), eng.feasible(st, z3.Not(ok))
    if f_ok and f_bad:
        s2 = st.clone()
        eng.assume(s2, z3.Not(ok)); out.append((s2, NONE()))
        eng.assume(st, ok); out.append((st, SOME(r)))
    elif f_ok:
        out.append((st, SOME(r)))
    elif f_bad:
        out.append((st, NONE()))
    return out


R = re.compile

STD_MODELS = [
    (R(r'<tracing::Level as PartialOrd<LevelFilter>>::le'), m_level_le),
    (R(r'^(alloc::fmt::|std::fmt::)?format$'), m_format),
    (R(r' as Try>::branch$'), m_try_branch),
    (R(r'FromResidual<.*>>::from_residual$'), m_from_residual),
    (R(r'(Option|Result)::<.*>::(is_none|is_some|is_ok|is_err)$'), m_opt_is),
    (R(r'Option::<.*>::ok_or::<'), m_ok_or),
    (R(r'Option::<.*>::ok_or_else::<'), m_ok_or_else),
    (R(r'Result::<.*>::map_err::<'), m_map_err),
    (R(r'(Option|Result)::<.*>::map::<'), m_map),
    (R(r'(Option|Result)::<.*>::and_then::<'), m_and_then),
    (R(r'(Option|Result)::<.*>::(unwrap|expect)$'), m_unwrap),
    (R(r'(Option|Result)::<.*>::(unwrap_or|unwrap_or_default|unwrap_or_else)(::<.*>)?$'), m_unwrap_or),
    (R(r'Result::<.*>::ok$'), m_result_ok),
    (R(r'Result::<.*>::err$'), m_result_err),
    (R(r'(Option|Result)::<.*>::(as_ref|as_mut)$'), m_as_ref),
    (R(r'Option::<&.*>::(cloned|copied)$'), m_cloned),
    (R(r' as (std::clone::)?Clone>::clone$'), m_clone),
    (R(r' as (std::ops::)?(Deref|DerefMut)>::(deref|deref_mut)$'), m_deref),
    (R(r'^(std::vec::|alloc::vec::)?Vec::<.*>::(as_slice|as_mut_slice)$'), m_deref),
    (R(r'^(std::string::|alloc::string::)?String::(as_str|as_mut_str)$'), m_deref),
    (R(r' as (std::convert::)?AsRef<.*>>::as_ref$'), m_deref),
    (R(r' as (std::borrow::)?Borrow<.*>>::borrow$'), m_deref),
    (R(r' as (std::cmp::)?PartialEq(<.*>)?>::(eq|ne)$'), m_eq),
    (R(r'(std::sync::Mutex|Mutex)::<.*>::lock$'), m_lock),
    (R(r'RwLock.*::(read|write)$'), m_lock),
    (R(r'Mutex::<.*>::new$'), m_mutex_new),
    (R(r' as (Into|From)<.*>>::(into|from)$'), m_into),
    (R(r'^(core|std)::panicking::|::panic_fmt|::unreachable_display|::panic_cold|begin_panic|::panic_explicit|::unwrap_failed|::expect_failed'), m_panic),
    (R(r'^<(u8|u16|u32|u64|usize|i8|i16|i32|i64|isize|nostr::Timestamp|Timestamp|nostr::types::time::Timestamp) as (std::cmp::|core::cmp::)?(Ord|PartialOrd)(<[^>]*>)?>::(cmp|partial_cmp|lt|le|gt|ge)$'), m_cmp_int),
    (R(r'num::<impl (u8|u16|u32|u64|usize)>::(saturating_sub|saturating_add|wrapping_add|wrapping_sub)$'), m_saturating),
    (R(r'^(std::cmp::|core::cmp::)?(min|max)::<(u8|u16|u32|u64|usize)>$'), m_saturating),
    (R(r'num::<impl (u8|u16|u32|u64|usize)>::(checked_add|checked_sub|checked_mul)$'), m_checked),
]


def m_or_else(eng, st, call):
    out = []
    for s2, vn, p in split_enum(eng, st, call.args[0], 'Option'):
        if vn == 'Some':
            out.append((s2, SOME(p)))
        else:
            out.extend(call_closure(eng, s2, call.args[1], []))
    return out


def m_or(eng, st, call):
    out = []
    for s2, vn, p in split_enum(eng, st, call.args[0], 'Option'):
        out.append((s2, SOME(p) if vn == 'Some' else call.args[1]))
    return out


def m_flatten(eng, st, call):
    out = []
    for s2, vn, p in split_enum(eng, st, call.args[0], 'Option'):
        if vn == 'Some':
            for s3, vn2, p2 in split_enum(eng, s2, p, 'Option'):
                out.append((s3, SOME(p2) if vn2 == 'Some' else NONE()))
        else:
            out.append((s2, NONE()))
    return out


def m_is_some_and(eng, st, call):
    kind = 'Option' if 'Option' in call.fn.split('::is_')[0] else 'Result'
    name = method_name(call.fn)
    out = []
    for s2, vn, p in split_enum(eng, st, call.args[0], kind):
        hit = (vn == 'Some' and name == 'is_some_and') or (vn == 'Ok' and name == 'is_ok_and') or (vn == 'Err' and name == 'is_err_and')
        if hit:
            out.extend(call_closure(eng, s2, call.args[1], [p]))
        else:
            out.append((s2, z3.BoolVal(name == 'is_none_or' and vn == 'None')))
    return out


SEQ_BOUND = [2]


def materialise_seq(eng, st, v, elem_ty=None):
    """An opaque Vec/slice that gets iterated becomes a bounded symbolic sequence: fork on its length 0..SEQ_BOUND
    (stated bound; the length is assumed <= SEQ_BOUND). Returns [(state, SeqV)]."""
    if isinstance(v, SeqV):
        return [(st, v)]
    if isinstance(v, MapV):
        return [(st, SeqV([Agg('tuple', None, None, [k, x]) if not v.is_set else k for k, x in v.entries]))]
    if not isinstance(v, Opaque):
        raise MirError(f'iteration over {vrepr(v)}')
    n = z3.BitVec(v.uid.lstrip('*') + '#len', 64)
    from .engine import elem_type
    et = elem_ty or elem_type(v.ty)
    out = []
    feas = []
    for k in range(SEQ_BOUND[0] + 1):
        if eng.feasible(st, n == k):
            feas.append((k, eng._wit))
    for i, (k, wit) in enumerate(feas):
        s2 = st if i == len(feas) - 1 else st.clone()
        eng.assume(s2, n == k)
        s2.model = wit
        out.append((s2, SeqV([fresh_of_type(f'{v.uid}[{j}]', et) for j in range(k)], v.ty)))
    if 'seq_bound' not in st.notes:
        pass
    return out


def base_ref(eng, st, a):
    """follow reference-to-reference chains to the reference that points at the container itself"""
    while True:
        v = eng.read(st, a.loc, a.path)
        if isinstance(v, Ref):
            a = v
        else:
            return a, v


def m_into_iter(eng, st, call):
    a = call.args[0]
    by_ref = isinstance(a, Ref)
    if by_ref:
        a, v = base_ref(eng, st, a)
    else:
        v = a
    if isinstance(v, IterV) or (isinstance(v, Agg) and v.ty == 'RangeInclusive'):
        return [(st, v)]
    if isinstance(v, SeqV) and by_ref:
        return [(st, IterV([Ref(a.loc, a.path + (('i', k),), a.mut) for k in range(len(v.items))], 'ref'))]
    if isinstance(v, MapV) and by_ref:
        if v.is_set:
            return [(st, IterV([Ref(a.loc, a.path + (('k', k),), False) for k in range(len(v.entries))], 'ref'))]
        return [(st, IterV([Agg('tuple', None, None, [Ref(a.loc, a.path + (('k', k),), False), Ref(a.loc, a.path + (('e', k),), a.mut)])
                            for k in range(len(v.entries))], 'ref'))]
    if isinstance(v, SeqV):
        return [(st, IterV(v.items))]
    if isinstance(v, MapV):
        return [(st, IterV([k if v.is_set else Agg('tuple', None, None, [k, x]) for k, x in v.entries]))]
    if isinstance(v, Opaque):
        out = []
        for s2, seq in materialise_seq(eng, st, v):
            out.append((s2, IterV(seq.items)))
        return out
    return None


def iter_of(eng, st, a):
    """the IterV behind `&mut iter` (materialising an opaque iterator as a bounded symbolic sequence).
    returns [(state, ref_to_iter)] -- the IterV must be re-read from each state"""
    if not isinstance(a, Ref):
        raise MirError('iterator argument is not a reference')
    a, it = base_ref(eng, st, a)
    if isinstance(it, IterV):
        return [(st, a)]
    if isinstance(it, Opaque):
        outs = []
        for s2, seq in materialise_seq(eng, st, it):
            eng.write(s2, a.loc, a.path, IterV(seq.items))
            outs.append((s2, a))
        return outs
    raise MirError(f'not an iterator: {vrepr(it)}')


def m_iter_next(eng, st, call):
    if not isinstance(call.args[0], Ref):
        return None
    out = []
    for s2, a in iter_of(eng, st, call.args[0]):
        it = eng.read(s2, a.loc, a.path)
        out.append((s2, _next(it)))
    return out


def _next(it):
    if it.pos < len(it.items):
        x = it.items[it.pos]
        it.pos += 1
        return SOME(x)
    return NONE()


def bool_cases(eng, st, b):
    """[(state, python bool)] -- fork on a symbolic boolean"""
    b = z3.simplify(b) if z3.is_expr(b) else z3.BoolVal(bool(b))
    if z3.is_true(b):
        return [(st, True)]
    if z3.is_false(b):
        return [(st, False)]
    t = eng.feasible(st, b); wt = eng._wit
    f = eng.feasible(st, z3.Not(b)); wf = eng._wit
    out = []
    if t and f:
        s2 = st.clone()
        s2.pc.append(z3.simplify(z3.Not(b))); s2.model = wf
        st.pc.append(b); st.model = wt
        return [(st, True), (s2, False)]
    if t:
        return [(st, True)]
    if f:
        return [(st, False)]
    return []


def _drive(eng, st, a_iter, clo, step):
    """generic short-circuit driver over an iterator: step(state, element, closure_result) -> ('stop', value) | ('go',)
    returns [(state, value | None)] where None = exhausted"""
    results = []
    work = [st]
    while work:
        s = work.pop()
        while True:
            it = eng.read(s, a_iter.loc, a_iter.path)
            if it.pos >= len(it.items):
                results.append((s, None)); break
            x = it.items[it.pos]
            it.pos += 1
            outs = call_closure(eng, s, clo, [x]) if clo is not None else [(s, x)]
            nxt = None
            for s2, r in outs:
                for s3, dec in step(s2, x, r):
                    if dec[0] == 'stop':
                        results.append((s3, dec[1]))
                    elif nxt is None:
                        nxt = s3
                    else:
                        work.append(s3)
            if nxt is None:
                break
            s = nxt
    return results


def m_iter_all_any(eng, st, call):
    name = method_name(call.fn)
    clo = call.args[1]
    out = []
    for s0, a in iter_of(eng, st, call.args[0]):
        def step(s, x, r):
            res = []
            for s2, b in bool_cases(eng, s, r):
                if name == 'all':
                    res.append((s2, ('go',) if b else ('stop', z3.BoolVal(False))))
                else:
                    res.append((s2, ('stop', z3.BoolVal(True)) if b else ('go',)))
            return res
        for s2, v in _drive(eng, s0, a, clo, step):
            out.append((s2, v if v is not None else z3.BoolVal(name == 'all')))
    return out


def _key_parts(eng, st, v):
    """sort key as a list of unsigned bit-vectors (scalars, newtypes such as Timestamp / EventId, tuples of those: lexicographic)"""
    v = deref_all(eng, st, v)
    if z3.is_bv(v):
        return [v]
    if isinstance(v, Agg) and v.kind == 'tuple':
        out = []
        for f in v.fields:
            out += _key_parts(eng, st, f)
        return out
    if isinstance(v, Agg) and len(v.fields) == 1:
        return _key_parts(eng, st, v.fields[0])
    raise MirError(f'min/max_by_key: key {vrepr(v)} is not an unsigned scalar or a tuple of them')


def _lex_lt(a, b):
    """a < b lexicographically (unsigned)"""
    cl, eq = [], []
    for x, y in zip(a, b):
        cl.append(z3.And(*eq, z3.ULT(x, y)) if eq else z3.ULT(x, y))
        eq.append(x == y)
    return z3.Or(cl) if cl else z3.BoolVal(False)


def m_iter_min_max_by_key(eng, st, call):
    """Iterator::min_by_key / max_by_key over a concrete-shape sequence with symbolic unsigned keys: fork on which element wins
    (min: the FIRST minimum, max: the LAST maximum, as std documents)"""
    name = method_name(call.fn)
    clo = call.args[1]
    out = []
    for s0, it in _iter_value(eng, st, call.args[0]):
        items = it.items[it.pos:]
        if not items:
            out.append((s0, NONE())); continue
        states = [(s0, [])]
        for x in items:
            nxt = []
            for s, keys in states:
                for s2, r in call_closure(eng, s, clo, [Ref(s.temp(x), ())]):
                    nxt.append((s2, keys + [_key_parts(eng, s2, r)]))
            states = nxt
        for s, keys in states:
            lt = lambda i, j: _lex_lt(keys[i], keys[j])
            le = lambda i, j: z3.Not(_lex_lt(keys[j], keys[i]))
            for i, x in enumerate(items):
                if name == 'min_by_key':
                    cond = z3.And([lt(i, j) for j in range(i)] + [le(i, j) for j in range(i + 1, len(items))])
                else:
                    cond = z3.And([le(j, i) for j in range(i)] + [lt(j, i) for j in range(i + 1, len(items))])
                if eng.feasible(s, cond):
                    s2 = s.clone()
                    eng.assume(s2, cond)
                    out.append((s2, SOME(x)))
    return out


def m_iter_min_max_by(eng, st, call):
    """Iterator::max_by / min_by with a comparator closure: std's fold -- max_by keeps the later element unless the earlier compares Greater,
    min_by keeps the earlier element unless it compares Greater"""
    name = method_name(call.fn)
    clo = call.args[1]
    out = []
    for s0, it in _iter_value(eng, st, call.args[0]):
        items = it.items[it.pos:]
        if not items:
            out.append((s0, NONE())); continue
        states = [(s0, items[0])]
        for y in items[1:]:
            nxt = []
            for s, x in states:
                for s2, r in call_closure(eng, s, clo, [Ref(s.temp(x), ()), Ref(s.temp(y), ())]):
                    o = ordering_val(r)
                    for s3, gt in bool_cases(eng, s2, o == 1):
                        if name == 'max_by':
                            nxt.append((s3, x if gt else y))
                        else:
                            nxt.append((s3, y if gt else x))
            states = nxt
        for s, x in states:
            out.append((s, SOME(x)))
    return out


def m_iter_find(eng, st, call):
    """find / position / find_map"""
    name = method_name(call.fn)
    clo = call.args[1]
    out = []
    for s0, a in iter_of(eng, st, call.args[0]):
        start = eng.read(s0, a.loc, a.path).pos

        def step(s, x, r):
            res = []
            if name == 'find_map':
                for s2, vn, p in split_enum(eng, s, r, 'Option'):
                    res.append((s2, ('stop', SOME(p)) if vn == 'Some' else ('go',)))
                return res
            for s2, b in bool_cases(eng, s, r):
                if b:
                    if name == 'find':
                        res.append((s2, ('stop', SOME(x))))
                    else:
                        k = eng.read(s2, a.loc, a.path).pos - 1 - start
                        res.append((s2, ('stop', SOME(z3.BitVecVal(k, 64)))))
                else:
                    res.append((s2, ('go',)))
            return res
        if name == 'find':
            # closure of find takes &Item: pass a reference to a temp holding the element
            def clo_call(s, x):
                return call_closure(eng, s, clo, [Ref(s.temp(x), ())])
            res = _drive_custom(eng, s0, a, clo_call, step)
        else:
            res = _drive(eng, s0, a, clo, step)
        for s2, v in res:
            out.append((s2, v if v is not None else NONE()))
    return out


def _drive_custom(eng, st, a_iter, clo_call, step):
    results = []
    work = [st]
    while work:
        s = work.pop()
        while True:
            it = eng.read(s, a_iter.loc, a_iter.path)
            if it.pos >= len(it.items):
                results.append((s, None)); break
            x = it.items[it.pos]
            it.pos += 1
            nxt = None
            for s2, r in clo_call(s, x):
                for s3, dec in step(s2, x, r):
                    if dec[0] == 'stop':
                        results.append((s3, dec[1]))
                    elif nxt is None:
                        nxt = s3
                    else:
                        work.append(s3)
            if nxt is None:
                break
            s = nxt
    return results


def m_str_is_empty(eng, st, call):
    """str::is_empty / String::is_empty: the same fact as `== ""` (and as `len() == 0`)"""
    v = deref_all(eng, st, call.args[0])
    if isinstance(v, StrV) and v.text is not None:
        return [(st, z3.BoolVal(len(v.text) == 0))]
    if isinstance(v, (SeqV, MapV)):
        return None
    try:
        b = val_eq(eng, v, StrV(text=''))
        n = len_of(eng, st, v)
    except MirError:
        return None
    if z3.is_expr(b) and z3.is_expr(n):
        eng.assume(st, b == (n == 0))
    return [(st, b)]


STD_MODELS += [
    (R(r'^(core::)?str::<impl str>::is_empty$|^(std::string::|alloc::string::)?String::is_empty$'), m_str_is_empty),
]

def m_map_or(eng, st, call):
    """Option/Result::map_or(default, f) and map_or_else(default_fn, f)"""
    name = method_name(call.fn)
    kind = outer_kind(call.fn, name)
    out = []
    for s2, vn, p in split_enum(eng, st, call.args[0], kind):
        if vn in ('Some', 'Ok'):
            out.extend(call_closure(eng, s2, call.args[2], [p]))
        elif name == 'map_or':
            out.append((s2, call.args[1]))
        else:
            out.extend(call_closure(eng, s2, call.args[1], [] if kind == 'Option' else [p]))
    return out


def m_result_or_else(eng, st, call):
    out = []
    for s2, vn, p in split_enum(eng, st, call.args[0], 'Result'):
        if vn == 'Ok':
            out.append((s2, OK(p)))
        else:
            out.extend(call_closure(eng, s2, call.args[1], [p]))
    return out


def m_opt_filter(eng, st, call):
    out = []
    for s2, vn, p in split_enum(eng, st, call.args[0], 'Option'):
        if vn != 'Some':
            out.append((s2, NONE())); continue
        for s3, r in call_closure(eng, s2, call.args[1], [Ref(s2.temp(p), ())]):
            for s4, b in bool_cases(eng, s3, r):
                out.append((s4, SOME(p) if b else NONE()))
    return out


def m_bool_then(eng, st, call):
    name = method_name(call.fn)
    out = []
    for s2, b in bool_cases(eng, st, call.args[0]):
        if not b:
            out.append((s2, NONE()))
        elif name == 'then_some':
            out.append((s2, SOME(call.args[1])))
        else:
            for s3, r in call_closure(eng, s2, call.args[1], []):
                out.append((s3, SOME(r)))
    return out


def m_transpose(eng, st, call):
    """Option<Result<T, E>>::transpose -> Result<Option<T>, E>"""
    out = []
    for s2, vn, p in split_enum(eng, st, call.args[0], 'Option'):
        if vn != 'Some':
            out.append((s2, OK(NONE()))); continue
        for s3, vn2, q in split_enum(eng, s2, p, 'Result'):
            out.append((s3, OK(SOME(q)) if vn2 == 'Ok' else ERR(q)))
    return out


STD_MODELS += [
    (R(r'(Option|Result)::<.*>::(map_or|map_or_else)::<'), m_map_or),
    (R(r'Result::<.*>::or_else::<'), m_result_or_else),
    (R(r'Option::<.*>::filter::<'), m_opt_filter),
    (R(r'bool>?::(then|then_some)::<'), m_bool_then),
    (R(r'Option::<(std::result::|core::result::)?Result<.*>::transpose$'), m_transpose),
]

STD_MODELS += [
    (R(r'Option::<.*>::or_else::<'), m_or_else),
    (R(r'Option::<.*>::or$'), m_or),
    (R(r'Option::<.*>::flatten$'), m_flatten),
    (R(r'(Option|Result)::<.*>::(is_some_and|is_ok_and|is_err_and|is_none_or)::<'), m_is_some_and),
    (R(r' as (std::iter::)?IntoIterator>::into_iter$'), m_into_iter),
    (R(r' as (std::iter::)?Iterator>::next$'), m_iter_next),
    (R(r' as (std::iter::)?Iterator>::(all|any)::<'), m_iter_all_any),
    (R(r' as (std::iter::)?Iterator>::(find|position|find_map)::<'), m_iter_find),
]


# ---- RangeInclusive<u64> and Rev<...> ------------------------------------------------------------------------

class _Range:
    pass


def m_range_new(eng, st, call):
    a, b = call.args
    return [(st, Agg('struct', 'RangeInclusive', None, [a, b, z3.BoolVal(False), z3.BoolVal(False)]))]   # start, end, exhausted, reversed


def m_range_rev(eng, st, call):
    r = call.args[0]
    if isinstance(r, Agg) and r.ty == 'RangeInclusive':
        return [(st, Agg('struct', 'RangeInclusive', None, [r.fields[0], r.fields[1], r.fields[2], z3.Not(r.fields[3])]))]
    return None


def m_range_next(eng, st, call):
    a = call.args[0]
    if not isinstance(a, Ref):
        return None
    a, r = base_ref(eng, st, a)
    if not (isinstance(r, Agg) and r.ty == 'RangeInclusive'):
        return None
    lo, hi, ex, rev = r.fields
    rev = z3.is_true(z3.simplify(rev))
    out = []
    empty = z3.Or(ex, z3.UGT(lo, hi))
    for s2, is_empty in bool_cases(eng, st, empty):
        if is_empty:
            out.append((s2, NONE())); continue
        for s3, last in bool_cases(eng, s2, lo == hi):
            r3 = eng.read(s3, a.loc, a.path)
            lo3, hi3 = r3.fields[0], r3.fields[1]
            if last:
                r3.fields[2] = z3.BoolVal(True)
                out.append((s3, SOME(hi3 if rev else lo3)))
            elif rev:
                r3.fields[1] = hi3 - 1
                out.append((s3, SOME(hi3)))
            else:
                r3.fields[0] = lo3 + 1
                out.append((s3, SOME(lo3)))
    return out


STD_MODELS[:0] = [
    (R(r'^(core::hint::|std::hint::)?must_use::<'), m_identity),
    (R(r'RangeInclusive::<(u8|u16|u32|u64|usize)>::new$'), m_range_new),
    (R(r'^<(std::ops::|core::ops::)?RangeInclusive<\w+> as Iterator>::rev$'), m_range_rev),
    (R(r'^<(Rev<)?(std::ops::|core::ops::)?RangeInclusive<\w+>>? as Iterator>::next$'), m_range_next),
]


# ---- iterator adaptors (eager over IterV) ---------------------------------------------------------------------

def _iter_value(eng, st, a):
    """iterator passed by value (adaptors take self): IterV, or an opaque iterator materialised as bounded sequence"""
    if isinstance(a, Ref):
        out = []
        for s2, r in iter_of(eng, st, a):
            out.append((s2, eng.read(s2, r.loc, r.path)))
        return out
    if isinstance(a, IterV):
        return [(st, a)]
    if isinstance(a, Opaque):
        return [(s2, IterV(seq.items)) for s2, seq in materialise_seq(eng, st, a)]
    if isinstance(a, (SeqV, MapV)):
        return [(st, IterV(materialise_seq(eng, st, a)[0][1].items))]
    raise MirError(f'not an iterator value: {vrepr(a)}')


def m_iter_filter(eng, st, call):
    """filter / filter_map / map / take_while are applied eagerly, element by element, forking with the closure"""
    name = method_name(call.fn)
    clo = call.args[1]
    out = []
    for s0, it in _iter_value(eng, st, call.args[0]):
        items = it.items[it.pos:]
        states = [(s0, [])]
        for x in items:
            nxt = []
            for s, acc in states:
                if name == 'filter':
                    for s2, r in call_closure(eng, s, clo, [Ref(s.temp(x), ())]):
                        for s3, b in bool_cases(eng, s2, r):
                            nxt.append((s3, acc + [x] if b else acc))
                elif name == 'map':
                    for s2, r in call_closure(eng, s, clo, [x]):
                        nxt.append((s2, acc + [r]))
                elif name == 'filter_map':
                    for s2, r in call_closure(eng, s, clo, [x]):
                        for s3, vn, p in split_enum(eng, s2, r, 'Option'):
                            nxt.append((s3, acc + [p] if vn == 'Some' else acc))
            states = nxt
        for s, acc in states:
            out.append((s, IterV(acc)))
    return out


def m_iter_simple(eng, st, call):
    name = method_name(call.fn)
    out = []
    for s0, it in _iter_value(eng, st, call.args[0]):
        items = it.items[it.pos:]
        if name == 'enumerate':
            out.append((s0, IterV([Agg('tuple', None, None, [z3.BitVecVal(i, 64), x]) for i, x in enumerate(items)])))
        elif name == 'rev':
            out.append((s0, IterV(list(reversed(items)))))
        elif name in ('cloned', 'copied'):
            out.append((s0, IterV([copy_val(deref_all(eng, s0, x)) for x in items])))
        elif name == 'count':
            out.append((s0, z3.BitVecVal(len(items), 64)))
        elif name in ('skip', 'take'):
            nv = call.args[1]
            if z3.is_bv(nv) and not z3.is_bv_value(z3.simplify(nv)):
                # symbolic count over a concrete-shape sequence: fork on n == 0, 1, .., len-1 and n >= len (the shape of the result is then known)
                L = len(items)
                for k in range(L + 1):
                    cond = (nv == k) if k < L else z3.UGE(nv, L)
                    if eng.feasible(s0, cond):
                        s1 = s0.clone()
                        eng.assume(s1, cond)
                        out.append((s1, IterV(items[k:] if name == 'skip' else items[:k])))
            else:
                n = eng.concrete_int(s0, nv)
                out.append((s0, IterV(items[n:] if name == 'skip' else items[:n])))
        elif name == 'collect':
            out.append((s0, collect_into(eng, s0, items, call.dest_ty)))
        elif name == 'last':
            out.append((s0, SOME(items[-1]) if items else NONE()))
        else:
            return None
    return out


def collect_into(eng, st, items, ty):
    t = simple_type_name(ty or '?')
    if t in ('Vec', 'VecDeque'):
        return SeqV(list(items), ty)
    if t in ('HashSet', 'BTreeSet', 'HashMap', 'BTreeMap') and not getattr(eng, 'model_maps', True):
        return Opaque(st.fresh('collected'), ty)
    if t in ('HashSet', 'BTreeSet'):
        m = MapV([], ty, True)
        for x in items:
            map_insert(eng, st, m, x, UNIT())
        return m
    if t in ('HashMap', 'BTreeMap'):
        m = MapV([], ty)
        for x in items:
            if isinstance(x, Agg) and len(x.fields) == 2:
                map_insert(eng, st, m, x.fields[0], x.fields[1])
            else:
                raise MirError('collect into map of non-pairs')
        return m
    if t in ('Result', 'Option', 'String'):
        # collecting an iterator of Results / Options / chars: the outcome (Ok with the collection, or the first Err / None) is an environment value
        return Opaque(st.fresh('collected'), ty)
    raise MirError('collect into ' + str(ty))


def key_eq_decided(eng, st, a, b):
    """decide key equality (concrete tokens / identical symbolic terms); undecidable -> error (obligation must use key pools)"""
    e = z3.simplify(val_eq(eng, a, b))
    if z3.is_true(e):
        return True
    if z3.is_false(e):
        return False
    if eng.prove(st.pc, e)[0]:
        return True
    if eng.prove(st.pc, z3.Not(e))[0]:
        return False
    raise MirError(f'undecided key equality {vrepr(a)} == {vrepr(b)} (container keys must come from a concrete pool)')


def map_find(eng, st, m, k):
    for i, (kk, v) in enumerate(m.entries):
        if key_eq_decided(eng, st, kk, k):
            return i
    return None


def map_insert(eng, st, m, k, v):
    i = map_find(eng, st, m, k)
    if i is None:
        m.entries.append([k, v])
        return None
    old = m.entries[i][1]
    m.entries[i][1] = v
    return old


STD_MODELS += [
    (R(r' as (std::iter::)?Iterator>::(filter|map|filter_map)::<'), m_iter_filter),
    (R(r' as (std::iter::)?Iterator>::(min_by_key|max_by_key)(::<.*>)?$'), m_iter_min_max_by_key),
    (R(r' as (std::iter::)?Iterator>::(min_by|max_by)(::<.*>)?$'), m_iter_min_max_by),
    (R(r' as (std::iter::)?Iterator>::(enumerate|rev|cloned|copied|count|skip|take|last)(::<.*>)?$'), m_iter_simple),
    (R(r' as (std::iter::)?Iterator>::collect::<'), m_iter_simple),
]


# ---- containers: Vec / VecDeque (SeqV), HashMap / HashSet / BTreeMap / BTreeSet / LruCache (MapV) ---------------------------

def _cont(eng, st, a, cls):
    """(ref to the container, container) for a `&self`/`&mut self` argument"""
    if not isinstance(a, Ref):
        return None, None            # an opaque reference: the container is environment data, not a model container
    r, v = base_ref(eng, st, a)
    if not isinstance(v, cls):
        return r, None
    return r, v


def m_new_container(eng, st, call):
    t = simple_type_name(call.dest_ty or '')
    if t in ('?', '') or t is None:
        mm = re.match(r'^(?:[\w:]*::)?(Vec|VecDeque|HashMap|HashSet|BTreeMap|BTreeSet|String)(::<.*>)?::new$', call.fn)
        t = mm.group(1) if mm else t
    if t in ('Vec', 'VecDeque'):
        return [(st, SeqV([], call.dest_ty))]
    if t in ('HashMap', 'BTreeMap', 'HashSet', 'BTreeSet') and not getattr(eng, 'model_maps', True):
        return None          # keyed containers of symbolic keys stay environment values (panic-freedom explorations)
    if t in ('HashMap', 'BTreeMap'):
        return [(st, MapV([], call.dest_ty))]
    if t in ('HashSet', 'BTreeSet'):
        return [(st, MapV([], call.dest_ty, True))]
    if t == 'String':
        return [(st, StrV(text=''))]
    return None


def m_copy_from_slice(eng, st, call):
    """<[T]>::copy_from_slice(dest, src): dest becomes a copy of src (std panics when the lengths differ: callers guard it with a length check; the panic is modelled when the lengths are provably different)"""
    a = call.args[0]
    if not isinstance(a, Ref):
        return None
    src = deref_all(eng, st, call.args[1])
    dst = eng.read(st, a.loc, a.path)
    from .api import uid_of
    out = []
    try:
        ld = len_of(eng, st, dst) if not (isinstance(dst, Agg) and dst.kind == 'array') else z3.BitVecVal(len(dst.fields), 64)
        ls = len_of(eng, st, src)
    except MirError:
        ld = ls = None
    newv = lambda: copy_val(src) if isinstance(src, (SeqV, Agg)) else Opaque('copy_of(' + uid_of(eng, st, src) + ')', '[T]')
    if ld is None or ls is None:
        eng.write(st, a.loc, a.path, newv())
        return [(st, UNIT())]
    # std panics when the two slices differ in length
    from .engine import Panic
    for s2, same in bool_cases(eng, st, ld == ls):
        if same:
            eng.write(s2, a.loc, a.path, newv())
            out.append((s2, UNIT()))
        else:
            out.append((s2, Panic('copy_from_slice: source slice length does not match destination slice length')))
    return out


def m_seq(eng, st, call):
    name = method_name(call.fn)
    r, v = _cont(eng, st, call.args[0], SeqV)
    if v is None:
        return None
    if name in ('push', 'push_back'):
        v.items.append(call.args[1]); return [(st, UNIT())]
    if name == 'push_front':
        v.items.insert(0, call.args[1]); return [(st, UNIT())]
    if name == 'pop_front':
        return [(st, SOME(v.items.pop(0)) if v.items else NONE())]
    if name in ('pop', 'pop_back'):
        return [(st, SOME(v.items.pop()) if v.items else NONE())]
    if name == 'len':
        return [(st, z3.BitVecVal(len(v.items), 64))]
    if name == 'is_empty':
        return [(st, z3.BoolVal(len(v.items) == 0))]
    if name in ('iter', 'iter_mut'):
        return [(st, IterV([Ref(r.loc, r.path + (('i', k),), name == 'iter_mut') for k in range(len(v.items))], 'ref'))]
    if name == 'split_off':
        out = []
        from .engine import Panic
        for s2, k in int_cases(eng, st, call.args[1], len(v.items)):
            if k is None:
                out.append((s2, Panic('split_off: `at` out of bounds'))); continue
            seq = eng.read(s2, r.loc, r.path)
            tail = seq.items[k:]
            del seq.items[k:]
            out.append((s2, SeqV(tail, v.ty)))
        return out
    if name == 'clear':
        v.items.clear(); return [(st, UNIT())]
    if name in ('first', 'front'):
        return [(st, SOME(Ref(r.loc, r.path + (('i', 0),))) if v.items else NONE())]
    if name in ('last', 'back'):
        return [(st, SOME(Ref(r.loc, r.path + (('i', len(v.items) - 1),))) if v.items else NONE())]
    if name == 'get':
        k = eng.concrete_int(st, call.args[1])
        return [(st, SOME(Ref(r.loc, r.path + (('i', k),))) if k < len(v.items) else NONE())]
    if name == 'to_vec':
        return [(st, SeqV([copy_val(x) for x in v.items], 'Vec'))]
    if name in ('as_slice', 'as_mut_slice'):
        return [(st, r)]
    if name == 'contains':
        x = deref_all(eng, st, call.args[1])
        return [(st, z3.Or([val_eq(eng, y, x) for y in v.items]) if v.items else z3.BoolVal(False))]
    if name == 'truncate':
        out = []
        for s2, k in int_cases(eng, st, call.args[1], len(v.items)):
            if k is not None:
                seq = eng.read(s2, r.loc, r.path)
                del seq.items[k:]
            out.append((s2, UNIT()))
        return out
    if name == 'remove':
        k = eng.concrete_int(st, call.args[1])
        if k >= len(v.items):
            from .engine import Panic
            return [(st, Panic('remove index out of bounds'))]
        return [(st, v.items.pop(k))]
    return None


def int_cases(eng, st, x, n):
    """[(state, k)] for k in 0..n plus (state, None) for x > n: case split of a (possibly symbolic) index against a concrete-shape length n"""
    if isinstance(x, int):
        return [(st, x if x <= n else None)]
    xs = z3.simplify(x)
    if z3.is_bv_value(xs):
        k = xs.as_long()
        return [(st, k if k <= n else None)]
    res = []
    for k in range(n + 1):
        if eng.feasible(st, x == k):
            s2 = st.clone(); eng.assume(s2, x == k); res.append((s2, k))
    if eng.feasible(st, z3.UGT(x, n)):
        s2 = st.clone(); eng.assume(s2, z3.UGT(x, n)); res.append((s2, None))
    return res


def m_seq_index(eng, st, call):
    """<Vec<T>/VecDeque<T>/[T] as Index<usize>>::index -> &T  (panics when out of bounds)"""
    r, v = _cont(eng, st, call.args[0], SeqV)
    if v is None:
        return None
    from .engine import Panic
    idx = call.args[1]
    if isinstance(idx, Agg):          # range index: not modelled here
        return None
    k = eng.concrete_int(st, idx)
    if k >= len(v.items):
        return [(st, Panic(f'index out of bounds: the len is {len(v.items)} but the index is {k} in {call.site}'))]
    return [(st, Ref(r.loc, r.path + (('i', k),), r.mut))]


def m_mapops(eng, st, call):
    name = method_name(call.fn)
    r, v = _cont(eng, st, call.args[0], MapV)
    if v is None:
        return None
    key = deref_all(eng, st, call.args[1]) if len(call.args) > 1 else None
    if name in ('get', 'get_mut', 'peek', 'peek_mut'):
        i = map_find(eng, st, v, key)
        return [(st, NONE() if i is None else SOME(Ref(r.loc, r.path + (('e', i),), 'mut' in name)))]
    if name in ('contains', 'contains_key'):
        return [(st, z3.BoolVal(map_find(eng, st, v, key) is not None))]
    if name in ('insert', 'put', 'push'):
        if v.is_set:
            i = map_find(eng, st, v, call.args[1])
            if i is None:
                v.entries.append([call.args[1], UNIT()])
            return [(st, z3.BoolVal(i is None))]
        old = map_insert(eng, st, v, call.args[1], call.args[2])
        if old is None and getattr(v, 'cap', None) is not None and len(v.entries) > v.cap:
            v.entries.pop(0)          # LRU eviction (recency approximated by insertion order; only used by scenarios that never touch the older entries)
        return [(st, NONE() if old is None else SOME(old))]
    if name in ('remove', 'pop'):
        i = map_find(eng, st, v, key)
        if i is None:
            return [(st, z3.BoolVal(False) if v.is_set else NONE())]
        k, x = v.entries.pop(i)
        return [(st, z3.BoolVal(True) if v.is_set else SOME(x))]
    if name == 'len':
        return [(st, z3.BitVecVal(len(v.entries), 64))]
    if name == 'is_empty':
        return [(st, z3.BoolVal(len(v.entries) == 0))]
    if name == 'clear':
        v.entries.clear(); return [(st, UNIT())]
    if name == 'entry':
        return [(st, Agg('struct', 'Entry', None, [r, call.args[1]]))]
    if name in ('values', 'values_mut'):
        return [(st, IterV([Ref(r.loc, r.path + (('e', k),), 'mut' in name) for k in range(len(v.entries))], 'ref'))]
    if name == 'keys':
        return [(st, IterV([Ref(r.loc, r.path + (('k', k),)) for k in range(len(v.entries))], 'ref'))]
    if name in ('iter', 'iter_mut'):
        if v.is_set:
            return [(st, IterV([Ref(r.loc, r.path + (('k', k),)) for k in range(len(v.entries))], 'ref'))]
        return [(st, IterV([Agg('tuple', None, None, [Ref(r.loc, r.path + (('k', k),)), Ref(r.loc, r.path + (('e', k),), 'mut' in name)]) for k in range(len(v.entries))], 'ref'))]
    if name == 'retain':
        clo = call.args[1]
        # evaluate the predicate element by element (forking), keep those for which it holds
        states = [(st, [])]
        n = len(v.entries)
        for k in range(n):
            nxt = []
            for s, keep in states:
                args = [Ref(r.loc, r.path + (('k', k),))] if v.is_set else [Ref(r.loc, r.path + (('k', k),)), Ref(r.loc, r.path + (('e', k),), True)]
                for s2, res in call_closure(eng, s, clo, args):
                    for s3, b in bool_cases(eng, s2, res):
                        nxt.append((s3, keep + [k] if b else keep))
            states = nxt
        out = []
        for s, keep in states:
            m = eng.read(s, r.loc, r.path)
            m.entries = [m.entries[k] for k in keep]
            out.append((s, UNIT()))
        return out
    return None


def m_entry(eng, st, call):
    name = method_name(call.fn)
    e = call.args[0]
    if not (isinstance(e, Agg) and e.ty == 'Entry'):
        return None
    r, key = e.fields
    m = eng.read(st, r.loc, r.path)
    i = map_find(eng, st, m, key)
    if i is None:
        if name == 'or_default':
            dv = default_of(type_args_of_entry(call.fn))
        elif name == 'or_insert':
            dv = call.args[1]
        elif name == 'or_insert_with':
            outs = call_closure(eng, st, call.args[1], [])
            if len(outs) != 1:
                raise MirError('or_insert_with closure forks')
            dv = outs[0][1]
        else:
            return None
        m.entries.append([key, dv])
        i = len(m.entries) - 1
    return [(st, Ref(r.loc, r.path + (('e', i),), True))]


def type_args_of_entry(fn):
    m = re.search(r"Entry::<'_, (.*)>::\w+$", fn, re.S)
    if m:
        parts = split_top(m.group(1))
        if len(parts) >= 2:
            return parts[1]
    return '?'


STD_MODELS += [
    (R(r'^(std::vec::|alloc::vec::)?Vec::<.*>::new$|VecDeque::<.*>::new$|HashMap::<.*>::new$|HashSet::<.*>::new$|BTreeMap::<.*>::new$|BTreeSet::<.*>::new$|^String::new$|std::string::String::new$'), m_new_container),
    (R(r' as (std::ops::)?Index(Mut)?<usize>>::index(_mut)?$'), m_seq_index),
    (R(r'^(std|core)::mem::drop(::<.*>)?$'), lambda eng, st, call: [(st, UNIT())]),
    (R(r'copy_from_slice$'), m_copy_from_slice),
    (R(r'(Vec|VecDeque)::<.*>::(push|push_back|push_front|pop|pop_front|pop_back|len|is_empty|iter|iter_mut|split_off|clear|first|last|front|back|get|to_vec|as_slice|contains|truncate|remove)$'), m_seq),
    (R(r'slice::<impl \[.*\]>::(len|is_empty|iter|iter_mut|first|last|get|to_vec|contains)$'), m_seq),
    (R(r'(HashMap|BTreeMap|HashSet|BTreeSet|LruCache)::<.*>::(get|get_mut|peek|peek_mut|contains|contains_key|insert|put|push|remove|pop|len|is_empty|clear|entry|values|values_mut|keys|iter|iter_mut|retain)(::<.*>)?$'), m_mapops),
    (R(r'Entry::<.*>::(or_default|or_insert|or_insert_with)(::<.*>)?$'), m_entry),
]


# ---- more std models used by the memory backend ---------------------------------------------------------------------------

def m_range_contains(eng, st, call):
    r = deref_all(eng, st, call.args[0])
    x = deref_all(eng, st, call.args[1])
    if isinstance(r, Agg) and r.ty == 'RangeInclusive' and z3.is_bv(x):
        lo, hi = r.fields[0], r.fields[1]
        return [(st, z3.And(z3.ULE(lo, x), z3.ULE(x, hi)))]
    return None


def m_ord_minmax(eng, st, call):
    a, b = call.args
    if not (z3.is_bv(a) and z3.is_bv(b)):
        return None
    name = method_name(call.fn)
    m = re.match(r'^<(\w+) as', call.fn)
    sg = is_signed(m.group(1)) if m else False
    lt = (a < b) if sg else z3.ULT(a, b)
    return [(st, z3.If(lt, a, b) if name == 'min' else z3.If(lt, b, a))]


def ordering_val(v):
    """Ordering as an i8 bit-vector (Less=-1, Equal=0, Greater=1)"""
    if z3.is_bv(v) and v.size() == 8:
        return v
    if isinstance(v, Agg) and v.kind == 'enum' and last_seg(v.ty) == 'Ordering':
        return z3.BitVecVal({'Less': -1, 'Equal': 0, 'Greater': 1}[variant_of(v)], 8)
    raise MirError(f'Ordering value expected: {vrepr(v)}')


def m_then_with(eng, st, call):
    o = ordering_val(call.args[0])
    out = []
    for s2, eq in bool_cases(eng, st, o == 0):
        if eq:
            for s3, r in call_closure(eng, s2, call.args[1], []):
                out.append((s3, ordering_val(r)))
        else:
            out.append((s2, o))
    return out


def m_ordering_misc(eng, st, call):
    name = method_name(call.fn)
    o = ordering_val(deref_all(eng, st, call.args[0]))
    if name == 'reverse':
        return [(st, z3.If(o == 0, o, z3.If(o == 1, z3.BitVecVal(-1, 8), z3.BitVecVal(1, 8))))]
    if name == 'then':
        return [(st, z3.If(o == 0, ordering_val(call.args[1]), o))]
    tbl = {'is_lt': o == -1, 'is_le': o != 1, 'is_gt': o == 1, 'is_ge': o != -1, 'is_eq': o == 0, 'is_ne': o != 0}
    if name in tbl:
        return [(st, tbl[name])]
    return None


def m_sort_by(eng, st, call):
    """slice::sort_by / sort_unstable_by as an insertion sort driven by the closure (forks on every comparison)"""
    r, v = _cont(eng, st, call.args[0], SeqV)
    if v is None:
        return None
    clo = call.args[1]
    n = len(v.items)
    states = [st]
    for i in range(1, n):
        # insert element i into the sorted prefix
        nxt_states = []
        for s in states:
            work = [(s, i)]
            while work:
                s1, j = work.pop()
                if j == 0:
                    nxt_states.append(s1); continue
                outs = call_closure(eng, s1, clo, [Ref(r.loc, r.path + (('i', j - 1),)), Ref(r.loc, r.path + (('i', j),))])
                for s2, res in outs:
                    o = ordering_val(res)
                    for s3, gt in bool_cases(eng, s2, o == 1):
                        if gt:
                            seq = eng.read(s3, r.loc, r.path)
                            seq.items[j - 1], seq.items[j] = seq.items[j], seq.items[j - 1]
                            work.append((s3, j - 1))
                        else:
                            nxt_states.append(s3)
        states = nxt_states
    return [(s, UNIT()) for s in states]


def _key_cmp_lt(eng, st, ka, kb):
    """(a < b, a == b) for two sort keys: unsigned scalars / newtypes / tuples (lexicographic); std::cmp::Reverse(x) inverts the order of x"""
    ka, kb = deref_all(eng, st, ka), deref_all(eng, st, kb)
    if isinstance(ka, Agg) and isinstance(kb, Agg) and last_seg(str(ka.ty or '')).startswith('Reverse') and len(ka.fields) == 1:
        lt, eq = _key_cmp_lt(eng, st, kb.fields[0], ka.fields[0])
        return lt, eq
    if isinstance(ka, Agg) and ka.kind == 'tuple' and isinstance(kb, Agg) and len(ka.fields) == len(kb.fields):
        lts, eqs = [], []
        for x, y in zip(ka.fields, kb.fields):
            l, e = _key_cmp_lt(eng, st, x, y)
            lts.append(z3.And(*eqs, l) if eqs else l)
            eqs.append(e)
        return (z3.Or(lts) if lts else z3.BoolVal(False)), (z3.And(eqs) if eqs else z3.BoolVal(True))
    pa, pb = _key_parts(eng, st, ka), _key_parts(eng, st, kb)
    return _lex_lt(pa, pb), z3.And([x == y for x, y in zip(pa, pb)]) if pa else z3.BoolVal(True)


def m_cmp_tuple(eng, st, call):
    """<(A, B, ..) as Ord>::cmp and friends: lexicographic over the components (unsigned scalars / newtypes such as Timestamp, EventId)"""
    name = method_name(call.fn)
    try:
        lt, eq = _key_cmp_lt(eng, st, call.args[0], call.args[1])
    except MirError:
        return None
    o = z3.If(lt, z3.BitVecVal(-1, 8), z3.If(eq, z3.BitVecVal(0, 8), z3.BitVecVal(1, 8)))
    if name == 'cmp':
        return [(st, o)]
    if name == 'partial_cmp':
        return [(st, SOME(o))]
    return [(st, {'lt': lt, 'le': z3.Or(lt, eq), 'gt': z3.Not(z3.Or(lt, eq)), 'ge': z3.Not(lt)}[name])]


def m_sort_by_key(eng, st, call):
    """slice::sort_by_key / sort_by_cached_key (stable): insertion sort on the keys the closure returns (forks on every comparison)"""
    r, v = _cont(eng, st, call.args[0], SeqV)
    if v is None:
        return None
    clo = call.args[1]
    n = len(v.items)
    states = [st]
    for i in range(1, n):
        nxt_states = []
        for s in states:
            work = [(s, i)]
            while work:
                s1, j = work.pop()
                if j == 0:
                    nxt_states.append(s1); continue
                for s2, ka in call_closure(eng, s1, clo, [Ref(r.loc, r.path + (('i', j - 1),))]):
                    for s3, kb in call_closure(eng, s2, clo, [Ref(r.loc, r.path + (('i', j),))]):
                        lt, _eq = _key_cmp_lt(eng, s3, kb, ka)          # strictly smaller key moves in front (stable)
                        for s4, swap in bool_cases(eng, s3, lt):
                            if swap:
                                seq = eng.read(s4, r.loc, r.path)
                                seq.items[j - 1], seq.items[j] = seq.items[j], seq.items[j - 1]
                                work.append((s4, j - 1))
                            else:
                                nxt_states.append(s4)
        states = nxt_states
    return [(s, UNIT()) for s in states]


def m_index_range(eng, st, call):
    """<Vec<T>/[T] as Index<Range<usize>>>::index: symbolic bounds are case-split over 0..=len; out-of-order / out-of-range bounds panic"""
    from .engine import Panic
    r, v = _cont(eng, st, call.args[0], SeqV)
    rng = call.args[1]
    if v is None or not isinstance(rng, Agg) or len(rng.fields) < 2:
        return None
    lo, hi = rng.fields[0], rng.fields[1]
    n = len(v.items)
    out = []

    def cases(s, x):
        res = []
        for k in range(n + 1):
            if eng.feasible(s, x == k):
                s2 = s.clone(); eng.assume(s2, x == k); res.append((s2, k))
        if eng.feasible(s, z3.UGT(x, n)):
            s2 = s.clone(); eng.assume(s2, z3.UGT(x, n)); res.append((s2, None))
        return res
    for s1, a in cases(st, lo):
        for s2, b in cases(s1, hi):
            if b is None:
                out.append((s2, Panic(f'range end index out of range for slice of length {n} in {call.site}')))
            elif a is None or a > b:
                out.append((s2, Panic(f'slice index starts at {a} but ends at {b} in {call.site}')))
            else:
                seq = eng.read(s2, r.loc, r.path)
                out.append((s2, Ref(s2.temp(SeqV([copy_val(x) for x in seq.items[a:b]], 'slice')), ())))
    return out


def m_seq_drain(eng, st, call):
    """Vec/VecDeque::drain(range): removes items[lo..hi] and yields them; symbolic bounds are case-split over 0..=len; out-of-range bounds panic.
    (The removal is applied at the call, not when the Drain is dropped: the callers iterate it to the end.)"""
    from .engine import Panic
    r, v = _cont(eng, st, call.args[0], SeqV)
    rng = call.args[1]
    if v is None or not isinstance(rng, Agg):
        return None
    n = len(v.items)
    ty = str(rng.ty or '')
    if 'RangeFull' in ty or not rng.fields:
        lo, hi = z3.BitVecVal(0, 64), z3.BitVecVal(n, 64)
    elif 'RangeFrom' in ty or (len(rng.fields) == 1 and 'RangeTo' not in ty):
        lo, hi = rng.fields[0], z3.BitVecVal(n, 64)
    elif 'RangeTo' in ty and len(rng.fields) == 1:
        lo, hi = z3.BitVecVal(0, 64), rng.fields[0]
    elif len(rng.fields) == 2 and 'Inclusive' not in ty:
        lo, hi = rng.fields[0], rng.fields[1]
    else:
        return None

    def cases(s, x):
        if isinstance(x, int):
            x = z3.BitVecVal(x, 64)
        xs = z3.simplify(x)
        if z3.is_bv_value(xs):
            k = xs.as_long()
            return [(s, k if k <= n else None)]
        res = []
        for k in range(n + 1):
            if eng.feasible(s, x == k):
                s2 = s.clone(); eng.assume(s2, x == k); res.append((s2, k))
        if eng.feasible(s, z3.UGT(x, n)):
            s2 = s.clone(); eng.assume(s2, z3.UGT(x, n)); res.append((s2, None))
        return res
    out = []
    for s1, a in cases(st, lo):
        for s2, b in cases(s1, hi):
            if b is None or a is None or a > b:
                out.append((s2, Panic(f'drain range {a}..{b} out of range for length {n} in {call.site}')))
                continue
            seq = eng.read(s2, r.loc, r.path)
            taken = seq.items[a:b]
            del seq.items[a:b]
            out.append((s2, IterV(list(taken))))
    return out



def m_default(eng, st, call):
    m = re.match(r'^<(.*) as (std::default::)?Default>::default$', call.fn, re.S)
    if not m:
        return None
    try:
        return [(st, default_of(m.group(1)))]
    except MirError:
        return None


STD_MODELS[:0] = [
    (R(r'RangeInclusive::<\w+>::contains::<'), m_range_contains),
    (R(r'^<(u8|u16|u32|u64|usize|i64) as (std::cmp::)?Ord>::(min|max)$'), m_ord_minmax),
    (R(r'^(std::cmp::|core::cmp::)?Ordering::then_with::<'), m_then_with),
    (R(r'^(std::cmp::|core::cmp::)?Ordering::(reverse|then|is_lt|is_le|is_gt|is_ge|is_eq|is_ne)$'), m_ordering_misc),
    (R(r'slice::<impl \[.*\]>::(sort_by|sort_unstable_by)::<'), m_sort_by),
    (R(r'slice::<impl \[.*\]>::(sort_by_key|sort_by_cached_key|sort_unstable_by_key)::<'), m_sort_by_key),
    (R(r'^<\(.*\) as (std::cmp::|core::cmp::)?(Ord|PartialOrd)(<.*>)?>::(cmp|partial_cmp|lt|le|gt|ge)$'), m_cmp_tuple),
    (R(r' as (std::ops::)?Index<(std::ops::)?Range<usize>>>::index$'), m_index_range),
    (R(r'(Vec|VecDeque)::<.*>::drain::<'), m_seq_drain),
    (R(r'^<([\w:]*::)?(EventId|Timestamp) as (std::cmp::)?(Ord|PartialOrd)>::(cmp|partial_cmp|lt|le|gt|ge)$'), m_cmp_int),
]


# ---- std functions that can panic on hostile input (used by the panic-freedom obligations) ------------------------------

def m_str_split_at(eng, st, call):
    """str::split_at / slice::split_at(mid): panics when mid is past the end or (str) not on a char boundary"""
    from .engine import Panic
    s = deref_all(eng, st, call.args[0])
    k = call.args[1]
    ident = _ident(s)
    ln = len_of(eng, st, s) if not (isinstance(s, StrV) and s.text is None) else z3.BitVec(f'len({ident})', 64)
    ok = z3.And(z3.ULE(k, ln), z3.Bool(f'char_boundary({ident},{z3.simplify(k)})'))
    out = []
    for s2, good in bool_cases(eng, st, ok):
        if good:
            out.append((s2, Agg('tuple', None, None, [Ref(s2.temp(StrV(sym=f'{ident}[..{z3.simplify(k)}]')), ()), Ref(s2.temp(StrV(sym=f'{ident}[{z3.simplify(k)}..]')), ())])))
        else:
            out.append((s2, Panic(f'split_at({z3.simplify(k)}) past the end or not on a char boundary in {call.site}')))
    return out


def m_str_index_range(eng, st, call):
    """<str as Index<Range*<usize>>>::index: panics unless the bounds are in range and on char boundaries"""
    from .engine import Panic
    s = deref_all(eng, st, call.args[0])
    if isinstance(s, SeqV):
        return None
    ident = _ident(s)
    ok = z3.Bool(st.fresh(f'range_ok({ident})'))
    out = []
    for s2, good in bool_cases(eng, st, ok):
        out.append((s2, Ref(s2.temp(StrV(sym=s2.fresh(f'{ident}[range]'))), ()) if good else Panic(f'string slice index out of range or not on a char boundary in {call.site}')))
    return out


STD_MODELS[:0] = [
    (R(r'str>::split_at$|slice::<impl \[.*\]>::split_at$'), m_str_split_at),
    (R(r'^<str as (std::ops::)?Index<(std::ops::)?Range(From|To|Inclusive|ToInclusive)?<usize>>>::index$'), m_str_index_range),
]
