"""Front end of engine E3: loads the textual MIR (-Zunpretty=mir) of the repository crates, regenerated from
/repo's working tree, and the type catalogue (enum variant order, struct field order) read from the sources.

Anything this parser does not understand raises MirError -> the check is BROKEN (exit 2), never a silent skip.
"""
import os, re, glob, hashlib, subprocess, time

from vlib.common import REPO, WORK, sh


class MirError(Exception):
    pass


CRATES = {
    'mdk-core': dict(dir='crates/mdk-core', features='verif-hooks,mip04', extern='mdk_core'),
    'mdk-storage-traits': dict(dir='crates/mdk-storage-traits', features=None, extern='mdk_storage_traits'),
    'mdk-memory-storage': dict(dir='crates/mdk-memory-storage', features=None, extern='mdk_memory_storage'),
    'mdk-sqlite-storage': dict(dir='crates/mdk-sqlite-storage', features=None, extern='mdk_sqlite_storage'),
    'mdk-uniffi': dict(dir='crates/mdk-uniffi', features=None, extern='mdk_uniffi'),
}


def _hash_dir(d):
    h = hashlib.sha256()
    for dp, dn, fn in sorted(os.walk(d)):
        dn.sort()
        for f in sorted(fn):
            if f.endswith(('.rs', '.toml', '.sql')):
                p = os.path.join(dp, f)
                h.update(p.encode())
                h.update(open(p, 'rb').read())
    return h.hexdigest()[:16]


def dump_mir(crate):
    """MIR text of `crate` for the current working tree of /repo (cached by source hash under .work/mir)."""
    info = CRATES[crate]
    # the dump of a crate depends on its own sources and on the crates it depends on (types, signatures)
    hs = ''.join(_hash_dir(os.path.join(REPO, c['dir'])) for c in CRATES.values())
    hs = hashlib.sha256((hs + open(os.path.join(REPO, 'Cargo.lock')).read()).encode()).hexdigest()[:16]
    d = os.path.join(WORK, 'mir')
    os.makedirs(d, exist_ok=True)
    out = os.path.join(d, f'{crate}.{hs}.mir')
    if os.path.exists(out) and os.path.getsize(out) > 1000:
        return out, 0.0, True
    # concurrent checks share one cargo target dir: serialise the dump (and re-test the cache once the lock is held)
    import fcntl
    with open(os.path.join(d, '.lock'), 'w') as lk:
        fcntl.flock(lk, fcntl.LOCK_EX)
        if os.path.exists(out) and os.path.getsize(out) > 1000:
            return out, 0.0, True
        return _dump_locked(crate, info, d, out)


def _dump_locked(crate, info, d, out):
    tdir = os.path.join(d, 'target')
    # force rustc to run again for this crate (an up-to-date fingerprint would print nothing)
    for fp in glob.glob(os.path.join(tdir, 'debug', '.fingerprint', crate + '-*')):
        subprocess.run(['rm', '-rf', fp])
    feat = f'--features {info["features"]}' if info['features'] else ''
    cmd = (f'cargo +nightly rustc --offline -p {crate} --lib {feat} -- -Zunpretty=mir '
           f'-C debug-assertions=off -C overflow-checks=on > {out}.tmp 2> {out}.err')
    rc, o, dt = sh(cmd, cwd=REPO, env={'CARGO_TARGET_DIR': tdir}, timeout=1500)
    if rc != 0 or not os.path.exists(out + '.tmp') or os.path.getsize(out + '.tmp') < 1000:
        err = open(out + '.err').read()[-3000:] if os.path.exists(out + '.err') else o
        raise MirError(f'MIR dump of {crate} failed (rc={rc}): {err}')
    os.replace(out + '.tmp', out)
    for old in glob.glob(os.path.join(d, f'{crate}.*.mir')):
        if old != out:
            os.remove(old)
    return out, dt, False


# ----------------------------------------------------------------------------------------------------------
# small lexical helpers

OPEN, CLOSE = '([{<', ')]}>'


def split_top(s, sep=','):
    """split on `sep` at bracket depth 0 ('->' and '=>' do not close '<')."""
    out, d, cur, i, n = [], 0, [], 0, len(s)
    instr = False
    while i < n:
        c = s[i]
        if instr:
            cur.append(c)
            if c == '\\' and i + 1 < n:
                cur.append(s[i + 1]); i += 2; continue
            if c == '"':
                instr = False
            i += 1; continue
        if c == '"':
            instr = True; cur.append(c); i += 1; continue
        if c in OPEN:
            d += 1
        elif c in CLOSE:
            if c == '>' and i > 0 and s[i - 1] in '-=':
                pass
            else:
                d -= 1
        if c == sep and d == 0:
            out.append(''.join(cur).strip()); cur = []
        else:
            cur.append(c)
        i += 1
    t = ''.join(cur).strip()
    if t:
        out.append(t)
    return out


def strip_generics(s):
    """remove every <...> group (respecting nesting; '->' inside is fine)."""
    out, d, i = [], 0, 0
    while i < len(s):
        c = s[i]
        if c == '<':
            d += 1
        elif c == '>' and not (i > 0 and s[i - 1] in '-='):
            d -= 1
        elif d == 0:
            out.append(c)
        i += 1
    return ''.join(out)


def last_seg(path):
    return split_path(path)[-1] if path else path


def split_path(p):
    """split a::b::<impl X>::c on '::' at depth 0."""
    out, d, cur, i = [], 0, [], 0
    while i < len(p):
        c = p[i]
        if c in '<([{':
            d += 1
        elif c in '>)]}' and not (c == '>' and i > 0 and p[i - 1] in '-='):
            d -= 1
        if d == 0 and p.startswith('::', i):
            out.append(''.join(cur)); cur = []; i += 2; continue
        cur.append(c); i += 1
    out.append(''.join(cur))
    return out


def simple_type_name(t):
    """'&mut mdk_storage_traits::groups::types::Group<..>' -> 'Group'"""
    t = t.strip()
    while t.startswith(('&', '*', "'")):
        t = re.sub(r"^(&(?:'\w+ )?(?:mut )?|\*(?:const|mut) |'\w+ )", '', t).strip()
    if t.startswith('dyn '):
        t = t[4:]
    if t.startswith(('(', '[', '{')):
        return t
    t = strip_generics(t).strip()
    return t.split('::')[-1].strip()


# ----------------------------------------------------------------------------------------------------------

class Func:
    __slots__ = ('name', 'crate', 'kind', 'sig', 'params', 'ret', 'types', 'debug', 'blocks', 'nargs', 'meta', 'short',
                 'closure_ty', 'parsed', 'owner')

    def __repr__(self):
        return f'<Func {self.crate}:{self.name}>'


class Crate:
    def __init__(self, name):
        self.name = name
        self.path, self.dump_s, self.cached = dump_mir(name)
        self.text = open(self.path).read()
        self.funcs = {}          # def name -> Func
        self.by_last = {}        # last segment -> [Func]
        self.closures = {}       # closure type string '{closure@...}' -> Func
        self.promoted = {}       # (owner def name, n) -> Func
        self.consts = {}         # def name -> Func
        self.inline_consts = {}  # last segment -> (type, literal text)  e.g. 'const X: u64 = const 5_u64;'
        self._parse()

    def _parse(self):
        text = self.text
        for m in re.finditer(r'^const ([\w:]+): ([^=\n]+) = const ([^\n]+);$', text, re.M):
            self.inline_consts[m.group(1).split('::')[-1]] = (m.group(2).strip(), m.group(3).strip())
        # item headers start at column 0 with 'fn ', 'const ', 'static '
        heads = [(m.start(), m.group(1)) for m in re.finditer(r'^(fn|const|static(?: mut)?) ', text, re.M)]
        heads.append((len(text), None))
        for (a, kind), (b, _) in zip(heads, heads[1:]):
            body = text[a:b]
            end = body.rfind('\n}')
            if end < 0:
                continue
            body = body[:end + 2]
            f = self._parse_item(kind, body)
            if f is None:
                continue
            f.crate = self.name
            if f.kind == 'fn':
                self.funcs[f.name] = f
                self.by_last.setdefault(f.short, []).append(f)
                if f.closure_ty:
                    self.closures[f.closure_ty] = f
            else:
                m = re.match(r'^(.*)::promoted\[(\d+)\]$', f.name)
                if m:
                    self.promoted[(m.group(1), int(m.group(2)))] = f
                else:
                    self.consts[f.name] = f
                    self.by_last.setdefault(f.short, []).append(f)

    def _parse_item(self, kind, body):
        head, _, rest = body.partition('\n')
        f = Func()
        f.kind = 'fn' if kind == 'fn' else 'const'
        f.sig = head
        f.parsed = {}
        f.meta = None
        f.closure_ty = None
        f.owner = None
        if f.kind == 'fn':
            # name up to the '(' that opens the parameter list: the first '(' at depth 0 outside <...>
            s = head[3:]
            d = 0; i = 0; pos = None
            while i < len(s):
                c = s[i]
                if c in '<[{':
                    d += 1
                elif c in '>]}' and not (c == '>' and s[i - 1] in '-='):
                    d -= 1
                elif c == '(' and d == 0:
                    pos = i; break
                i += 1
            if pos is None:
                raise MirError('cannot parse fn header: ' + head[:200])
            f.name = s[:pos]
            # parameter list: balanced
            d = 0; j = pos
            while j < len(s):
                if s[j] in '([{<':
                    d += 1
                elif s[j] in ')]}>' and not (s[j] == '>' and s[j - 1] in '-='):
                    d -= 1
                    if d == 0:
                        break
                j += 1
            params = s[pos + 1:j]
            tail = s[j + 1:].strip()
            m = re.match(r'^-> (.*) \{$', tail)
            f.ret = m.group(1) if m else '()'
            f.params = []
            for p in split_top(params):
                m = re.match(r'^(_\d+): (.*)$', p)
                if not m:
                    raise MirError('param? ' + p)
                f.params.append((m.group(1), m.group(2)))
            f.nargs = len(f.params)
        else:
            m = re.match(r'^(?:const|static(?: mut)?) (.*) = \{$', head)
            if not m:
                return None
            body0 = m.group(1)
            d = 0; cut = None
            for i, c in enumerate(body0):
                if c in '<([{':
                    d += 1
                elif c in '>)]}' and not (c == '>' and body0[i - 1] in '-='):
                    d -= 1
                elif d == 0 and body0.startswith(': ', i):
                    cut = i; break
            if cut is None:
                return None
            f.name, f.ret = body0[:cut], body0[cut + 2:]
            f.params = []; f.nargs = 0
        f.short = last_seg(f.name)
        f.types = {'_0': f.ret}
        for p, t in f.params:
            f.types[p] = t
        f.debug = {}
        f.blocks = {}
        cur = None
        for ln in rest.split('\n'):
            if cur is None:
                m = re.match(r'^\s+let (?:mut )?(_\d+): (.*);$', ln)
                if m:
                    f.types[m.group(1)] = m.group(2); continue
                m = re.match(r'^\s+debug (\w+) => (.*);$', ln)
                if m:
                    f.debug.setdefault(m.group(1), m.group(2)); continue
            m = re.match(r'^    (bb\d+)(?: \(cleanup\))?: \{$', ln)
            if m:
                cur = m.group(1); f.blocks[cur] = []; continue
            if cur is not None:
                if ln.startswith('    }'):
                    cur = None; continue
                s = ln.strip()
                if s:
                    f.blocks[cur].append(s)
        if f.kind == 'fn' and '{closure#' in f.short and f.params:
            t = f.params[0][1]
            m = re.search(r'(\{closure@[^}]*\})', t)
            if m:
                f.closure_ty = m.group(1)
        return f


# ----------------------------------------------------------------------------------------------------------
# impl headers and the type catalogue, read from the sources

_IMPL_CACHE = {}


def impl_header(span):
    """'<impl at crates/x/src/f.rs:85:1: 85:26>' -> (self_type_simple, trait_simple or None)"""
    if span in _IMPL_CACHE:
        return _IMPL_CACHE[span]
    m = re.match(r'^<impl at (.*?):(\d+):(\d+): (\d+):(\d+)>$', span)
    res = (None, None)
    if m:
        path = m.group(1)
        p = path if os.path.isabs(path) else os.path.join(REPO, path)
        try:
            lines = open(p).read().split('\n')
            l1, c1, l2, c2 = int(m.group(2)), int(m.group(3)), int(m.group(4)), int(m.group(5))
            seg = lines[l1 - 1:l2]
            seg[-1] = seg[-1][:c2 - 1]
            seg[0] = seg[0][c1 - 1:]
            hdr = ' '.join(x.strip() for x in seg)
            hdr = re.sub(r'\s+', ' ', hdr)
            if not re.match(r'^(?:unsafe )?impl\b', hdr):
                # #[derive(Trait)]: the span covers the trait name inside the attribute; the type is the next struct/enum
                tr = re.sub(r'[^\w:]', '', hdr).split('::')[-1]
                ty = None
                for ln in lines[l1 - 1:l1 + 40]:
                    mm = re.search(r'\b(?:struct|enum|union)\s+(\w+)', ln)
                    if mm:
                        ty = mm.group(1); break
                _IMPL_CACHE[span] = (ty, tr or None)
                return _IMPL_CACHE[span]
            hdr = re.sub(r'^(?:unsafe )?impl', '', hdr).strip()
            if hdr.startswith('<'):
                d = 0
                for i, c in enumerate(hdr):
                    if c == '<':
                        d += 1
                    elif c == '>':
                        d -= 1
                        if d == 0:
                            hdr = hdr[i + 1:].strip(); break
            hdr = hdr.split(' where ')[0]
            if ' for ' in hdr:
                tr, ty = hdr.split(' for ', 1)
                res = (simple_type_name(ty), simple_type_name(tr))
            else:
                res = (simple_type_name(hdr), None)
        except Exception:
            res = (None, None)
    _IMPL_CACHE[span] = res
    return res


ENABLED_FEATURES = {'mip04', 'verif-hooks', 'std', 'nip44', 'default'}


class Catalogue:
    """enum variant order and struct field order, from the Rust sources (repository crates + vendored deps on demand)."""

    def __init__(self):
        self.enums = {}      # simple name -> list of (where, [variant names], {variant: [field names] | int})
        self.structs = {}    # simple name -> list of (where, [field names])
        for c in CRATES.values():
            self.scan_dir(os.path.join(REPO, c['dir'], 'src'))
        reg = glob.glob(os.path.expanduser('~/.cargo/registry/src/*/'))
        self.reg = reg[0] if reg else None
        for dep in ('openmls-0.8.1', 'nostr-0.44.2', 'openmls_traits-0.5.0', 'openmls_basic_credential-0.5.0'):
            if self.reg and os.path.isdir(os.path.join(self.reg, dep, 'src')):
                self.scan_dir(os.path.join(self.reg, dep, 'src'))
        # std
        self.enums.setdefault('Option', []).append(('core', ['None', 'Some'], {}))
        self.enums.setdefault('Result', []).append(('core', ['Ok', 'Err'], {}))
        self.enums.setdefault('ControlFlow', []).append(('core', ['Continue', 'Break'], {}))
        self.enums.setdefault('Ordering', []).append(('core', ['Less', 'Equal', 'Greater'], {}))
        self.enums.setdefault('Cow', []).append(('alloc', ['Borrowed', 'Owned'], {}))
        self.enums.setdefault('Entry', []).append(('std', ['Occupied', 'Vacant'], {}))

    def scan_dir(self, d):
        for dp, dn, fn in os.walk(d):
            for f in fn:
                if f.endswith('.rs'):
                    self.scan_file(os.path.join(dp, f))

    def scan_file(self, p):
        try:
            s = open(p).read()
        except Exception:
            return
        s = re.sub(r'//[^\n]*', '', s)
        s = re.sub(r'/\*.*?\*/', '', s, flags=re.S)
        for m in re.finditer(r'\b(enum|struct)\s+(\w+)\s*(<[^{;(]*?>)?\s*(?:where[^{;]*)?\{', s):
            kind, name = m.group(1), m.group(2)
            i = m.end(); d = 1; j = i
            while j < len(s) and d:
                if s[j] == '{':
                    d += 1
                elif s[j] == '}':
                    d -= 1
                j += 1
            body = s[i:j - 1]
            items = [x for x in split_top(body) if x]
            names = []; vf = {}
            for it in items:
                skip = False
                for cm in re.finditer(r'#\s*\[cfg\((.*?)\)\]', it, re.S):
                    cfg = cm.group(1)
                    if 'not(' in cfg:
                        continue
                    feats = re.findall(r'feature\s*=\s*"([^"]+)"', cfg)
                    if feats and not any(f in ENABLED_FEATURES for f in feats):
                        skip = True
                    if not feats and re.search(r'\btest\b', cfg):
                        skip = True
                if skip:
                    continue
                it = re.sub(r'#\s*\[[^\]]*\]', '', it).strip()     # attributes (one level)
                it = re.sub(r'#\s*\[.*?\]\s*', '', it, flags=re.S).strip()
                it = re.sub(r'^pub(\([^)]*\))?\s+', '', it)
                mm = re.match(r'^(\w+)', it)
                if not mm:
                    continue
                nm = mm.group(1)
                names.append(nm)
                if kind == 'enum':
                    rest = it[mm.end():].strip()
                    md = re.search(r'=\s*([^,]+)$', rest) if not rest.startswith(('{',)) else None
                    if rest.startswith('('):
                        md = re.search(r'\)\s*=\s*([^,]+)$', rest)
                    if md:
                        ex = md.group(1).strip()
                        try:
                            vf.setdefault('#discr', {})[nm] = int(ex, 0)
                        except ValueError:
                            vf.setdefault('#discr', {})[nm] = None      # non-literal discriminant expression
                    if rest.startswith('{'):
                        inner = rest[1:rest.rfind('}')]
                        fl = []
                        for fi in split_top(inner):
                            fi = re.sub(r'#\s*\[.*?\]\s*', '', fi, flags=re.S).strip()
                            fi = re.sub(r'^pub(\([^)]*\))?\s+', '', fi)
                            m3 = re.match(r'^(\w+)\s*:', fi)
                            if m3:
                                fl.append(m3.group(1))
                        vf[nm] = fl
            if kind == 'enum':
                self.enums.setdefault(name, []).append((p, names, vf))
            else:
                self.structs.setdefault(name, []).append((p, names))

    def _pick(self, table, name, hint, crate=None):
        c = table.get(name)
        if not c:
            return None
        if len(c) == 1 or all(x[1] == c[0][1] for x in c):
            return c[0]
        segs = [x for x in re.split(r'::', strip_generics(hint or '')) if x and x != name]
        cands = list(c)
        if segs:
            first = segs[0]
            dirs = {CRATES[k]['extern']: '/' + CRATES[k]['dir'] + '/' for k in CRATES}
            crate_dir = None
            if first in dirs:
                crate_dir = dirs[first]; segs = segs[1:]
            elif self.reg and any(('/' + first.replace('_', '-') + '-') in x[0] or ('/' + first + '-') in x[0] for x in c):
                crate_dir = '/' + first
                cands2 = [x for x in cands if re.search(r'/' + re.escape(first).replace('_', '[-_]') + r'-\d', x[0])]
                if cands2:
                    cands = cands2
                crate_dir = None; segs = segs[1:]
            elif crate:
                crate_dir = '/' + CRATES[crate]['dir'] + '/'
            if crate_dir:
                cands2 = [x for x in cands if crate_dir in x[0]]
                if cands2:
                    cands = cands2
        elif crate:
            cands2 = [x for x in cands if ('/' + CRATES[crate]['dir'] + '/') in x[0]]
            if cands2:
                cands = cands2
        if len(cands) == 1 or all(x[1] == cands[0][1] for x in cands):
            return cands[0]

        def score(x):
            comps = set(re.split(r'[/.]', x[0]))
            return sum(1 for sg in segs if sg in comps)
        best = max(score(x) for x in cands)
        top = [x for x in cands if score(x) == best]
        if len(top) == 1 or all(x[1] == top[0][1] for x in top):
            return top[0]
        raise MirError(f'ambiguous type {name} (hint {hint}, crate {crate}): ' + ', '.join(x[0] for x in top))

    def variants(self, enum_name, hint=None, crate=None):
        x = self._pick(self.enums, enum_name, hint, crate)
        return x[1] if x else None

    def discr_values(self, enum_name, hint=None, crate=None):
        """{variant: discriminant value} honouring explicit `Variant = N` (implicit ones continue from the previous value);
        None if some discriminant is not a literal."""
        x = self._pick(self.enums, enum_name, hint, crate)
        if not x:
            return None
        ex = x[2].get('#discr', {})
        out = {}
        cur = -1
        for v in x[1]:
            if v in ex:
                if ex[v] is None:
                    return None
                cur = ex[v]
            else:
                cur += 1
            out[v] = cur
        return out

    def variant_fields(self, enum_name, variant, hint=None, crate=None):
        x = self._pick(self.enums, enum_name, hint, crate)
        return x[2].get(variant) if x else None

    def fields(self, struct_name, hint=None, crate=None):
        x = self._pick(self.structs, struct_name, hint, crate)
        return x[1] if x else None


class Program:
    """All loaded crates + catalogue + name resolution."""

    def __init__(self, crates=('mdk-core', 'mdk-storage-traits', 'mdk-memory-storage')):
        t0 = time.time()
        self.crates = {c: Crate(c) for c in crates}
        self.cat = Catalogue()
        self.load_s = time.time() - t0
        self._meta = {}

    def meta(self, f):
        """(module segments, self simple type, trait simple, method) of a definition."""
        if f.meta is None:
            segs = split_path(f.name)
            selfty = trait = None
            mods = []
            for sg in segs[:-1]:
                if sg.startswith('<impl at '):
                    selfty, trait = impl_header(sg)
                    break
                mods.append(sg)
            f.meta = (mods, selfty, trait, segs[-1])
        return f.meta

    def find(self, crate, contains, closure=None):
        """Locate a definition by crate, method name and (optional) module/self-type substrings: 'module::Type::method'."""
        want = contains.split('::')
        method = want[-1]
        cands = []
        for f in self.crates[crate].by_last.get(method, []):
            mods, selfty, trait, _ = self.meta(f)
            ok = True
            for w in want[:-1]:
                if w not in mods and w != selfty and w != trait:
                    ok = False
            if ok and '{closure' not in f.name.replace(f.short, ''):
                cands.append(f)
        if len(cands) != 1:
            raise MirError(f'function {crate}:{contains}: {len(cands)} candidates ' + ', '.join(c.name for c in cands)[:400])
        return cands[0]

    def closure_of(self, closure_ty):
        for c in self.crates.values():
            f = c.closures.get(closure_ty)
            if f:
                return f
        return None

    def promoted(self, owner, n):
        c = self.crates[owner.crate]
        f = c.promoted.get((owner.name, n))
        if f is None:
            raise MirError(f'promoted[{n}] of {owner.name} not found')
        return f

    def resolve_call(self, callee, cur_crate):
        """Map a call-site path to a definition in the loaded crates, or None (external / generic)."""
        key = (callee, cur_crate)
        if key in self._meta:
            return self._meta[key]
        res = self._resolve(callee, cur_crate)
        self._meta[key] = res
        return res

    def _resolve(self, callee, cur_crate):
        c = callee.strip()
        selfty = trait = None
        crate_hint = None
        if c.startswith('<'):
            # <T as Trait>::method   or   <T>::method
            d = 0
            for i, ch in enumerate(c):
                if ch == '<':
                    d += 1
                elif ch == '>' and c[i - 1] not in '-=':
                    d -= 1
                    if d == 0:
                        break
            inner, rest = c[1:i], c[i + 1:]
            if ' as ' in inner:
                # split at top-level ' as '
                parts = None
                dd = 0
                for k in range(len(inner)):
                    if inner[k] in '<([':
                        dd += 1
                    elif inner[k] in '>)]' and inner[k - 1] not in '-=':
                        dd -= 1
                    elif dd == 0 and inner.startswith(' as ', k):
                        parts = (inner[:k], inner[k + 4:]); break
                if parts:
                    selfty_full, trait_full = parts
                    selfty, trait = simple_type_name(selfty_full), simple_type_name(trait_full)
                    crate_hint = selfty_full
            else:
                selfty = simple_type_name(inner)
            method = last_seg(strip_generics(rest).strip(':'))
            mods = []
        else:
            segs = split_path(c)
            while len(segs) > 1 and segs[-1].startswith('<') and not segs[-1].startswith('<impl'):
                segs.pop()           # trailing turbofish  f::<T>
            method = strip_generics(segs[-1])
            mods = []
            for sg in segs[:-1]:
                m = re.match(r'^<impl (.*)>$', sg)
                if m:
                    h = m.group(1)
                    if ' for ' in h:
                        tr, ty = h.split(' for ', 1)
                        selfty, trait = simple_type_name(ty), simple_type_name(tr)
                    else:
                        selfty = simple_type_name(h)
                else:
                    mods.append(strip_generics(sg))
            if selfty is None and mods and re.match(r'^[A-Z]', mods[-1]):
                selfty = mods.pop()
        if selfty in ('S', 'Storage', 'T', 'Self'):
            return None
        cands = []
        for cr in self.crates.values():
            for f in cr.by_last.get(method, []):
                if f.kind != 'fn':
                    continue
                fm, fs, ft, _ = self.meta(f)
                if '{closure' in f.name and not method.startswith('{closure'):
                    continue
                if selfty is not None and fs != selfty:
                    continue
                if selfty is None and fs is not None:
                    continue
                if trait is not None and ft != trait:
                    continue
                if trait is None and ft is not None and selfty is not None and not c.startswith('<'):
                    # 'Type::method' can also name a trait method through inherent-looking path; keep
                    pass
                # module filter: call-site modules must be a suffix-compatible subset
                usemods = [m for m in mods if m not in ('crate', 'self', 'super')]
                ext = [CRATES[k]['extern'] for k in CRATES]
                if usemods and usemods[0] in ext:
                    if CRATES[cr.name]['extern'] != usemods[0]:
                        continue
                    usemods = usemods[1:]
                elif usemods and cr.name != cur_crate and selfty is None:
                    continue
                if usemods and selfty is None and fm[-len(usemods):] != usemods:
                    continue
                cands.append(f)
        if len(cands) == 1:
            return cands[0]
        if len(cands) > 1:
            # several impls with the same self type name (e.g. groups::Pagination / welcomes::Pagination): use the module path of the call site
            um = [m for m in mods if m not in ('crate', 'self', 'super') and m not in [CRATES[k]['extern'] for k in CRATES]]
            if um:
                narrowed = [f for f in cands if self.meta(f)[0][-len(um):] == um]
                if len(narrowed) == 1:
                    return narrowed[0]
            same = [f for f in cands if f.crate == cur_crate]
            if len(same) == 1:
                return same[0]
            return ('ambiguous', cands)
        return None
