"""Value model of the MIR symbolic executor.

Scalars are z3 bit-vectors / booleans. Aggregates (`Agg`) are concrete-shape trees. `Opaque` is a symbolic value of a
type the executor does not look inside: its children (fields per variant, discriminant) are materialised lazily and
*deterministically from its uid*, so copies of an Opaque stay consistent without sharing mutable state.
References are (cell, path) pairs; containers are concrete-shape Python lists holding symbolic values.
"""
import re
import z3


def int_width(ty):
    ty = ty.strip()
    m = re.match(r'^[iu](8|16|32|64|128)$', ty)
    if m:
        return int(m.group(1))
    if ty in ('usize', 'isize'):
        return 64
    if ty == 'char':
        return 32
    return None


def is_signed(ty):
    return ty.strip().startswith('i') and int_width(ty) is not None


class Ref:
    """Pointer/reference value: a state-independent location handle + path of ('f', idx, ty) / ('v', variant) /
    ('i', k) steps.  loc = ('L', frame_index, local) | ('H', uid) heap pointee of an opaque reference | ('T', n) temp."""
    __slots__ = ('loc', 'path', 'mut')

    def __init__(self, loc, path=(), mut=False):
        self.loc, self.path, self.mut = loc, tuple(path), mut

    def __repr__(self):
        return f'&{self.loc[-1]}{"".join("." + str(p[1]) for p in self.path)}'


class Agg:
    """Concrete-shape aggregate: struct / tuple / enum variant / array / closure."""
    __slots__ = ('kind', 'ty', 'variant', 'fields', 'names')

    def __init__(self, kind, ty, variant, fields, names=None):
        self.kind, self.ty, self.variant, self.fields, self.names = kind, ty, variant, list(fields), names

    def __repr__(self):
        nm = self.variant or self.ty or self.kind
        nm = str(nm).split('::')[-1]
        if not self.fields:
            return nm
        return f'{nm}({", ".join(map(vrepr, self.fields))})'


class Opaque:
    """Symbolic value identified by uid. over: explicit children (overrides); discr: explicit discriminant term."""
    __slots__ = ('uid', 'ty', 'over', 'discr', 'attrs')

    def __init__(self, uid, ty='?', over=None, discr=None, attrs=None):
        self.uid, self.ty = uid, ty
        self.over = dict(over) if over else {}
        self.discr = discr
        self.attrs = dict(attrs) if attrs else {}

    def __repr__(self):
        return f'<{self.uid}>'

    def child(self, variant, idx, ty):
        k = (variant, idx)
        if k in self.over:
            return self.over[k]
        uid = f'{self.uid}.{variant + "." if variant else ""}{idx}'
        return fresh_of_type(uid, ty)

    def discriminant(self):
        if self.discr is not None:
            return self.discr
        return z3.BitVec(self.uid + '#d', 64)


class Tok:
    """Concrete token from a small pool (keys whose equality must be decided, e.g. group ids)."""
    __slots__ = ('pool', 'k')

    def __init__(self, pool, k):
        self.pool, self.k = pool, k

    def __eq__(self, o):
        return isinstance(o, Tok) and (self.pool, self.k) == (o.pool, o.k)

    def __hash__(self):
        return hash((self.pool, self.k))

    def __repr__(self):
        return f'{self.pool}{self.k}'


class SeqV:
    """Vec / VecDeque / slice / array model: concrete length, symbolic elements."""
    __slots__ = ('items', 'ty')

    def __init__(self, items=(), ty='?'):
        self.items, self.ty = list(items), ty

    def __repr__(self):
        return 'Seq[' + ', '.join(map(vrepr, self.items)) + ']'


class MapV:
    """HashMap/BTreeMap/LruCache/HashSet model: association list with decided key equality (insertion order kept)."""
    __slots__ = ('entries', 'ty', 'is_set', 'cap')

    def __init__(self, entries=(), ty='?', is_set=False, cap=None):
        self.entries, self.ty, self.is_set = [list(e) for e in entries], ty, is_set
        self.cap = cap        # LruCache capacity (None = far above the explored sizes): a put of a NEW key beyond it evicts the least recently inserted entry

    def __repr__(self):
        return 'Map{' + ', '.join(f'{vrepr(k)}: {vrepr(v)}' for k, v in self.entries) + '}'


class IterV:
    """Iterator over a snapshot of items (values or Refs); adaptors are applied eagerly by the models."""
    __slots__ = ('items', 'pos', 'kind')

    def __init__(self, items, kind='iter'):
        self.items, self.pos, self.kind = list(items), 0, kind

    def __repr__(self):
        return f'Iter{self.items[self.pos:]}'


class FnItem:
    """zero-sized function item / constructor used as a value (e.g. Error::Storage passed to map_err)."""
    __slots__ = ('path',)

    def __init__(self, path):
        self.path = path

    def __repr__(self):
        return f'fn:{self.path}'


class StrV:
    """String/str value: either concrete text or a symbolic term (uninterpreted function of its origin)."""
    __slots__ = ('text', 'sym')

    def __init__(self, text=None, sym=None):
        self.text, self.sym = text, sym

    def __repr__(self):
        return repr(self.text) if self.text is not None else f'str<{self.sym}>'


def vrepr(v):
    if z3.is_expr(v):
        s = str(z3.simplify(v))
        return s if len(s) < 60 else s[:57] + '...'
    return repr(v)


def fresh_of_type(uid, ty):
    ty = (ty or '?').strip()
    w = int_width(ty)
    if w:
        return z3.BitVec(uid, w)
    if ty == 'bool':
        return z3.Bool(uid)
    if ty == '()':
        return Agg('tuple', '()', None, [])
    return Opaque(uid, ty)


def copy_val(v):
    """value-semantics copy: aggregates are copied, references are shared."""
    if isinstance(v, Agg):
        return Agg(v.kind, v.ty, v.variant, [copy_val(x) for x in v.fields], v.names)
    if isinstance(v, Opaque):
        if not v.over:
            return v
        return Opaque(v.uid, v.ty, {k: copy_val(x) for k, x in v.over.items()}, v.discr, v.attrs)
    if isinstance(v, SeqV):
        return SeqV([copy_val(x) for x in v.items], v.ty)
    if isinstance(v, MapV):
        return MapV([[copy_val(k), copy_val(x)] for k, x in v.entries], v.ty, v.is_set, getattr(v, 'cap', None))
    if isinstance(v, IterV):
        n = IterV(v.items, v.kind); n.pos = v.pos
        return n
    return v


def deep_copy(v):
    """copy of model state (lists / dicts / tuples of values)"""
    if isinstance(v, list):
        return [deep_copy(x) for x in v]
    if isinstance(v, dict):
        return {k: deep_copy(x) for k, x in v.items()}
    if isinstance(v, tuple):
        return tuple(deep_copy(x) for x in v)
    return copy_val(v)
