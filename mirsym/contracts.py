"""Contract models for OpenMLS objects used by obligations (environment assumptions; each is listed in the evidence).

StagedCommit proposal lists are *bounded symbolic sequences*: length 0..K (fork), each element has a symbolic proposal
kind (discriminant of openmls::Proposal) and a symbolic sender.  Contract (OpenMLS):
  update_proposals() yields exactly the Update elements of queued_proposals(), in order, with the same senders.
"""
import re
import z3

from .mirparse import MirError
from .values import Opaque, Agg, Ref, IterV, fresh_of_type, vrepr
from . import models as M

R = re.compile

CONTRACT_TEXT = [
    'OpenMLS: StagedCommit::queued_proposals() is a finite list (explored for lengths 0..K) of proposals with arbitrary kind and sender',
    'OpenMLS: StagedCommit::update_proposals() yields exactly the Update elements of queued_proposals(), in order, same senders',
    'OpenMLS: accessors (update_path_leaf_node, sender, proposal, member_at, epoch, group_id, own_leaf, pending_commit) are pure functions of the object state; '
    'a call taking &mut MlsGroup may change all of them',
]


def _sc_uid(eng, st, v):
    v = M.deref_all(eng, st, v)
    if not isinstance(v, Opaque):
        raise MirError('StagedCommit value expected, got ' + vrepr(v))
    return v.uid


def proposal_lists(eng, st, sc, K):
    """[(state, list)] -- forks on the list length the first time a staged commit's proposals are inspected"""
    props = st.ext.setdefault('props', {})
    if sc in props:
        return [(st, props[sc])]
    n = z3.BitVec(f'{sc}#nprops', 64)
    outs = []
    feas = []
    for k in range(K + 1):
        if eng.feasible(st, n == k):
            feas.append((k, eng._wit))
    update_idx = eng.prog.cat.variants('Proposal', 'openmls::messages::proposals').index('Update')
    nvar = len(eng.prog.cat.variants('Proposal', 'openmls::messages::proposals'))
    for i, (k, wit) in enumerate(feas):
        s2 = st if i == len(feas) - 1 else st.clone()
        eng.assume(s2, n == k); s2.model = wit if s2.model is None else s2.model
        lst = []
        for j in range(k):
            kind = z3.BitVec(f'{sc}.qp[{j}]#kind', 64)
            eng.assume(s2, z3.ULT(kind, nvar))
            lst.append(dict(kind=kind, j=j))
            s2.heap[f'{sc}.qp[{j}].proposal'] = Opaque(f'{sc}.qp[{j}].proposal', 'openmls::prelude::Proposal', discr=kind)
            snd = Opaque(f'{sc}.qp[{j}].sender', 'openmls::framing::Sender')
            M.constrain_new(eng, s2, snd, 'openmls::framing::Sender')
            s2.heap[f'{sc}.qp[{j}].sender'] = snd
        s2.ext.setdefault('props', {})[sc] = lst
        s2.ext['update_idx'] = update_idx
        outs.append((s2, lst))
    return outs


def staged_commit_models(K=2):
    def queued(eng, st, call):
        sc = _sc_uid(eng, st, call.args[0])
        out = []
        for s2, lst in proposal_lists(eng, st, sc, K):
            out.append((s2, IterV([Opaque(f'{sc}.qp[{p["j"]}]', 'QueuedProposal', attrs={'sc': sc, 'j': p['j']}) for p in lst])))
        return out

    def updates(eng, st, call):
        sc = _sc_uid(eng, st, call.args[0])
        out = []
        for s2, lst in proposal_lists(eng, st, sc, K):
            # fork on which elements are Update
            states = [(s2, [])]
            for p in lst:
                nxt = []
                for s3, acc in states:
                    for s4, b in M.bool_cases(eng, s3, p['kind'] == s3.ext['update_idx']):
                        nxt.append((s4, acc + [p['j']] if b else acc))
                states = nxt
            for s3, acc in states:
                out.append((s3, IterV([Opaque(f'{sc}.qup[{j}]', 'QueuedUpdateProposal', attrs={'sc': sc, 'j': j}) for j in acc])))
        return out

    def elem(eng, st, v):
        v = M.deref_all(eng, st, v)
        if not isinstance(v, Opaque) or 'sc' not in v.attrs:
            return None
        return v

    def proposal(eng, st, call):
        e = elem(eng, st, call.args[0])
        if e is None:
            return None
        return [(st, Ref(('H', f'{e.attrs["sc"]}.qp[{e.attrs["j"]}].proposal'), ()))]

    def sender(eng, st, call):
        e = elem(eng, st, call.args[0])
        if e is None:
            return None
        return [(st, Ref(('H', f'{e.attrs["sc"]}.qp[{e.attrs["j"]}].sender'), ()))]

    def update_proposal(eng, st, call):
        e = elem(eng, st, call.args[0])
        if e is None:
            return None
        uid = f'{e.attrs["sc"]}.qp[{e.attrs["j"]}].update'
        if uid not in st.heap:
            st.heap[uid] = Opaque(uid, 'openmls::messages::proposals::UpdateProposal')
        return [(st, Ref(('H', uid), ()))]

    return [
        (R(r'StagedCommit::queued_proposals$'), queued),
        (R(r'StagedCommit::update_proposals$'), updates),
        (R(r'QueuedProposal::proposal$'), proposal),
        (R(r'(QueuedProposal|QueuedUpdateProposal)(::<.*>)?::sender$'), sender),
        (R(r'QueuedUpdateProposal(::<.*>)?::update_proposal$'), update_proposal),
    ]


# accessors of OpenMLS objects that are pure functions of (the current version of) their receiver
PURE_MLS = {'MlsGroup::epoch', 'GroupEpoch::as_u64', 'MlsGroup::group_id', 'member_at', 'own_leaf', 'MlsGroup::own_leaf',
            'StagedCommit::update_path_leaf_node', 'MlsGroup::pending_commit', 'BasicCredential::identity',
            'LeafNode::credential', 'UpdateProposal::leaf_node', 'Timestamp::as_secs', 'RemoveProposal::removed',
            'ProtocolMessage::epoch', 'ProcessedMessage::epoch', 'ProtocolMessage::content_type', 'ProtocolMessage::group_id', 'MDK::storage',
            'ProcessedMessage::credential', 'ProcessedMessage::sender', 'MlsGroup::own_leaf_index', 'own_leaf_index',
            '<GroupId as Into>::into', '<GroupId as From>::from'}


# ---- nostr::UnsignedEvent id handling (contract read from nostr 0.44 src/event/unsigned.rs) -------------------------

NOSTR_CONTRACT = [
    'nostr: UnsignedEvent::id()/ensure_id() return/keep a pre-set id and compute the NIP-01 hash of (pubkey, created_at, kind, tags, content) only when id is None',
    'nostr: UnsignedEvent::verify_id() is Ok iff id is None or id == NIP-01 hash of the fields',
    'NIP-01 hash modelled as an uninterpreted function of the five fields',
]


def nip01_of(eng, st, ev):
    """uninterpreted NIP-01 hash of an UnsignedEvent value (fields 1..5)"""
    from .api import uid_of
    parts = []
    tys = ['nostr::key::PublicKey', 'nostr::Timestamp', 'nostr::Kind', 'nostr::Tags', 'std::string::String']
    for i, t in enumerate(tys, start=1):
        v, _ = eng.child(st, ev, ('f', i, t), None)
        parts.append(uid_of(eng, st, v))
    return Opaque('nip01(' + ','.join(parts) + ')', 'nostr::event::EventId')


def nip01_of_fields(eng, st, pubkey, created_at, kind, tags, content):
    from .api import uid_of
    return Opaque('nip01(' + ','.join(uid_of(eng, st, v) for v in (pubkey, created_at, kind, tags, content)) + ')', 'nostr::event::EventId')


def unsigned_event_models():
    def _id(eng, st, call, want_ret=True):
        a = call.args[0]
        if not isinstance(a, Ref):
            return None
        a, ev = M.base_ref(eng, st, a)
        idv, _ = eng.child(st, ev, ('f', 0, 'std::option::Option<nostr::event::EventId>'), None)
        out = []
        for s2, vn, payload in M.split_enum(eng, st, idv, 'Option'):
            ev2 = eng.read(s2, a.loc, a.path)
            if vn == 'Some':
                out.append((s2, payload if want_ret else M.UNIT()))
            else:
                h = nip01_of(eng, s2, ev2)
                eng.write(s2, a.loc, a.path + (('f', 0, 'std::option::Option<nostr::event::EventId>'),), M.SOME(h))
                out.append((s2, h if want_ret else M.UNIT()))
        from .engine import Event
        for s2, r in out:
            s2.trace.append(Event(call.fn, 'UnsignedEvent::id' if want_ret else 'UnsignedEvent::ensure_id', eng.snapshot_args(s2, call.args), r, len(s2.frames), call.site))
        return out

    def ensure(eng, st, call):
        return _id(eng, st, call, False)

    def verify(eng, st, call):
        a = call.args[0]
        if not isinstance(a, Ref):
            return None
        a, ev = M.base_ref(eng, st, a)
        idv, _ = eng.child(st, ev, ('f', 0, 'std::option::Option<nostr::event::EventId>'), None)
        out = []
        from .engine import Event
        for s2, vn, payload in M.split_enum(eng, st, idv, 'Option'):
            if vn == 'None':
                out.append((s2, M.OK(M.UNIT())))
            else:
                ev2 = eng.read(s2, a.loc, a.path)
                e = M.val_eq(eng, payload, nip01_of(eng, s2, ev2))
                for s3, b in M.bool_cases(eng, s2, e):
                    out.append((s3, M.OK(M.UNIT()) if b else M.ERR(Opaque('InvalidId', 'nostr::event::unsigned::Error'))))
        for s2, r in out:
            s2.trace.append(Event(call.fn, 'UnsignedEvent::verify_id', eng.snapshot_args(s2, call.args), r, len(s2.frames), call.site))
        return out

    return [
        (R(r'UnsignedEvent::id$'), _id),
        (R(r'UnsignedEvent::ensure_id$'), ensure),
        (R(r'UnsignedEvent::verify_id$'), verify),
    ]
