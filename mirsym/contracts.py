"""Contract models for OpenMLS objects used by obligations (environment assumptions; each is listed in the evidence).

StagedCommit proposal lists are *bounded symbolic sequences*: length 0..K (fork), each element has a symbolic proposal
kind (discriminant of openmls::Proposal) and a symbolic sender.  Contract (OpenMLS):
  update_proposals() yields exactly the Update elements of queued_proposals(), in order, with the same senders.
"""
import re
import z3

from .mirparse import MirError
from .values import Opaque, Agg, Ref, IterV, fresh_of_type, vrepr
from . import models as M

R = re.compile

CONTRACT_TEXT = [
    'OpenMLS: StagedCommit::queued_proposals() is a finite list (explored for lengths 0..K) of proposals with arbitrary kind and sender',
    'OpenMLS: StagedCommit::update_proposals() yields exactly the Update elements of queued_proposals(), in order, same senders',
    'OpenMLS: accessors (update_path_leaf_node, sender, proposal, member_at, epoch, group_id, own_leaf, pending_commit) are pure functions of the object state; '
    'a call taking &mut MlsGroup may change all of them',
]


def _sc_uid(eng, st, v):
    v = M.deref_all(eng, st, v)
    if not isinstance(v, Opaque):
        raise MirError('StagedCommit value expected, got ' + vrepr(v))
    return v.uid


def proposal_lists(eng, st, sc, K):
    """[(state, list)] -- forks on the list length the first time a staged commit's proposals are inspected"""
    props = st.ext.setdefault('props', {})
    if sc in props:
        return [(st, props[sc])]
    n = z3.BitVec(f'{sc}#nprops', 64)
    outs = []
    feas = []
    for k in range(K + 1):
        if eng.feasible(st, n == k):
            feas.append((k, eng._wit))
    update_idx = eng.prog.cat.variants('Proposal', 'openmls::messages::proposals').index('Update')
    nvar = len(eng.prog.cat.variants('Proposal', 'openmls::messages::proposals'))
    for i, (k, wit) in enumerate(feas):
        s2 = st if i == len(feas) - 1 else st.clone()
        eng.assume(s2, n == k); s2.model = wit if s2.model is None else s2.model
        lst = []
        for j in range(k):
            kind = z3.BitVec(f'{sc}.qp[{j}]#kind', 64)
            eng.assume(s2, z3.ULT(kind, nvar))
            lst.append(dict(kind=kind, j=j))
            s2.heap[f'{sc}.qp[{j}].proposal'] = Opaque(f'{sc}.qp[{j}].proposal', 'openmls::prelude::Proposal', discr=kind)
            snd = Opaque(f'{sc}.qp[{j}].sender', 'openmls::framing::Sender')
            M.constrain_new(eng, s2, snd, 'openmls::framing::Sender')
            s2.heap[f'{sc}.qp[{j}].sender'] = snd
        s2.ext.setdefault('props', {})[sc] = lst
        s2.ext['update_idx'] = update_idx
        outs.append((s2, lst))
    return outs


def staged_commit_models(K=2):
    def queued(eng, st, call):
        sc = _sc_uid(eng, st, call.args[0])
        out = []
        for s2, lst in proposal_lists(eng, st, sc, K):
            out.append((s2, IterV([Opaque(f'{sc}.qp[{p["j"]}]', 'QueuedProposal', attrs={'sc': sc, 'j': p['j']}) for p in lst])))
        return out

    def updates(eng, st, call):
        sc = _sc_uid(eng, st, call.args[0])
        out = []
        for s2, lst in proposal_lists(eng, st, sc, K):
            # fork on which elements are Update
            states = [(s2, [])]
            for p in lst:
                nxt = []
                for s3, acc in states:
                    for s4, b in M.bool_cases(eng, s3, p['kind'] == s3.ext['update_idx']):
                        nxt.append((s4, acc + [p['j']] if b else acc))
                states = nxt
            for s3, acc in states:
                out.append((s3, IterV([Opaque(f'{sc}.qup[{j}]', 'QueuedUpdateProposal', attrs={'sc': sc, 'j': j}) for j in acc])))
        return out

    def elem(eng, st, v):
        v = M.deref_all(eng, st, v)
        if not isinstance(v, Opaque) or 'sc' not in v.attrs:
            return None
        return v

    def proposal(eng, st, call):
        e = elem(eng, st, call.args[0])
        if e is None:
            return None
        return [(st, Ref(('H', f'{e.attrs["sc"]}.qp[{e.attrs["j"]}].proposal'), ()))]

    def sender(eng, st, call):
        e = elem(eng, st, call.args[0])
        if e is None:
            return None
        return [(st, Ref(('H', f'{e.attrs["sc"]}.qp[{e.attrs["j"]}].sender'), ()))]

    def update_proposal(eng, st, call):
        e = elem(eng, st, call.args[0])
        if e is None:
            return None
        uid = f'{e.attrs["sc"]}.qp[{e.attrs["j"]}].update'
        if uid not in st.heap:
            st.heap[uid] = Opaque(uid, 'openmls::messages::proposals::UpdateProposal')
        return [(st, Ref(('H', uid), ()))]

    return [
        (R(r'StagedCommit::queued_proposals$'), queued),
        (R(r'StagedCommit::update_proposals$'), updates),
        (R(r'QueuedProposal::proposal$'), proposal),
        (R(r'(QueuedProposal|QueuedUpdateProposal)(::<.*>)?::sender$'), sender),
        (R(r'QueuedUpdateProposal(::<.*>)?::update_proposal$'), update_proposal),
    ]


# accessors of OpenMLS objects that are pure functions of (the current version of) their receiver
PURE_MLS = {'MlsGroup::epoch', 'GroupEpoch::as_u64', 'MlsGroup::group_id', 'member_at', 'own_leaf', 'MlsGroup::own_leaf',
            'StagedCommit::update_path_leaf_node', 'MlsGroup::pending_commit', 'BasicCredential::identity',
            'LeafNode::credential', 'UpdateProposal::leaf_node', 'Timestamp::as_secs', 'RemoveProposal::removed',
            'ProtocolMessage::epoch', 'ProtocolMessage::content_type', 'ProtocolMessage::group_id', 'MDK::storage',
            'ProcessedMessage::credential', 'ProcessedMessage::sender', 'MlsGroup::own_leaf_index', 'own_leaf_index',
            '<GroupId as Into>::into', '<GroupId as From>::from'}
