"""Obligation-writing helpers on top of the MIR engine."""
import re, time, json, os
import z3

from vlib.common import Result, VERIF, HOLDS, BROKEN
from .mirparse import Program, MirError, last_seg, strip_generics
from .engine import Engine, State, Path, Event, short_name
from .values import Opaque, Agg, Ref, SeqV, MapV, IterV, StrV, Tok, FnItem, vrepr, fresh_of_type
from . import models as M

_PROG = {}


def program(crates=('mdk-core', 'mdk-storage-traits')):
    key = tuple(sorted(crates))
    if key not in _PROG:
        # reuse already loaded crates
        _PROG[key] = Program(key)
    return _PROG[key]


# ---- classification of trace events -------------------------------------------------------------------------

# storage-trait calls that change persistent MDK state
STORAGE_WRITES = ('save_group', 'save_message', 'save_processed_message', 'replace_group_relays', 'save_group_exporter_secret',
                  'save_welcome', 'save_processed_welcome', 'invalidate_messages_after_epoch',
                  'invalidate_processed_messages_after_epoch', 'mark_processed_message_retryable',
                  'create_group_snapshot', 'rollback_group_to_snapshot', 'release_group_snapshot', 'prune_expired_snapshots',
                  'delete_', 'update_group_exporter_secret')
# OpenMLS calls that change the persisted MLS group state
MLS_MUTATORS = ('merge_staged_commit', 'merge_pending_commit', 'store_pending_proposal', 'commit_to_pending_proposals',
                'clear_pending_commit', 'clear_pending_proposals', 'add_members', 'remove_members', 'self_update',
                'update_group_context_extensions', 'leave_group', 'propose_', 'MlsGroup::new', 'StagedWelcome::into_group',
                'into_group', 'MlsGroup::create_message', 'MlsGroup::process_message', 'delete_group', 'MlsGroup::load')
# MDK-level operations (when left uninterpreted / summarised)
MDK_EFFECTS = ('save_message_record', 'save_group_record', 'save_processed_message_record', 'record_failure', 'mark_processed',
               'sync_group_metadata_from_mls', 'EpochSnapshotManager::create_snapshot', 'EpochSnapshotManager::rollback_to_epoch',
               'handle_local_member_eviction', 'fail_unprocessable')


def ev_is(e, *names):
    s = e.short
    f = e.fn
    for n in names:
        if n.endswith('_') or n.endswith('::'):
            if n in s or n in f:
                return True
        elif s == n or s.endswith('::' + n) or re.search(r'(::|>::)' + re.escape(n) + r'(::<.*>)?$', f):
            return True
    return False


def is_write(e):
    return ev_is(e, *STORAGE_WRITES) or ev_is(e, *MLS_MUTATORS) or ev_is(e, *MDK_EFFECTS)


def env_fault(ob, p):
    """does this path contain a storage-trait call that returned Err (an environment fault, not an input-dependent refusal)?"""
    for e in p.trace:
        if re.match(r'^<(S|Storage) as ', e.fn) and isinstance(e.ret, Opaque) and M.enum_kind(e.ret) == 'Result':
            if ob.eng.prove(p, e.ret.discriminant() == 1)[0]:
                return e
    return None


def vname(v):
    """variant name of an enum value (Agg) or None"""
    if isinstance(v, Agg) and v.variant:
        return last_seg(v.variant)
    return None


def ret_shape(v, depth=2):
    """('Ok', 'Unprocessable') / ('Err', 'CommitFromNonAdmin') / ('Err', '?') / ('?',)"""
    out = []
    while depth > 0:
        n = vname(v)
        if n is None:
            out.append('?' if not isinstance(v, Opaque) else '?' + v.uid.split('.')[0].split('#')[0])
            break
        out.append(n)
        if not v.fields:
            break
        v = v.fields[0]
        depth -= 1
    return tuple(out)


def deref(eng, st, v):
    return M.deref_all(eng, st, v)


def uid_of(eng, st, v):
    v = M.deref_all(eng, st, v) if isinstance(v, Ref) else v
    if isinstance(v, Opaque):
        return v.uid
    if z3.is_expr(v):
        return str(v)
    return vrepr(v)


def derived_from(eng, st, v, ev_or_uid):
    """is the (symbolic) value v a projection of the given event's result / uid?  (dataflow by naming)"""
    u = uid_of(eng, st, v)
    base = ev_or_uid if isinstance(ev_or_uid, str) else uid_of(eng, st, ev_or_uid.ret)
    return u == base or u.startswith(base + '.') or ('(' + base) in u or (',' + base) in u


class Ob:
    """One obligation = one Result + one Engine; failures are recorded with stable role-level keys."""

    def __init__(self, oid, title, crates=('mdk-core', 'mdk-storage-traits'), **engine_opts):
        self.r = Result(oid, 'mirsym', title)
        self.t0 = time.time()
        self.prog = program(crates)
        self.opts = engine_opts
        self.eng = Engine(self.prog, **engine_opts)
        self.checked = 0
        self._keys = set()

    def new_engine(self, **opts):
        o = dict(self.opts); o.update(opts)
        self._absorb()
        self.eng = Engine(self.prog, **o)
        return self.eng

    def _absorb(self):
        e = self.eng
        self.r.queries += e.queries
        self.r.solver_s += e.solver_s
        self.r.paths += e.paths_done
        for f in e.functions_encoded:
            if f not in self.r.functions:
                self.r.functions.append(f)
        e.queries = 0; e.solver_s = 0.0; e.paths_done = 0

    def fn(self, crate, spec):
        return self.prog.find(crate, spec)

    def explore(self, f, args, st=None, split_result=True):
        paths = self.eng.explore(f, args, st)
        cuts = [p for p in paths if p.kind == 'cut']
        if cuts:
            self.r.broken(f'{f.short}: {len(cuts)} path(s) hit the loop bound ({cuts[0].msg}) -- unwinding assertion')
        if split_result:
            # a function that returns the Result of its last call unchanged (`f(x)` in tail position instead of `f(x)?; Ok(())`) yields ONE path with a symbolic
            # Result: it is case-split into its Ok and Err halves here, so obligations see the same two paths whichever of the two styles the source uses
            from .engine import Path
            from . import models as _M
            out = []
            for p in paths:
                if p.kind == 'return' and isinstance(p.ret, Opaque) and _M.enum_kind(p.ret) == 'Result':
                    for s2, n, payload in _M.split_enum(self.eng, p.st, p.ret, 'Result'):
                        out.append(Path(s2, 'return', Agg('enum', 'Result', f'Result::{n}', [payload] if payload is not None else []), None))
                else:
                    out.append(p)
            paths = out
        return paths

    def require(self, cond, key, what, path=None, detail=None):
        """record a failure unless cond (a Python bool) holds"""
        self.checked += 1
        if cond:
            return True
        self._fail(key, what, path, detail)
        return False

    def prove(self, path, claim, key, what):
        """solver: pc => claim on this path"""
        self.checked += 1
        ok, model = self.eng.prove(path, claim)
        if not ok:
            self._fail(key, what, path, {'model': str(model)[:1500]})
        return ok

    def prove_all(self, path, claims):
        """claims: [(z3 claim, key, what)] -- one solver query for the conjunction; on failure each claim is re-checked to name the culprit"""
        if not claims:
            return True
        self.checked += len(claims)
        ok, model = self.eng.prove(path, z3.And([c for c, _, _ in claims]))
        if ok:
            return True
        for c, key, what in claims:
            ok1, model = self.eng.prove(path, c)
            if not ok1:
                self._fail(key, what, path, {'model': str(model)[:1500]})
        return False

    def _fail(self, key, what, path, detail):
        if key in self._keys:
            return
        self._keys.add(key)
        d = dict(detail or {})
        if path is not None:
            d['path'] = describe_path(self.eng, path)
        rp = self._write_replay(key, what, d)
        self.r.fail(key, what, replay=rp, detail=None)

    def _write_replay(self, key, what, d):
        dd = os.path.join(VERIF, 'replays', 'out', 'mirsym')
        os.makedirs(dd, exist_ok=True)
        p = os.path.join(dd, re.sub(r'[^A-Za-z0-9_.-]', '_', key) + '.json')
        with open(p, 'w') as fh:
            json.dump(dict(key=key, what=what, **d), fh, indent=1, default=str)
        return p

    def sample(self, s):
        if len(self.r.samples) < 4:
            self.r.samples.append(s)

    def done(self, cases=None):
        self._absorb()
        self.r.cases = cases if cases is not None else self.checked
        self.r.wall_s = time.time() - self.t0
        return self.r


class StatePath:
    """a state wrapped so that prove()/describe_path() accept it like an explored Path"""
    def __init__(self, st, ret=None):
        self.st, self.pc, self.trace, self.kind, self.ret, self.msg = st, st.pc, st.trace, 'state', ret, None


def describe_path(eng, p):
    """A path witness: which environment call returned what, in order, plus the final result."""
    steps = []
    for e in p.trace:
        steps.append(f'{e.short} -> {vrepr(e.ret)}')
    m = eng.model(p.pc)
    choices = {}
    if m is not None:
        for d in m.decls():
            nm = d.name()
            if nm.endswith('#d') or nm.endswith('#len') or 'kind' in nm:
                choices[nm] = str(m[d])
    return dict(kind=p.kind, result=vrepr(p.ret) if p.kind != 'panic' else p.msg, calls=steps[:200],
                path_condition=[str(c)[:200] for c in p.pc[:80]], environment_choices=choices)


def guard(ob_fn):
    """run an obligation builder; machinery exceptions make the obligation BROKEN (exit 2), never a pass."""
    def w(*a, **k):
        try:
            return ob_fn(*a, **k)
        except MirError as e:
            r = Result(getattr(ob_fn, 'oid', ob_fn.__name__.upper()), 'mirsym', ob_fn.__doc__ or ob_fn.__name__)
            r.broken(f'MIR engine: {e}')
            return r
        except Exception as e:
            import traceback
            r = Result(getattr(ob_fn, 'oid', ob_fn.__name__.upper()), 'mirsym', ob_fn.__doc__ or ob_fn.__name__)
            tb = traceback.format_exc().strip().splitlines()
            r.broken(f'obligation code raised {type(e).__name__}: {e} ({tb[-3].strip() if len(tb) > 2 else ""})')
            return r
    w.__name__ = ob_fn.__name__
    return w
