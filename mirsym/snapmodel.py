"""E3c harness pieces for crates/mdk-core/src/epoch_snapshots.rs: concrete-shape manager state, a recording stub storage
(MdkStorageProvider snapshot methods), and exact models of the string operations on snapshot names.

Snapshot names are modelled as the injective term  snap(<group>, <epoch>, <commit id>)  -- the real name is
"snap_{hex(group)}_{epoch}_{hex(id)}"; injectivity of that format and the parser round trip are C11-O1.
Event ids are 256-bit vectors; `to_hex(a) < to_hex(b)` is modelled as unsigned a < b (lower-case fixed-width hex is
order preserving; assumption validated natively, see DESIGN.md).
"""
import re
import z3

from .mirparse import MirError
from .values import Opaque, Agg, Ref, SeqV, MapV, IterV, StrV, Tok, vrepr, copy_val
from . import models as M

R = re.compile

ASSUMPTIONS = [
    'snapshot name = injective term snap(group, epoch, commit id) (format!/hex are not executed; round trip is C11-O1)',
    'EventId::to_hex(a) < EventId::to_hex(b)  <=>  a < b as unsigned 256-bit values (lower-case fixed-width hex preserves order)',
    'stub storage: create/rollback/release succeed (faults are explored separately), list_group_snapshots returns the live snapshots of the group oldest first',
    'Instant::now() is irrelevant to every decision (value never read)',
]


class Name:
    """snapshot name term"""
    def __init__(self, gid, epoch, cid):
        self.gid, self.epoch, self.cid = gid, epoch, cid

    def __repr__(self):
        return f'snap({vrepr(self.gid)},{vrepr(self.epoch)},{vrepr(self.cid)})'


def name_eq(eng, a, b):
    return z3.And(M.val_eq(eng, a.gid, b.gid), a.epoch == b.epoch, a.cid == b.cid)


def event_id(bv):
    return Agg('struct', 'nostr::event::EventId', None, [bv])


def id_bv(v):
    if isinstance(v, Agg) and v.fields and z3.is_bv(v.fields[0]):
        return v.fields[0]
    raise MirError(f'EventId value expected: {vrepr(v)}')


def new_manager(st, retention):
    """EpochSnapshotManager { inner: Mutex<Inner { snapshots: HashMap, hydrated_groups: HashSet }>, retention_count }"""
    inner = Agg('struct', 'EpochSnapshotManagerInner', None, [MapV([], 'HashMap'), MapV([], 'HashSet', True)])
    mgr = Agg('struct', 'EpochSnapshotManager', None, [Agg('struct', 'Mutex', None, [inner]), retention])
    return Ref(st.temp(mgr), ())


def queue_of(eng, st, mgr_ref, gid):
    mgr = eng.read(st, mgr_ref.loc, mgr_ref.path)
    m = mgr.fields[0].fields[0].fields[0]
    for k, v in m.entries:
        if z3.is_true(z3.simplify(M.val_eq(eng, k, gid))):
            return v.items
    return []


def snap_fields(s):
    """EpochSnapshot Agg -> dict"""
    names = s.names or ['group_id', 'epoch', 'applied_commit_id', 'applied_commit_ts', 'created_at', 'snapshot_name']
    return {n: s.fields[i] for i, n in enumerate(names)}


def storage_models(persistent=False, fail=None):
    """stub MdkStorageProvider. st.ext['live'] = list of [gid, Name, seq]; st.ext['log'] = list of (op, gid, Name)"""
    def live(st):
        return st.ext.setdefault('live', [])

    def log(st, *x):
        st.ext.setdefault('log', []).append(tuple(x))

    def backend(eng, st, call):
        return [(st, Opaque('backend', 'mdk_storage_traits::Backend'))]

    def is_persistent(eng, st, call):
        return [(st, z3.BoolVal(persistent))]

    def name_of(eng, st, v):
        v = M.deref_all(eng, st, v)
        if isinstance(v, StrV) and isinstance(v.sym, Name):
            return v.sym
        raise MirError(f'snapshot name term expected, got {vrepr(v)}')

    def create(eng, st, call):
        gid = M.deref_all(eng, st, call.args[1]); nm = name_of(eng, st, call.args[2])
        if fail == 'create':
            log(st, 'create-failed', gid, nm)
            return [(st, M.ERR(Opaque('storage_error', 'MdkStorageError')))]
        lv = live(st)
        # re-taking under an existing name replaces
        outs = [(st, False)]
        st.ext['live'] = [e for e in lv if not z3.is_true(z3.simplify(name_eq(eng, e[1], nm)))]
        n = st.ext.get('seq', 0); st.ext['seq'] = n + 1
        st.ext['live'].append([gid, nm, n])
        log(st, 'create', gid, nm)
        return [(st, M.OK(M.UNIT()))]

    def remove_named(eng, st, gid, nm, op):
        lv = live(st)
        keep = []
        hit = False
        for e in lv:
            eq = z3.simplify(z3.And(M.val_eq(eng, e[0], gid), name_eq(eng, e[1], nm)))
            if z3.is_true(eq):
                hit = True
            elif z3.is_false(eq):
                keep.append(e)
            else:
                if eng.prove(st.pc, eq)[0]:
                    hit = True
                elif eng.prove(st.pc, z3.Not(eq))[0]:
                    keep.append(e)
                else:
                    raise MirError('undecided snapshot-name equality in the stub storage (use distinct commit ids per step)')
        st.ext['live'] = keep
        log(st, op if hit else op + '-missing', gid, nm)
        return hit

    def rollback(eng, st, call):
        gid = M.deref_all(eng, st, call.args[1]); nm = name_of(eng, st, call.args[2])
        if fail == 'rollback':
            log(st, 'rollback-failed', gid, nm)
            return [(st, M.ERR(Opaque('storage_error', 'MdkStorageError')))]
        hit = remove_named(eng, st, gid, nm, 'rollback')
        return [(st, M.OK(M.UNIT()) if hit else M.ERR(Opaque('not_found', 'MdkStorageError')))]

    def release(eng, st, call):
        gid = M.deref_all(eng, st, call.args[1]); nm = name_of(eng, st, call.args[2])
        remove_named(eng, st, gid, nm, 'release')
        return [(st, M.OK(M.UNIT()))]

    def list_snaps(eng, st, call):
        gid = M.deref_all(eng, st, call.args[1])
        items = [Agg('tuple', None, None, [StrV(sym=e[1]), z3.BitVecVal(1000 + e[2], 64)]) for e in sorted(live(st), key=lambda e: e[2])
                 if z3.is_true(z3.simplify(M.val_eq(eng, e[0], gid)))]
        log(st, 'list', gid, None)
        return [(st, M.OK(SeqV(items, 'Vec')))]

    # ---- names and hex strings
    def fmt(eng, st, call):
        # format!("snap_{}_{}_{}", hex(group), epoch, id.to_hex()) inside create_snapshot: read the function's own parameters
        fr = st.frames[-1]
        if fr.func.short != 'create_snapshot':
            return [(st, StrV(sym=st.fresh('fmt')))]
        gid = M.deref_all(eng, st, fr.cells['_3'])
        epoch = fr.cells['_4']
        cid = id_bv(M.deref_all(eng, st, fr.cells['_5']))
        return [(st, StrV(sym=Name(gid, epoch, cid)))]

    def to_hex(eng, st, call):
        v = M.deref_all(eng, st, call.args[0])
        return [(st, StrV(sym=('hex', id_bv(v))))]

    def str_lt(eng, st, call):
        a, b = M.deref_all(eng, st, call.args[0]), M.deref_all(eng, st, call.args[1])
        if isinstance(a, StrV) and isinstance(b, StrV) and isinstance(a.sym, tuple) and isinstance(b.sym, tuple) and a.sym[0] == b.sym[0] == 'hex':
            name = M.method_name(call.fn)
            x, y = a.sym[1], b.sym[1]
            return [(st, {'lt': z3.ULT(x, y), 'le': z3.ULE(x, y), 'gt': z3.UGT(x, y), 'ge': z3.UGE(x, y)}[name])]
        return None

    def hexenc(eng, st, call):
        return [(st, StrV(sym=('hexenc', M._ident(M.deref_all(eng, st, call.args[0])))))]

    # ---- parsing a name back (hydration)
    def split(eng, st, call):
        s = M.deref_all(eng, st, call.args[0])
        if isinstance(s, StrV) and isinstance(s.sym, Name):
            n = s.sym
            parts = [StrV(text='snap'), StrV(sym=('hexgid', n.gid)), StrV(sym=('dec', n.epoch)), StrV(sym=('hex', n.cid))]
            return [(st, IterV([Ref(st.temp(p), ()) for p in parts]))]
        if isinstance(s, StrV) and s.text is not None:
            return [(st, IterV([Ref(st.temp(StrV(text=p)), ()) for p in s.text.split('_')]))]
        return None

    def parse_u64(eng, st, call):
        s = M.deref_all(eng, st, call.args[0])
        if isinstance(s, StrV) and isinstance(s.sym, tuple) and s.sym[0] == 'dec':
            return [(st, M.OK(s.sym[1]))]
        if isinstance(s, StrV) and s.text is not None:
            return [(st, M.OK(z3.BitVecVal(int(s.text), 64)) if s.text.isdigit() and int(s.text) < 2 ** 64 else M.ERR(Opaque('ParseIntError', 'ParseIntError')))]
        return [(st, M.ERR(Opaque('ParseIntError', 'ParseIntError')))]

    def parse_id(eng, st, call):
        s = M.deref_all(eng, st, call.args[0])
        if isinstance(s, StrV) and isinstance(s.sym, tuple) and s.sym[0] == 'hex':
            return [(st, M.OK(event_id(s.sym[1])))]
        return [(st, M.ERR(Opaque('EventIdError', 'nostr::event::Error')))]

    def to_string(eng, st, call):
        return [(st, copy_val(M.deref_all(eng, st, call.args[0])))]

    def now(eng, st, call):
        return [(st, Opaque('instant', 'std::time::Instant'))]

    return [
        (R(r'<S as MdkStorageProvider>::backend$'), backend),
        (R(r'Backend::is_persistent$'), is_persistent),
        (R(r'<S as MdkStorageProvider>::create_group_snapshot$'), create),
        (R(r'<S as MdkStorageProvider>::rollback_group_to_snapshot$'), rollback),
        (R(r'<S as MdkStorageProvider>::release_group_snapshot$'), release),
        (R(r'<S as MdkStorageProvider>::list_group_snapshots$'), list_snaps),
        (R(r'^(alloc::fmt::|std::fmt::)?format$'), fmt),
        (R(r'EventId::to_hex$'), to_hex),
        (R(r'^<(std::string::)?String as PartialOrd>::(lt|le|gt|ge)$'), str_lt),
        (R(r'^hex::encode'), hexenc),
        (R(r'str>::split::<char>$'), split),
        (R(r'str>::parse::<u64>$'), parse_u64),
        (R(r'EventId::parse$'), parse_id),
        (R(r'^<str as ToString>::to_string$'), to_string),
        (R(r'^Instant::now$|time::Instant::now$'), now),
    ]
