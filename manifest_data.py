"""Source of MANIFEST.json (run ./tools_manifest.py after editing)."""
MIR_NOTE = ('Bounded symbolic execution, not a proof. Trusted: rustc nightly MIR dump of the working tree, the mirsym interpreter and its std models, '
            'the OpenMLS/storage environment contracts listed in the evidence, z3. Callee results are nondeterministic; loops and symbolic lists are '
            'unrolled to the stated bounds with an unwinding check (a path hitting the bound makes the check BROKEN, not passing).')
ENGINES = [
    dict(name='sqlsym', path='/verif/sqlsym', serves_properties=['C01', 'C02', 'C04', 'C06', 'C07', 'C08', 'C09', 'C10', 'C11', 'C12', 'C16', 'C17', 'C18', 'C20'],
         kind_free_text='E4: SQL programs of the SQLite backend (extracted from the sources with the schema of migrations/*.sql) as relational SMT over symbolic rows, decided by z3'),
    dict(name='mirsym', path='/verif/mirsym', serves_properties=['C01', 'C02', 'C04', 'C05', 'C06', 'C07', 'C08', 'C09', 'C10', 'C11', 'C12', 'C15', 'C16', 'C17', 'C18', 'C20'],
         kind_free_text='E3/E3c: symbolic execution (z3) of the textual MIR of the repository crates, regenerated from the working tree on every run'),
    dict(name='kani-direct', path='/verif/kani/direct', serves_properties=['C18', 'C15'],
         kind_free_text='E1: Kani 0.68 / CBMC 6.11 harnesses (kani::any inputs, unwind bounds, cover! vacuity witnesses) over the compiled real code'),
]
NOTES = ('Solver-based checking of the real code: CBMC via Kani over compiled Rust; z3 over encodings regenerated on every run from the '
         "repository's MIR and SQL. Every claim is bounded; see DESIGN.md. Exit 2 = broken/inconclusive machinery, never a VIOLATION.")
PENDING = 'check not built yet in this revision of /verif (work in progress; see DESIGN.md section 5 for the planned obligations)'
CHECKS = [
    dict(id='C06', engine='mirsym', design_ref='DESIGN.md section 5, C06',
         technique='symbolic execution of the compiler MIR with z3: panic-freedom of every parser of untrusted bytes over symbolic buffers (lengths as symbolic variables), effect-freedom of refusing paths by trace assertions',
         text='Every path of the parsers of untrusted input (extension TLV readers, tag/imeta parsers, snapshot-name and ciphersuite/extension tag validators, content decoders; list in the evidence) is explored with '
              'symbolic lengths and contents and z3 shows no panic (index, slice, split_at, arithmetic overflow, unwrap) is reachable; every refusing path of process_message is shown to perform no '
              'state-changing call except the failure record; the memory pagination arithmetic cannot overflow; refused welcomes leave no state (shared with C16); a refused memory save_group is effect-free. '
              'O6/O7 (no input-dependent storage refusal after an earlier effect of process_welcome / process_commit) fail on the current tree: 10 known findings with native replays.',
         note=MIR_NOTE + ' Bounds: lists/tags <= 3 elements, slices modelled with symbolic length and may-panic index models. Not covered: panics inside OpenMLS / nostr / serde (library code is an uninterpreted call), allocation failure, stack exhaustion.'),
    dict(id='C15', engine='mirsym', design_ref='DESIGN.md section 5, C15',
         technique='symbolic execution of the compiler MIR with z3 and codec contract models (serialise/deserialise as inverse uninterpreted pairs); Kani/CBMC round trip of the raw extension in the thorough tier',
         text='Along the real from_raw/to_raw, deserialize_bytes and key-package tag code, z3 shows field-for-field round trip of the group-data extension (every field of the decoded value equals the '
              'field that was encoded, version included), strictness (wrong version, wrong fixed lengths, trailing bytes and invalid UTF-8/relay/pubkey are refused on every path), and that a key-package '
              'event is accepted only if its i tag equals the KeyPackageRef computed from the content.',
         note=MIR_NOTE + ' The TLS byte layout of tls_codec-derived impls is a contract (decode(encode(x)) == x and encode(decode(b)) == b for accepted b), not executed; the hand-written length checks and field '
              'conversions are executed. Thorough tier adds a CBMC round trip of the optional image fields with concrete sizes.'),
    dict(id='C17', engine='mirsym', design_ref='DESIGN.md section 5, C17',
         technique='SMT (z3 sequence theory) over the byte-string builders taken from the MIR of the media key-derivation code; symbolic execution of sender/receiver dataflow; SMT on the SQL secret lookup',
         text='z3 shows the HKDF context and AEAD associated data built by the real code are injective in (version, file hash, canonical MIME type, file name) given the 0x00 separators and the canonicalisation '
              'the code applies (so two different files/contexts never share a key or AAD by construction), that the sender and receiver derive from the same fields the imeta tag carries, and that the '
              'exporter-secret lookup is keyed by (group, epoch) exactly; the receiver records the announcing message under the epoch the message was created in (dispatcher and store, O6 + O12).',
         note=MIR_NOTE + ' Not covered: HKDF/ChaCha20-Poly1305 themselves (cryptographic assumptions), MLS exporter separation between epochs (OpenMLS), nonce randomness (OS RNG).'),
    dict(id='C10', engine='sqlsym', design_ref='DESIGN.md section 5, C10',
         technique='SMT equivalence (z3) between SQL extracted from the SQLite backend (ORDER BY, LIMIT/OFFSET parameter casts, WHERE predicates) and the reference model of the storage contract, for all 64-bit values',
         text='z3 shows, for all rows and parameters, that the ORDER BY clauses equal the documented total orders, that LIMIT/OFFSET with the Rust-side casts equals slice pagination for every limit '
              'and usize offset, that the invalidation / retry / pending-welcome predicates select exactly the contract\'s records (NULL epochs included), that every DO UPDATE SET yields the new value, '
              'and that the Rust-side parameter conversions of the save_* methods are lossless (bit-vector models of the casts composed with rusqlite ToSql/FromSql); the memory-side kernels are symbolic executions of the real mdk-memory-storage MIR.',
         note='Partial: the places where the two backends implement the same function twice. Timestamps < 2^63 (above that rusqlite refuses the value). Column coverage is a catalogue cross-check. '
              'A differential run over arbitrary operation sequences needs the real SQLite engine and is not claimed. Memory-side kernels (listing/pagination, invalidation, rollback with routing index: O5-O7) are mirsym obligations over the real mdk-memory-storage MIR with <= 2 records.'),
    dict(id='C11', engine='mirsym', design_ref='DESIGN.md section 5, C11',
         technique='symbolic execution of the compiler MIR with container models: pre-restart vs hydrated snapshot manager compared on symbolic queries by z3',
         text='A manager re-created over the same persistent stub storage is hydrated through the real ensure_hydrated/parse_snapshot_name MIR and compared with the original on every symbolic '
              'is_better_candidate query and on the tracked set. One known finding (commit timestamp not persisted) is listed in known_findings.txt.',
         note=MIR_NOTE + ' Partial: only the snapshot manager\'s restart behaviour. That SQLite persists everything else is behind FFI and not claimed.'),
    dict(id='C20', engine='mirsym', design_ref='DESIGN.md section 5, C20',
         technique='symbolic execution of the compiler MIR with container models against a reference model (z3 decides equality after every step); SMT on the SQL prune predicate',
         text='For every sequence of create / rollback / restart steps up to the bound, with symbolic retention, epochs, timestamps and ids, the real snapshot-manager code is shown equal to a '
              '6-line reference model after every step (queue bounded by retention, most recent kept, stored snapshots in step, rollback discards the suffix); the SQLite prune predicate and listing order and the start-up pruning call are checked.',
         note=MIR_NOTE + ' Bounds: <= 3 (quick) / 4 (thorough) steps, retention <= 3 / 5, one group. Stub storage in place of the backends (their snapshot primitives are C09).'),
    dict(id='C09', engine='sqlsym', design_ref='DESIGN.md section 5, C09',
         technique='relational SMT (z3) over the SQL program and schema extracted from the SQLite backend: symbolic rows, foreign-key cascade closure, frame-condition queries; native replay on the real backend',
         text='The statement list of restore_group_from_snapshot is executed symbolically over every table of the schema (symbolic row presence, owning group, snapshot name, '
              'ON DELETE CASCADE closure) and z3 decides per table that rows of other groups, of non-snapshotted tables and of other snapshots survive, that the group ends '
              'with exactly the snapshot rows and that the snapshot is consumed; column coverage of snapshot/restore is cross-checked against the migrations; snapshot, release '
              'and prune are shown to touch only the snapshot table.',
         note='Bounded: 2 candidate rows per table, target group vs other, target snapshot name vs other. Assumes the group existed at snapshot time and SQLite enforces the declared '
              'foreign keys. Column-level fidelity is a catalogue cross-check, not a solver query. The memory backend half (O4) drives the real snapshot/rollback MIR of mdk-memory-storage over container models (<= 2 groups, <= 2 records per map).'),
    dict(id='C12', engine='sqlsym', design_ref='DESIGN.md section 5, C12',
         technique='SMT (z3) over the extracted SQL statement lists with a symbolic crash index and SQLite transaction/savepoint semantics; symbolic execution of the MIR of merge_pending_commit for the retry clause',
         text='For snapshot creation, rollback and relay replacement z3 shows that for every crash point (symbolic statement index) the persisted effects are all or none, i.e. every '
              'state-changing statement lies inside the BEGIN..COMMIT / SAVEPOINT..RELEASE bracket, and that the error path rolls back.',
         note='Partial. Trusted: SQLite atomic commit. O2 (mirsym over the MIR) covers one instance of the main clause: the retry of merge_pending_commit after a crash between the OpenMLS merge '
              'and the record update re-synchronises the stored record. The main clause in general (re-processing any interrupted event converges) spans OpenMLS writes and ~80 auto-committed statements and is NOT covered.'),
    dict(id='C01', engine='mirsym', design_ref='DESIGN.md section 5, C01',
         technique='symbolic execution of the compiler MIR with z3: call-graph-derived function set, per-path ordering and dataflow assertions; native replay of findings',
         text='On every path of every mdk-core function that can merge a commit (set recomputed from the MIR call graph) z3-guarded exploration shows a snapshot of the pre-merge epoch, '
              'taken with the wrapper id/timestamp and only after validation, precedes the merge; the WrongEpoch arm rolls back exactly when the candidate is better and then performs the '
              'documented sequence; the OpenMLS verdict mapping (WrongEpoch epoch, OwnCommitPending) is exact. One known finding (immediate merge without snapshot) is listed in known_findings.txt.',
         note=MIR_NOTE + ' Kernel level: end-to-end convergence needs OpenMLS (contracts K1-K3 of DESIGN.md). The snapshot-manager order/bookkeeping obligations (O1-O3) are E3c obligations.'),
    dict(id='C07', engine='mirsym', design_ref='DESIGN.md section 5, C07',
         technique='symbolic execution of the compiler MIR with z3: totality over record states by satisfiability queries, write-freedom of handled-event paths',
         text='For every ProcessedMessageState (symbolic discriminant; totality checked by SAT queries against the enum declaration) the dedup gate, the own-echo arm and the stale-commit arm '
              'are shown to perform no state-changing call beyond the documented ones; an own echo is taken for the pending commit only if it is a Commit.',
         note=MIR_NOTE + ' Not covered: what OpenMLS does with a replayed ciphertext; storage upsert idempotence (C10).'),
    dict(id='C08', engine='mirsym', design_ref='DESIGN.md section 5, C08',
         technique='symbolic execution of the compiler MIR with z3: dataflow equality of symbolic terms between MLS state/extension and the saved record',
         text='Every merging function re-synchronises the stored record on every successful path; sync_group_metadata_from_mls is shown to copy each mirrored field '
              '(epoch, name, description, image fields, admins, Nostr group id) from the MLS group of that id and to replace the relay set, writing nothing if the extension fails to parse.',
         note=MIR_NOTE + ' O3-O5 are the storage-side obligations shared with C09/C10 (memory routing index after rollback; SQLite column coverage of restore and upsert).'),
    dict(id='C16', engine='mirsym', design_ref='DESIGN.md section 5, C16',
         technique='symbolic execution of the compiler MIR with z3: write-freedom of dedup/refusal paths, dominance of the active-group guard; native replay on real OpenMLS groups',
         text='Every path of process_welcome / preview_welcome / accept_welcome / decline_welcome is enumerated: dedup and refusal paths are write-free (except the failed-welcome record), '
              'only Pending is written before consent, Active only after into_group succeeded, and the pending record is never written over a group the user is active in '
              '(z3 proves the guarding lookup excludes Active on every saving path). O6 (an invitation the store refuses on input grounds leaves nothing behind) fails on the current tree: 3 known findings with native replays.',
         note=MIR_NOTE + ' Not covered: that the joined state equals the inviter\'s post-commit state (OpenMLS).'),
    dict(id='C02', engine='mirsym', design_ref='DESIGN.md section 5, C02',
         technique='symbolic execution of the compiler MIR with z3: bit-vector window arithmetic, path enumeration with per-path assertions',
         text='For all 64-bit epochs and look-back values up to the bound, z3 shows the past-epoch decryption loop tries exactly cur-1..max(0,cur-lookback) in order; '
              'every path of process_application_message stores the decoded rumor fields unchanged; the own-echo state machine is total over all six record states '
              'with exactly the documented writes.',
         note=MIR_NOTE + ' Not covered: OpenMLS ratchet/out-of-order windows, NIP-44, end-to-end delivery under reordering (needs real OpenMLS state).'),
    dict(id='C04', engine='mirsym', design_ref='DESIGN.md section 5, C04',
         technique='symbolic execution of the compiler MIR with z3 + uninterpreted NIP-01 hash; counterexamples replayed by native tests on real OpenMLS groups',
         text='Every path of verify_rumor_author is checked against the truth table (Basic credential, 32-byte identity, equal to the rumor pubkey); on every storing path of '
              'process_application_message and create_message z3 shows Message.id == NIP-01 hash of the stored fields (pre-set rumor ids are symbolic).',
         note=MIR_NOTE + ' nostr UnsignedEvent::id/ensure_id/verify_id are contract models read from the nostr 0.44 sources. Not covered: OpenMLS replay protection, '
              'cross-group isolation inside the storage backends (see C09/C10).'),
    dict(id='C05', engine='mirsym', design_ref='DESIGN.md section 5, C05',
         technique='symbolic execution of the compiler MIR with z3 (path enumeration + per-path assertions), uninterpreted environment calls',
         text='Every feasible path of validate_commit_authorization, is_pure_self_update_commit (proposal lists up to 3/4, all proposal kinds and senders symbolic), '
              'process_commit, process_proposal, the identity validators and the sender-side admin gates is enumerated by z3-guarded symbolic execution of the MIR; '
              'the authorisation truth table, whitelist, validate-before-snapshot-before-merge order, proposal handling and identity checks are asserted on each. O7 (sender-side operations must not '
              'commit roster changes merely proposed by others) fails on the current tree and is listed as a known finding (five call sites) with a native replay.',
         note=MIR_NOTE + ' Not covered: what OpenMLS sweeps into a commit from its pending-proposal queue; MLS-level authentication of the sender.'),
    dict(id='C18', engine='kani-direct', design_ref='DESIGN.md section 5, C18',
         technique='bounded model checking (Kani/CBMC) of the real comparators and pointer update over symbolic keys',
         text='CBMC decides, for all 64-bit timestamps and 32-byte ids, that the two listing comparators are strict total orders equal to the '
              'documented lexicographic order, and that the last-message pointer update is max-in-display-order.',
         note='Bounded: unwind 34 (memcmp of 32-byte ids). Trusted: Kani/CBMC, the 3-line harness-side reference comparator. '
              'O3 (memory listing, mirsym, <= 2 stored messages) and O4/O5 (SQLite ORDER BY / pagination, sqlsym) extend it to the backends; the invalidated-message clause is C10-O3/O6.'),
]
NOT_APPLICABLE = [
    dict(property_id='C03', reason='confidentiality/membership semantics live in OpenMLS and NIP-44 cryptography; not expressible as a bounded safety query over MDK code'),
    dict(property_id='C13', reason='SQLCipher page encryption, file modes and keyring behaviour are C/OS code behind FFI; nothing a solver can execute'),
    dict(property_id='C14', reason='needs core::fmt executed on every path or a taint analysis; formatting is what this family stubs out'),
    dict(property_id='C19', reason='thread interleavings: Kani sequentialises atomics and rejects thread::spawn; parking_lot crashes the Kani compiler; no concurrency engine in this family here'),
]
