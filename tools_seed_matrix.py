#!/opt/veriftools/pyvenv/bin/python3
"""Runs the checks against every archived seeded change (seeded/<id>/patch.diff) and records the outcome in meta.json.

usage: tools_seed_matrix.py [--tier quick] [seed-id ...]     (default: all seeds)
For each seed: refuse if /repo is dirty, git apply, run ./check for the seed's property (plus the checks listed under
"also" in meta.json), git checkout -- .  Evidence of these runs goes to a scratch directory, never to /verif/evidence.
"""
import json, os, re, subprocess, sys, tempfile, time
HERE = os.path.dirname(os.path.abspath(__file__))
REPO = '/repo'


def sh(cmd, **kw):
    return subprocess.run(cmd, shell=True, capture_output=True, text=True, **kw)


def main():
    args = sys.argv[1:]
    tier = 'quick'
    global REPO
    lane_env = {}
    if '--lane' in args:          # --lane <checkout> <work dir>: run against another checkout of the repository (parallel lanes; not for Kani-based checks)
        i = args.index('--lane'); REPO = args[i + 1]; lane_env = {'VERIF_REPO': args[i + 1], 'VERIF_WORK': args[i + 2], 'VERIF_NO_SCEN': '1'}; del args[i:i + 3]
    if '--tier' in args:
        i = args.index('--tier'); tier = args[i + 1]; del args[i:i + 2]
    seeds = args or sorted(os.listdir(os.path.join(HERE, 'seeded')))
    evdir = tempfile.mkdtemp(prefix='seed-evidence-')
    summary = []
    for sid in seeds:
        d = os.path.join(HERE, 'seeded', sid)
        mp = os.path.join(d, 'meta.json')
        if not os.path.exists(mp):
            continue
        meta = json.load(open(mp))
        if sh('git diff --quiet', cwd=REPO).returncode != 0:
            print('REPO HAS UNCOMMITTED CHANGES - refusing'); sys.exit(4)
        r = sh(f'git apply {d}/patch.diff', cwd=REPO)
        if r.returncode != 0:
            print(sid, 'PATCH DOES NOT APPLY', r.stderr[:200]); summary.append((sid, 'no-apply')); continue
        res = {}
        try:
            for pid in [meta['property']] + list(meta.get('also', [])):
                t0 = time.time()
                env = dict(os.environ, VERIF_EVIDENCE_DIR=evdir, **lane_env)
                o = subprocess.run(f'./check {pid} --tier {tier}', shell=True, cwd=HERE, capture_output=True, text=True, env=env)
                keys = sorted(set(re.findall(r'^\s+obligation=\S+ key=(\S+)', o.stdout, re.M)))
                viol = [l for l in o.stdout.splitlines() if l.startswith('VIOLATION')]
                obl = sorted(set(m.group(1) for m in re.finditer(r'^\[(C\d+-O\w+)\]\s+\S+\s+violated', o.stdout, re.M)))
                res[pid] = dict(rc=o.returncode, violated_obligations=obl, violation_lines=len(viol), keys=keys[:12], wall_s=round(time.time() - t0, 1))
        finally:
            sh('git checkout -- .', cwd=REPO)
        caught = [p for p, v in res.items() if v['rc'] == 1]
        meta['matrix'] = dict(tier=tier, ran=time.strftime('%Y-%m-%d'), results=res, caught_by=caught)
        json.dump(meta, open(mp, 'w'), indent=1)
        print(sid, 'CAUGHT by ' + ','.join(f'{p}:{"+".join(res[p]["violated_obligations"])}' for p in caught) if caught else 'MISSED', {p: v['rc'] for p, v in res.items()})
        summary.append((sid, bool(caught)))
    sh(f'rm -rf {evdir}')
    print('caught', sum(1 for _, c in summary if c is True), 'of', len(summary))


main()
