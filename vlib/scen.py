"""Native replay scenarios (/verif/replays/scenarios): ordinary cargo tests against the real crates.
A scenario test asserts the property; 'fails' means the defect reproduces on the real build."""
import os, re, shutil
from .common import VERIF, REPO, WORK, sh

CRATE = os.path.join(VERIF, 'replays', 'scenarios')
_CACHE = {}


def run(test_file, test_name=None, timeout=1500):
    """returns ('fails'|'passes'|'error', excerpt)"""
    key = (test_file, test_name)
    if key in _CACHE:
        return _CACHE[key]
    shutil.copy(os.path.join(REPO, 'Cargo.lock'), os.path.join(CRATE, 'Cargo.lock'))
    cmd = f'cargo test --offline --test {test_file} ' + (f'{test_name} -- --exact' if test_name else '')
    rc, out, dt = sh(cmd, cwd=CRATE, env={'CARGO_TARGET_DIR': os.path.join(WORK, 'scen-target')}, timeout=timeout,
                     log=os.path.join(WORK, f'scen-{test_file}-{test_name}.log'))
    if 'error: could not compile' in out or 'error[E' in out:
        r = ('error', '\n'.join(l for l in out.splitlines() if l.startswith('error'))[:600])
    elif re.search(r'test result: ok\. [1-9]\d* passed; 0 failed', out):
        r = ('passes', '')
    elif re.search(r'test result: FAILED', out):
        m = re.search(r"panicked at [^\n]*\n([^\n]*)", out)
        r = ('fails', m.group(1)[:300] if m else '')
    else:
        r = ('error', out[-600:])
    _CACHE[key] = r
    return r


def confirm(result, key, test_file, test_name):
    if os.environ.get('VERIF_NO_SCEN'):
        return          # seeded-change lanes run against another checkout than the scenario crate is built for
    """Attach native confirmation to the failure `key` of an obligation Result: reproduces -> confirmed; scenario passes -> unconfirmed."""
    for f in result.failures:
        if f['key'] == key:
            verdict, ex = run(test_file, test_name)
            f['scenario'] = f'replays/scenarios/tests/{test_file}.rs::{test_name}: {verdict} {ex}'
            if verdict == 'fails':
                f['confirmed'] = True
                f['what'] += f' [reproduced natively: {test_file}::{test_name}: {ex}]'
            elif verdict == 'passes':
                # the scenario is one concrete instance; the path witness of the solver stands on its own
                f['what'] += f' [native scenario {test_file}::{test_name} passes on this tree: it does not exercise this path]'
            else:
                f['what'] += f' [native scenario could not run: {ex[:120]}]'
