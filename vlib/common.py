"""Shared driver pieces: obligation results, evidence writer, known-findings handling, exit codes.

Exit codes of ./check: 0 = every obligation holds (or is a listed known finding),
1 = a violation not listed in known_findings.txt (a VIOLATION line is printed),
2 = the check itself is broken / inconclusive (never a VIOLATION).
"""
import json, os, re, sys, time, hashlib, subprocess

VERIF = os.path.dirname(os.path.dirname(os.path.abspath(__file__)))
REPO = os.environ.get('VERIF_REPO', '/repo')
WORK = os.environ.get('VERIF_WORK') or os.path.join(VERIF, '.work')      # override: seeded-change lanes only
os.makedirs(WORK, exist_ok=True)

HOLDS, VIOLATED, BROKEN = 'holds', 'violated', 'broken'


class Result:
    """Outcome of one obligation (one solver-query family)."""

    def __init__(self, oid, engine, title):
        self.oid = oid                # e.g. 'O1'
        self.engine = engine          # 'kani' | 'mirsym' | 'sqlsym'
        self.title = title
        self.verdict = HOLDS
        self.functions = []           # functions encoded
        self.bounds = {}              # stated bounds
        self.assumptions = []         # stubs, contracts, assumptions
        self.queries = 0              # solver queries discharged
        self.solver_s = 0.0
        self.paths = 0
        self.cases = 0                # distinct non-vacuous bound instances
        self.samples = []             # a few written-out cases
        self.vacuity = []             # reachability witnesses
        self.failures = []            # list of dicts {key, what, replay, detail, confirmed}
        self.notes = []
        self.wall_s = 0.0

    def fail(self, key, what, replay=None, detail=None, confirmed=True):
        self.verdict = VIOLATED
        self.failures.append(dict(key=key, what=what, replay=replay, detail=detail, confirmed=confirmed))

    def broken(self, why):
        self.verdict = BROKEN
        self.notes.append('BROKEN: ' + why)

    def to_json(self):
        return dict(id=self.oid, engine=self.engine, title=self.title, verdict=self.verdict,
                    functions=self.functions, bounds=self.bounds, queries=self.queries,
                    solver_s=round(self.solver_s, 3), paths=self.paths, cases=self.cases,
                    vacuity_witnesses=self.vacuity, failures=self.failures, notes=self.notes,
                    wall_s=round(self.wall_s, 2))


def load_findings():
    """known_findings.txt: lines 'finding: property=<ID> key=<key> <text>' suppress exactly that key;
    'fixed: ...' lines suppress nothing."""
    out = {}
    p = os.path.join(VERIF, 'known_findings.txt')
    if not os.path.exists(p):
        return out
    for ln in open(p):
        ln = ln.strip()
        m = re.match(r'^finding:\s+property=(\S+)\s+key=(\S+)\s*(.*)$', ln)
        if m:
            out[(m.group(1), m.group(2))] = m.group(3)
    return out


def finish(pid, tier, seed, results, t0, explanation, trusted=None):
    """Write evidence, print verdict lines, return the exit code."""
    findings = load_findings()
    viol, known, brokenl = [], [], []
    if any(r.engine == 'sqlsym' for r in results):
        # translator validation of E4: its SQL semantics and catalogue are compared with a real SQLite on every run
        from sqlsym import validate
        for r in results:
            if r.engine == 'sqlsym':
                validate.ensure(r)
    from . import cross
    cx = cross.flush()
    if cx and cx.get('disagree') and results:
        results[0].broken('solver disagreement (z3 vs cvc5) on ' + '; '.join(f'{k}: z3 {a}, cvc5 {b} ({f})' for k, a, b, f in cx['disagree'][:5]))
    for r in results:
        if r.verdict == BROKEN:
            brokenl.append(r)
        for f in r.failures:
            k = (pid, f['key'])
            if k in findings:
                known.append((r, f, findings[k]))
            else:
                viol.append((r, f))
    obligations = len(results)
    discharged = sum(1 for r in results if r.verdict == HOLDS)
    samples = []
    for r in results:
        for s in r.samples[:3]:
            samples.append({'obligation': r.oid, 'case': s})
    cov = dict(
        explanation=explanation,
        engine=sorted({r.engine for r in results}),
        functions_encoded=sorted({f for r in results for f in r.functions}),
        bounds={r.oid: r.bounds for r in results},
        obligations=obligations,
        discharged=discharged,
        queries=sum(r.queries for r in results),
        solver_time_s=round(sum(r.solver_s for r in results), 3),
        paths=sum(r.paths for r in results),
        evaluations=max(1, sum(r.queries for r in results)),
        distinct_nontrivial=sum(r.cases for r in results),
        rule=('evaluations = solver queries discharged (CBMC property checks / z3 path-feasibility and obligation queries); '
              'distinct_nontrivial = distinct obligation x bound-instance pairs (harnesses, explored paths, table rows) whose '
              'verdict is non-vacuous, i.e. whose reachability witness was satisfied'),
        samples=samples[:40] or [{'note': 'no sample recorded'}],
        vacuity_witnesses=sum(len(r.vacuity) for r in results),
        trusted_base=trusted or [],
        known_findings=[dict(obligation=r.oid, key=f['key'], what=f['what']) for r, f, _ in known],
        obligation_results=[r.to_json() for r in results],
        exhaustive=False,
    )
    if cx:
        cov['second_solver'] = dict(solver='cvc5', **{k: v for k, v in cx.items() if k != 'disagree'}, disagreements=len(cx.get('disagree', [])))
    ev = dict(property_id=pid, tier=tier, seed=seed, level='other', coverage=cov,
              assumptions=sorted({a for r in results for a in r.assumptions}),
              wall_s=round(time.time() - t0, 2), violations=len(viol))
    evdir = os.environ.get('VERIF_EVIDENCE_DIR') or os.path.join(VERIF, 'evidence')   # override used by the seeded-change matrix only
    os.makedirs(evdir, exist_ok=True)
    with open(os.path.join(evdir, pid + '.json'), 'w') as fh:
        json.dump(ev, fh, indent=1, default=str)
    for r in results:
        print(f'[{pid}-{r.oid}] {r.engine:7s} {r.verdict:8s} queries={r.queries} paths={r.paths} cases={r.cases} '
              f'solver={r.solver_s:.2f}s wall={r.wall_s:.1f}s  {r.title}')
        for n in r.notes:
            print('      note:', n)
    for r, f, txt in known:
        print(f'KNOWN-FINDING: property={pid} {r.oid} key={f["key"]} {f["what"]}')
    unconfirmed = [(r, f) for r, f in viol if not f.get('confirmed', True)]
    confirmed = [(r, f) for r, f in viol if f.get('confirmed', True)]
    for r in brokenl:
        print(f'BROKEN-CHECK property={pid} obligation={r.oid}: {"; ".join(r.notes)[:600]}')
    for r, f in confirmed:
        rp = write_replay(pid, r, f)
        print(f'VIOLATION property={pid} replay={rp}')
        print(f'      obligation={r.oid} key={f["key"]} {f["what"]}')
    if confirmed:
        return 1          # a counterexample stands on its own witness even if another part of the check is inconclusive
    if brokenl:
        return 2
    if unconfirmed:
        for r, f in unconfirmed:
            print(f'UNCONFIRMED-COUNTEREXAMPLE property={pid} obligation={r.oid} key={f["key"]} {f["what"]}')
        return 2
    return 0


def write_replay(pid, r, f):
    """one self-describing counterexample file per (property, obligation, key); `./check <pid> --replay <file>` re-runs the obligation"""
    d = os.path.join(VERIF, 'replays', 'out', pid)
    os.makedirs(d, exist_ok=True)
    p = os.path.join(d, f'{r.oid}-{re.sub(r"[^A-Za-z0-9_.-]", "_", f["key"])}.json')
    body = dict(property=pid, obligation=r.oid, engine=r.engine, title=r.title, key=f['key'], what=f['what'],
                rerun=f'./check {pid} --replay {p}', scenario=f.get('scenario'), detail=f.get('detail'))
    src = f.get('replay')
    if src and os.path.exists(src) and os.path.abspath(src) != os.path.abspath(p):
        try:
            body['counterexample'] = json.load(open(src))
        except Exception:
            body['counterexample'] = open(src, errors='replace').read()[-20000:]
    with open(p, 'w') as fh:
        json.dump(body, fh, indent=1, default=str)
    return p


def sh(cmd, cwd=None, env=None, timeout=None, log=None):
    e = dict(os.environ)
    e.update({'CARGO_NET_OFFLINE': 'true'})
    if env:
        e.update(env)
    t0 = time.time()
    try:
        p = subprocess.run(cmd, shell=isinstance(cmd, str), cwd=cwd, env=e, timeout=timeout,
                           stdout=subprocess.PIPE, stderr=subprocess.STDOUT, text=True, errors='replace')
        out, rc = p.stdout, p.returncode
    except subprocess.TimeoutExpired as ex:
        out = (ex.stdout or b'').decode(errors='replace') if isinstance(ex.stdout, bytes) else (ex.stdout or '')
        rc = 124
    if log:
        with open(log, 'w') as fh:
            fh.write(out)
    return rc, out, time.time() - t0


def src_hash(paths):
    h = hashlib.sha256()
    for root in paths:
        for dp, dn, fn in sorted(os.walk(root)):
            dn.sort()
            if '/target' in dp:
                continue
            for f in sorted(fn):
                if f.endswith(('.rs', '.toml', '.sql', '.lock')):
                    p = os.path.join(dp, f)
                    h.update(p.encode())
                    h.update(open(p, 'rb').read())
    return h.hexdigest()[:16]
