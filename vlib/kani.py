"""Engine E1: Kani (CBMC) over harnesses in /verif/kani/direct that call the repository's real code."""
import os, re, shutil, time
from .common import VERIF, REPO, WORK, Result, sh, HOLDS, VIOLATED, BROKEN

CRATE = os.path.join(VERIF, 'kani', 'direct')
STUBS = ['tracing_core::callsite::DefaultCallsite::interest -> Interest::never()',
         'tracing::__macro_support::__is_enabled -> false',
         'tracing_core::event::Event::dispatch -> no-op',
         'std::fmt::format -> String::new() (formatted text is never the subject of a harness)']


def harness_source(name):
    """Return the source text of a harness (for evidence samples)."""
    for f in os.listdir(os.path.join(CRATE, 'src')):
        s = open(os.path.join(CRATE, 'src', f)).read()
        m = re.search(r'((?:#\[kani::[^\]]*\]\s*)+fn ' + re.escape(name) + r'\b.*?\n}\n)', s, re.S)
        if m:
            return f, m.group(1)
    return None, None


def run(harnesses, jobs=8, timeout=1500, extra_args=None, target='t0', cbmc_args=None):
    """Run the given harness names in one cargo-kani invocation. Returns {name: dict(status, time, covers, failed, log)}."""
    shutil.copy(os.path.join(REPO, 'Cargo.lock'), os.path.join(CRATE, 'Cargo.lock'))
    os.makedirs(os.path.join(WORK, 'kani'), exist_ok=True)
    tdir = os.path.join(WORK, 'kani', target)
    log = os.path.join(WORK, 'kani', f'run-{target}-{int(time.time()*1000)%100000000}.log')
    cmd = ['cargo', 'kani', '--target-dir', tdir, '-Z', 'stubbing', '--output-format', 'terse', '-j', str(jobs)]
    for h in harnesses:
        cmd += ['--harness', h]
    if extra_args:
        cmd += extra_args
    if cbmc_args:
        cmd += ['-Z', 'unstable-options', '--cbmc-args'] + cbmc_args
    # memory cap per process tree (KB): 40 GB address space
    shcmd = 'ulimit -v 45000000; exec ' + ' '.join(cmd)
    rc, out, dt = sh(shcmd, cwd=CRATE, timeout=timeout, log=log,
                     env={'RUSTUP_TOOLCHAIN': '', 'CARGO_TARGET_DIR': ''} if False else None)
    res = {}
    if 'error: could not compile' in out or 'error[E' in out:
        errs = '\n'.join(l[:300] for l in out.splitlines() if l.startswith('error'))[:2000]
        return {h: dict(status='COMPILE_ERROR', time=0.0, covers=(0, 0), failed=[errs], log=log) for h in harnesses}, log, dt
    # with -j the output is "Thread N: Checking harness X..." and later a block starting "Thread N: " with the result
    blocks = {}      # harness -> text
    cur = {}         # thread -> harness
    active = None
    for ln in out.splitlines():
        m = re.match(r'^(?:Thread (\d+): )?Checking harness ([\w:]+)\.\.\.', ln)
        if m:
            t = m.group(1) or '-'
            cur[t] = m.group(2).split('::')[-1]
            blocks.setdefault(cur[t], '')
            active = cur[t] if m.group(1) is None else None
            continue
        m = re.match(r'^Thread (\d+): ?(.*)$', ln)
        if m:
            active = cur.get(m.group(1))
            ln = m.group(2)
        if ln.startswith(('Manual Harness Summary', 'Complete - ', 'Verification failed for')):
            active = None
        if active is not None:
            blocks[active] += ln + '\n'
    for name, body in blocks.items():
        st = 'UNKNOWN'
        if 'VERIFICATION:- SUCCESSFUL' in body:
            st = 'SUCCESS'
        elif 'VERIFICATION:- FAILED' in body:
            st = 'FAILED'
        if 'Status: ERROR' in body or 'CBMC failed' in body or 'out of memory' in body.lower() or 'timed out' in body.lower():
            st = 'ERROR'
        m = re.search(r'\*\* (\d+) of (\d+) cover properties satisfied', body)
        cov = (int(m.group(1)), int(m.group(2))) if m else (0, 0)
        m = re.search(r'Verification Time: ([\d.]+)s', body)
        vt = float(m.group(1)) if m else 0.0
        m = re.search(r'\*\* (\d+) of (\d+) failed', body)
        nchecks = int(m.group(2)) if m else 0
        failed = re.findall(r'Failed Checks: (.*)', body)
        unwind = any('unwinding assertion' in f for f in failed)
        res[name] = dict(status=st, time=vt, covers=cov, failed=failed, checks=nchecks, unwind_fail=unwind, log=log, body=body)
    for h in harnesses:
        if h not in res:
            res[h] = dict(status='MISSING' if rc != 124 else 'TIMEOUT', time=0.0, covers=(0, 0), failed=[], checks=0, unwind_fail=False, log=log)
    return res, log, dt


def obligation(oid, title, harnesses, functions, bounds, jobs=8, timeout=1500, expect_fail=(), assumptions=(), cbmc_args=None, target='t0', key_of=None):
    """Run a set of harnesses as one obligation. Harness failing => violation keyed '<oid>/<harness>'."""
    r = Result(oid, 'kani', title)
    r.functions = list(functions)
    r.bounds = dict(bounds)
    r.assumptions = ['Kani stub: ' + s for s in STUBS] + list(assumptions)
    t0 = time.time()
    res, log, dt = run(list(harnesses) + list(expect_fail), jobs=jobs, timeout=timeout, cbmc_args=cbmc_args, target=target)
    r.wall_s = time.time() - t0
    for h in harnesses:
        x = res[h]
        r.queries += x.get('checks', 0)
        r.solver_s += x['time']
        if x['status'] == 'SUCCESS':
            if x['covers'][1] > 0 and x['covers'][0] < x['covers'][1]:
                r.broken(f'{h}: vacuity witness unsatisfied ({x["covers"][0]}/{x["covers"][1]} cover properties), log {log}')
            else:
                r.cases += 1
                r.vacuity.append(f'{h}: {x["covers"][0]}/{x["covers"][1]} kani::cover! satisfied')
                f, src = harness_source(h)
                if src and len(r.samples) < 3:
                    r.samples.append({'harness': h, 'file': f'kani/direct/src/{f}', 'verdict': 'SUCCESSFUL', 'checks': x.get('checks', 0),
                                      'cbmc_s': x['time'], 'source': src[:1500]})
        elif x['status'] == 'FAILED':
            if x.get('unwind_fail') and all('unwinding' in f for f in x['failed']):
                r.broken(f'{h}: unwinding assertion failed (bound too small), log {log}')
            else:
                key = (key_of(h) if key_of else f'{oid}/{h}')
                rp = save_failure(oid, h, log)
                r.fail(key, f'Kani harness {h} FAILED: ' + '; '.join(x['failed'])[:300], replay=rp)
        else:
            r.broken(f'{h}: {x["status"]} (no verdict), log {log}; ' + ' '.join(x['failed'])[:400])
    for h in expect_fail:
        x = res[h]
        if x['status'] != 'FAILED':
            r.broken(f'vacuity twin {h} did not fail ({x["status"]}): failure detection is not working')
        else:
            r.vacuity.append(f'{h}: twin assert(false) reported FAILED as required')
    return r


def save_failure(oid, h, log):
    """counterexample of a FAILED harness: CBMC's verdict block, the concrete-playback unit test Kani derives from the
    solver's assignment, and the outcome of running that test natively against the real crates (dev profile)"""
    d = os.path.join(VERIF, 'replays', 'out', 'kani')
    os.makedirs(d, exist_ok=True)
    p = os.path.join(d, f'{h}.log')
    try:
        out = open(log).read()
        m = re.search(r'Checking harness [\w:]*' + re.escape(h) + r'\.\.\.(.*?)(?=(?:Thread \d+: )?Checking harness|\Z)', out, re.S)
        txt = f'replay: cd /verif/kani/direct && cargo kani -Z stubbing --harness {h} -Z concrete-playback --concrete-playback=print\n' + (m.group(1) if m else out[-5000:])
        if os.environ.get('VERIF_KANI_PLAYBACK', '1') != '0':
            txt += '\n\n==== concrete playback ====\n' + playback(h)
        open(p, 'w').write(txt)
    except Exception as e:
        open(p, 'w').write(str(e))
    return p


def playback(h, timeout=900):
    """Kani concrete playback: print the unit test built from the solver's values, then run it natively in a scratch copy of the harness crate"""
    tdir = os.path.join(WORK, 'kani', 't0')
    cmd = f'ulimit -v 45000000; exec cargo kani --target-dir {tdir} -Z stubbing -Z concrete-playback --concrete-playback=print --harness {h} --output-format terse'
    rc, out, dt = sh(cmd, cwd=CRATE, timeout=timeout)
    m = re.search(r'```\s*\n(.*?)```', out, re.S)
    if not m:
        return 'Kani printed no concrete playback test (rc=%s):\n%s' % (rc, out[-1500:])
    test = m.group(1)
    res = 'unit test generated by Kani from the counterexample:\n' + test
    name = re.search(r'fn (kani_concrete_playback_\w+)', test)
    f, _ = harness_source(h)
    if not name or not f:
        return res + '\n(native run skipped: cannot locate the harness source)'
    import tempfile
    scratch = tempfile.mkdtemp(prefix='kani-playback-')
    try:
        shutil.copytree(CRATE, os.path.join(scratch, 'c'), ignore=shutil.ignore_patterns('target'))
        src = os.path.join(scratch, 'c', 'src', f)
        body = open(src).read()
        open(src, 'w').write(body + '\n' + test + '\n')
        rc, out, dt = sh(f'cargo kani playback -Z concrete-playback -- {name.group(1)}', cwd=os.path.join(scratch, 'c'), timeout=timeout,
                         env={'CARGO_TARGET_DIR': os.path.join(WORK, 'kani', 'playback')})
        verdict = 'REPRODUCED natively (the playback test fails as the harness predicts)' if re.search(r'test result: FAILED|panicked at', out) else \
                  ('NOT reproduced natively (playback test passes)' if 'test result: ok' in out else f'native run inconclusive (rc={rc})')
        res += f'\nnative run of {name.group(1)} (dev profile, {dt:.0f}s): {verdict}\n' + '\n'.join(out.splitlines()[-15:])
    finally:
        shutil.rmtree(scratch, ignore_errors=True)
    return res
