"""Second-solver cross-check (cvc5) of z3 verdicts.

Enabled by VERIF_CROSS=1 (set by the thorough tier, or by hand).  Engines call `record(assertions, verdict, kind)` for the
queries whose answers decide an obligation (every claim query, every SQL query, a deterministic 1-in-N sample of path
feasibility queries).  `flush()` at the end of the run writes each recorded query as SMT-LIB2 (z3's printer), runs
`cvc5 --lang smt2` on all of them in parallel and compares sat/unsat.  A disagreement makes the run BROKEN (never a pass,
never a VIOLATION); cvc5 timeouts/unknowns are counted and reported, they decide nothing.
"""
import os, subprocess, tempfile, time, hashlib, shutil
from concurrent.futures import ThreadPoolExecutor
import z3

ENABLED = [os.environ.get('VERIF_CROSS', '') == '1']
CAP = int(os.environ.get('VERIF_CROSS_CAP', '600'))
SAMPLE = int(os.environ.get('VERIF_CROSS_SAMPLE', '25'))        # feasibility queries: 1 in SAMPLE
_Q = []
_seen = set()
_count = {'claim': 0, 'sql': 0, 'feasible': 0, 'dropped': 0}
_n_feas = [0]


def enable():
    ENABLED[0] = True


def record(assertions, verdict, kind='claim'):
    """verdict: 'sat' | 'unsat' (z3's answer)"""
    if not ENABLED[0]:
        return
    if kind == 'feasible':
        _n_feas[0] += 1
        if _n_feas[0] % SAMPLE:
            return
    if len(_Q) >= CAP:
        _count['dropped'] += 1
        return
    s = z3.Solver()
    for a in assertions:
        s.add(a)
    txt = s.to_smt2()
    h = hashlib.sha1(txt.encode()).hexdigest()
    if h in _seen:
        return
    _seen.add(h)
    _count[kind] += 1
    _Q.append((txt, verdict, kind))


def _run_one(args):
    path, tl = args
    try:
        p = subprocess.run(['cvc5', '--lang', 'smt2', f'--tlimit={tl * 1000}', path], capture_output=True, text=True, timeout=tl + 10)
        out = (p.stdout + p.stderr).strip().splitlines()
        first = out[0].strip() if out else ''
        if any(l.startswith('(error') for l in out):
            return 'error:' + ' '.join(out)[:200]
        return first
    except subprocess.TimeoutExpired:
        return 'timeout'


def flush(tlimit=30):
    """-> dict(summary) ; summary['disagree'] lists (kind, z3 verdict, cvc5 verdict, file)"""
    if not ENABLED[0] or not _Q:
        return None
    if not shutil.which('cvc5'):
        return dict(ran=0, note='cvc5 not on PATH', disagree=[], agree=0, inconclusive=len(_Q))
    d = tempfile.mkdtemp(prefix='cross-')
    files = []
    for i, (txt, verdict, kind) in enumerate(_Q):
        p = os.path.join(d, f'q{i}.smt2')
        # z3 prints (check-sat) itself; force a logic cvc5 accepts for everything we emit
        open(p, 'w').write('(set-logic ALL)\n' + txt)
        files.append(p)
    t0 = time.time()
    with ThreadPoolExecutor(max_workers=14) as ex:
        res = list(ex.map(_run_one, [(f, tlimit) for f in files]))
    agree, inconclusive, disagree = 0, 0, []
    for (txt, verdict, kind), r, f in zip(_Q, res, files):
        if r == verdict:
            agree += 1
        elif r in ('sat', 'unsat'):
            keep = os.path.join(os.path.dirname(os.path.dirname(os.path.abspath(__file__))), 'replays', 'out', 'cross')
            os.makedirs(keep, exist_ok=True)
            shutil.copy(f, keep)
            disagree.append((kind, verdict, r, os.path.join(keep, os.path.basename(f))))
        else:
            inconclusive += 1
    shutil.rmtree(d, ignore_errors=True)
    out = dict(ran=len(_Q), agree=agree, inconclusive=inconclusive, disagree=disagree, wall_s=round(time.time() - t0, 1),
               by_kind=dict(_count), feasibility_sampling=f'1 in {SAMPLE}', cap=CAP)
    _Q.clear()
    return out
