//! C18-O1: the two listing comparators are strict total orders and equal the documented
//! lexicographic order; C18-O2: the last-message pointer update is "max in display order".
use std::cmp::Ordering;
use std::collections::BTreeSet;

use mdk_storage_traits::GroupId;
use mdk_storage_traits::groups::types::*;
use mdk_storage_traits::messages::types::*;
use nostr::{EventId, Kind, PublicKey, Tags, Timestamp, UnsignedEvent};

fn ts(x: u64) -> Timestamp {
    Timestamp::from_secs(x)
}
fn any_id() -> EventId {
    EventId::from_byte_array(kani::any())
}
/// id with two symbolic bytes (first and last), the rest fixed: enough to order ids either way
fn id2(b0: u8, b31: u8) -> EventId {
    let mut x = [0x22u8; 32];
    x[0] = b0;
    x[31] = b31;
    EventId::from_byte_array(x)
}
fn ref_cmp(a: (u64, u64, [u8; 32]), b: (u64, u64, [u8; 32])) -> Ordering {
    if a.0 != b.0 {
        return if a.0 < b.0 { Ordering::Less } else { Ordering::Greater };
    }
    if a.1 != b.1 {
        return if a.1 < b.1 { Ordering::Less } else { Ordering::Greater };
    }
    let mut i = 0;
    while i < 32 {
        if a.2[i] != b.2[i] {
            return if a.2[i] < b.2[i] { Ordering::Less } else { Ordering::Greater };
        }
        i += 1;
    }
    Ordering::Equal
}

#[kani::proof]
#[kani::unwind(34)]
fn c18_o1_display_is_lexicographic() {
    let (ac, ap, bc, bp): (u64, u64, u64, u64) = (kani::any(), kani::any(), kani::any(), kani::any());
    let (ai, bi): ([u8; 32], [u8; 32]) = (kani::any(), kani::any());
    let got = Message::compare_display_keys(ts(ac), ts(ap), EventId::from_byte_array(ai), ts(bc), ts(bp), EventId::from_byte_array(bi));
    assert!(got == ref_cmp((ac, ap, ai), (bc, bp, bi)));
    kani::cover!(got == Ordering::Less && ac == bc && ap == bp);
    kani::cover!(got == Ordering::Equal);
}

#[kani::proof]
#[kani::unwind(34)]
fn c18_o1_processed_is_lexicographic() {
    let (ac, ap, bc, bp): (u64, u64, u64, u64) = (kani::any(), kani::any(), kani::any(), kani::any());
    let (ai, bi): ([u8; 32], [u8; 32]) = (kani::any(), kani::any());
    let got = Message::compare_processed_at_keys(ts(ap), ts(ac), EventId::from_byte_array(ai), ts(bp), ts(bc), EventId::from_byte_array(bi));
    assert!(got == ref_cmp((ap, ac, ai), (bp, bc, bi)));
    kani::cover!(got == Ordering::Greater && ac == bc && ap == bp);
    kani::cover!(got == Ordering::Equal);
}

#[kani::proof]
#[kani::unwind(34)]
fn c18_o1_display_antisymmetric_total() {
    let (ac, ap, bc, bp): (u64, u64, u64, u64) = (kani::any(), kani::any(), kani::any(), kani::any());
    let (ai, bi) = (any_id(), any_id());
    let ab = Message::compare_display_keys(ts(ac), ts(ap), ai, ts(bc), ts(bp), bi);
    let ba = Message::compare_display_keys(ts(bc), ts(bp), bi, ts(ac), ts(ap), ai);
    assert!(ab == ba.reverse());
    assert!((ab == Ordering::Equal) == (ac == bc && ap == bp && ai == bi));
    kani::cover!(ab == Ordering::Greater);
}

#[kani::proof]
#[kani::unwind(34)]
fn c18_o1_display_transitive() {
    let k: [(u64, u64, [u8; 32]); 3] = kani::any();
    let c = |x: usize, y: usize| {
        Message::compare_display_keys(ts(k[x].0), ts(k[x].1), EventId::from_byte_array(k[x].2), ts(k[y].0), ts(k[y].1), EventId::from_byte_array(k[y].2))
    };
    if c(0, 1) != Ordering::Greater && c(1, 2) != Ordering::Greater {
        assert!(c(0, 2) != Ordering::Greater);
        kani::cover!(c(0, 1) == Ordering::Less && c(1, 2) == Ordering::Equal);
    }
}

#[kani::proof]
#[kani::unwind(34)]
fn c18_o1_processed_transitive() {
    let k: [(u64, u64, [u8; 32]); 3] = kani::any();
    let c = |x: usize, y: usize| {
        Message::compare_processed_at_keys(ts(k[x].0), ts(k[x].1), EventId::from_byte_array(k[x].2), ts(k[y].0), ts(k[y].1), EventId::from_byte_array(k[y].2))
    };
    if c(0, 1) != Ordering::Greater && c(1, 2) != Ordering::Greater {
        assert!(c(0, 2) != Ordering::Greater);
        kani::cover!(c(0, 1) == Ordering::Less && c(1, 2) == Ordering::Equal);
    }
}

fn mk_msg(id: EventId, c: u64, p: u64) -> Message {
    let pk = PublicKey::from_byte_array([7u8; 32]);
    Message {
        id,
        pubkey: pk,
        kind: Kind::from(9u16),
        mls_group_id: GroupId::from_slice(&[1]),
        created_at: ts(c),
        processed_at: ts(p),
        content: String::new(),
        tags: Tags::new(),
        event: UnsignedEvent::new(pk, ts(c), Kind::from(9u16), Tags::new(), String::new()),
        wrapper_event_id: EventId::all_zeros(),
        epoch: None,
        state: MessageState::Processed,
    }
}
fn mk_group(id: Option<EventId>, at: Option<u64>, pat: Option<u64>) -> Group {
    Group {
        mls_group_id: GroupId::from_slice(&[1]),
        nostr_group_id: [1; 32],
        name: String::new(),
        description: String::new(),
        admin_pubkeys: BTreeSet::new(),
        last_message_id: id,
        last_message_at: at.map(ts),
        last_message_processed_at: pat.map(ts),
        epoch: 0,
        state: GroupState::Active,
        image_hash: None,
        image_key: None,
        image_nonce: None,
        self_update_state: SelfUpdateState::Required,
    }
}

/// all three pointer fields present: afterwards pointer = max(old, new) in display order
#[kani::proof]
#[kani::unwind(34)]
fn c18_o2_last_message_is_max() {
    let (c, p, oc, op): (u64, u64, u64, u64) = (kani::any(), kani::any(), kani::any(), kani::any());
    let mid = id2(kani::any(), kani::any());
    let oid = id2(kani::any(), kani::any());
    let msg = mk_msg(mid, c, p);
    let mut g = mk_group(Some(oid), Some(oc), Some(op));
    let moved = g.update_last_message_if_newer(&msg);
    let newer = (c, p, *mid.as_bytes()) > (oc, op, *oid.as_bytes());
    assert!(moved == newer);
    if newer {
        assert!(g.last_message_id == Some(mid) && g.last_message_at == Some(ts(c)) && g.last_message_processed_at == Some(ts(p)));
    } else {
        assert!(g.last_message_id == Some(oid) && g.last_message_at == Some(ts(oc)) && g.last_message_processed_at == Some(ts(op)));
    }
    kani::cover!(moved);
    kani::cover!(!moved && c == oc && p == op);
    std::mem::forget(g);
    std::mem::forget(msg);
}

/// no pointer at all: the message is taken
#[kani::proof]
#[kani::unwind(34)]
fn c18_o2_last_message_none_takes() {
    let (c, p): (u64, u64) = (kani::any(), kani::any());
    let mid = id2(kani::any(), kani::any());
    let msg = mk_msg(mid, c, p);
    let mut g = mk_group(None, None, None);
    let moved = g.update_last_message_if_newer(&msg);
    assert!(moved);
    assert!(g.last_message_id == Some(mid) && g.last_message_at == Some(ts(c)) && g.last_message_processed_at == Some(ts(p)));
    kani::cover!(moved);
    std::mem::forget(g);
    std::mem::forget(msg);
}
