//! Environment stubs shared by every harness that reaches MDK code:
//! logging gets empty bodies, formatting returns an empty string.
use tracing_core::{Interest, Metadata, field::ValueSet};

pub fn st_interest(_c: &tracing_core::callsite::DefaultCallsite) -> Interest {
    Interest::never()
}
pub fn st_enabled(_m: &'static Metadata<'static>, _i: Interest) -> bool {
    false
}
pub fn st_dispatch<'a>(_m: &'static Metadata<'static>, _f: &ValueSet<'_>)
where
    'a: 'a,
{
}
pub fn nofmt(_: std::fmt::Arguments<'_>) -> String {
    String::new()
}
