//! C15: group-data extension round trip and strictness (engine E1).
use std::collections::BTreeSet;

use mdk_core::extension::NostrGroupDataExtension;
use mdk_core::verif_hooks::*;

use crate::stubs::*;

fn opt32() -> Option<[u8; 32]> {
    if kani::any() { Some(kani::any()) } else { None }
}
fn opt12() -> Option<[u8; 12]> {
    if kani::any() { Some(kani::any()) } else { None }
}

/// from_raw(as_raw(x)) == x for every version >= 1, group id and presence pattern / content of the four optional image fields
#[kani::proof]
#[kani::unwind(4)]
#[kani::stub(tracing_core::callsite::DefaultCallsite::interest, st_interest)]
#[kani::stub(tracing::__macro_support::__is_enabled, st_enabled)]
#[kani::stub(tracing_core::event::Event::dispatch, st_dispatch)]
#[kani::stub(std::fmt::format, nofmt)]
fn c15_o1_ext_roundtrip_optionals() {
    let version: u16 = kani::any();
    kani::assume(version >= 1);
    let x = NostrGroupDataExtension {
        version,
        nostr_group_id: kani::any(),
        name: String::new(),
        description: String::new(),
        admins: BTreeSet::new(),
        relays: BTreeSet::new(),
        image_hash: opt32(),
        image_key: opt32(),
        image_nonce: opt12(),
        image_upload_key: opt32(),
    };
    let raw = ext_as_raw(&x);
    match ext_from_raw(raw) {
        Ok(y) => {
            assert!(y == x);
            kani::cover!(y.image_upload_key.is_some() && y.version == 1);
            kani::cover!(y.image_hash.is_none() && y.image_nonce.is_some());
            std::mem::forget(y);
        }
        Err(_) => assert!(false),
    }
    std::mem::forget(x);
}

/// strictness of from_raw: version 0 refused; an image field is accepted only with length 0 or its fixed length
#[kani::proof]
#[kani::unwind(36)]
#[kani::stub(tracing_core::callsite::DefaultCallsite::interest, st_interest)]
#[kani::stub(tracing::__macro_support::__is_enabled, st_enabled)]
#[kani::stub(tracing_core::event::Event::dispatch, st_dispatch)]
#[kani::stub(std::fmt::format, nofmt)]
fn c15_o1_ext_from_raw_strict_lengths() {
    let version: u16 = kani::any();
    let which: u8 = kani::any();
    kani::assume(which < 4);
    let len: usize = kani::any();
    kani::assume(len <= 34);
    let field = vec![0x5au8; len];
    let (h, k, n, u) = match which {
        0 => (field, vec![], vec![], vec![]),
        1 => (vec![], field, vec![], vec![]),
        2 => (vec![], vec![], field, vec![]),
        _ => (vec![], vec![], vec![], field),
    };
    let raw = raw_ext(version, [3u8; 32], vec![], vec![], vec![], vec![], h, k, n, u);
    let fixed = if which == 2 { 12 } else { 32 };
    match ext_from_raw(raw) {
        Ok(y) => {
            assert!(version != 0);
            assert!(len == 0 || len == fixed);
            kani::cover!(len == fixed);
            std::mem::forget(y);
        }
        Err(_) => {
            assert!(version == 0 || (len != 0 && len != fixed));
            kani::cover!(version != 0 && len == 31);
        }
    }
}
