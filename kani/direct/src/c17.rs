//! C17 (one clause): the HKDF context and the AAD are injective on validated (mime type, file name) pairs, hashes and suffixes.
use mdk_core::verif_hooks::*;

fn s(b: &[u8]) -> Option<&str> {
    std::str::from_utf8(b).ok()
}

/// two (hash, mime, filename) tuples whose fields contain no NUL byte never share an AAD; with NUL excluded the
/// 0x00-separated encoding is injective. The validators (checked separately) exclude control characters.
#[kani::proof]
#[kani::unwind(40)]
fn c17_o1_aad_injective() {
    let (h1, h2): ([u8; 32], [u8; 32]) = (kani::any(), kani::any());
    let (m1, m2): ([u8; 2], [u8; 2]) = (kani::any(), kani::any());
    let (f1, f2): ([u8; 2], [u8; 2]) = (kani::any(), kani::any());
    let (lm1, lm2, lf1, lf2): (usize, usize, usize, usize) = (kani::any(), kani::any(), kani::any(), kani::any());
    kani::assume(lm1 >= 1 && lm1 <= 2 && lm2 >= 1 && lm2 <= 2 && lf1 >= 1 && lf1 <= 2 && lf2 >= 1 && lf2 <= 2);
    // ASCII, no NUL (what validate_mime_type / validate_filename guarantee: no control characters)
    for b in m1.iter().chain(m2.iter()).chain(f1.iter()).chain(f2.iter()) {
        kani::assume(*b >= 0x20 && *b < 0x7f);
    }
    let (sm1, sm2, sf1, sf2) = (s(&m1[..lm1]).unwrap(), s(&m2[..lm2]).unwrap(), s(&f1[..lf1]).unwrap(), s(&f2[..lf2]).unwrap());
    let a1 = media_aad(b"mip04-v2", &h1, sm1, sf1);
    let a2 = media_aad(b"mip04-v2", &h2, sm2, sf2);
    if a1 == a2 {
        // the hash may itself contain 0x00, but its length is fixed, so the split is unambiguous
        assert!(h1 == h2);
        assert!(sm1 == sm2);
        assert!(sf1 == sf2);
    }
    kani::cover!(a1 == a2);
    kani::cover!(a1 != a2 && lm1 != lm2);
    std::mem::forget(a1);
    std::mem::forget(a2);
}

/// same for the HKDF context, including the purpose suffix ("key" vs "nonce")
#[kani::proof]
#[kani::unwind(44)]
fn c17_o1_hkdf_context_injective() {
    let h: [u8; 32] = kani::any();
    let (m1, m2): ([u8; 2], [u8; 2]) = (kani::any(), kani::any());
    let (f1, f2): ([u8; 2], [u8; 2]) = (kani::any(), kani::any());
    let (lm1, lm2, lf1, lf2): (usize, usize, usize, usize) = (kani::any(), kani::any(), kani::any(), kani::any());
    kani::assume(lm1 >= 1 && lm1 <= 2 && lm2 >= 1 && lm2 <= 2 && lf1 >= 1 && lf1 <= 2 && lf2 >= 1 && lf2 <= 2);
    for b in m1.iter().chain(m2.iter()).chain(f1.iter()).chain(f2.iter()) {
        kani::assume(*b >= 0x20 && *b < 0x7f);
    }
    let (sm1, sm2, sf1, sf2) = (s(&m1[..lm1]).unwrap(), s(&m2[..lm2]).unwrap(), s(&f1[..lf1]).unwrap(), s(&f2[..lf2]).unwrap());
    let k1: bool = kani::any();
    let k2: bool = kani::any();
    let c1 = media_hkdf_context(b"mip04-v2", &h, sm1, sf1, if k1 { b"key" } else { b"nonce" });
    let c2 = media_hkdf_context(b"mip04-v2", &h, sm2, sf2, if k2 { b"key" } else { b"nonce" });
    if c1 == c2 {
        assert!(sm1 == sm2 && sf1 == sf2 && k1 == k2);
    }
    kani::cover!(c1 == c2);
    kani::cover!(c1 != c2 && k1 != k2 && sm1 == sm2 && sf1 == sf2);
    std::mem::forget(c1);
    std::mem::forget(c2);
}
