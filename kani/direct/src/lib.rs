//! Kani harnesses over MDK leaf code (engine E1). One module per property.
#![allow(dead_code, unused_imports, clippy::all)]

#[cfg(kani)]
pub mod stubs;
#[cfg(kani)]
mod c18;
#[cfg(kani)]
mod c15;
#[cfg(kani)]
mod c17;
