#!/bin/bash
# usage: tools_mut.sh <file-under-/repo> <sed-expr> <check args...>   -- apply a one-line mutation, run a check, revert
f=$1; expr=$2; shift 2
cd /repo && { git diff --quiet || { echo "REPO HAS UNCOMMITTED CHANGES - refusing"; exit 4; }; } && cp "$f" /tmp/mut.bak && sed -i "$expr" "$f"
if cmp -s "$f" /tmp/mut.bak; then echo "MUTATION DID NOT APPLY"; exit 3; fi
git diff --stat | tail -1
cd /verif && ./check "$@" 2>&1 | grep -E "VIOLATION|KNOWN|BROKEN|violated|broken" | cut -c1-220
echo "rc=${PIPESTATUS[0]}"
cd /repo && git checkout -- . 
