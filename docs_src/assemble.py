import json, glob, subprocess
head=open('/verif/docs_src/design_head.md').read()
s12=open('/verif/docs_src/design_s12.md').read()
s12=s12.replace("sources (engine E1, and E2 where it returns), or","sources (engine E1), or").replace("* z3 (cross-checked with cvc5) over an encoding generated on every run from","* z3 (re-decided by cvc5 in the thorough tier, `vlib/cross.py`) over an encoding generated on every run from").replace("(section 3.6).","(sections 3 and 10).")
table=subprocess.run(['/verif/tools_seed_table.py'],capture_output=True,text=True).stdout
metas=[json.load(open(f)) for f in sorted(glob.glob('/verif/seeded/*/meta.json'))]
n=len(metas); ran=[m for m in metas if 'matrix' in m]
caught=[m for m in ran if m['matrix']['caught_by']]
own=[m for m in ran if m['property'] in m['matrix']['caught_by']]
missed=[m['id'] for m in ran if not m['matrix']['caught_by']]
summary=(f"{n} changes are archived; the matrix was run on {len(ran)} of them. {len(caught)} are reported (exit 1) by at least one check, "
         f"{len(own)} by the check of the property they were written against" + (f"; not reported: {', '.join(missed)}." if missed else "."))
s9=open('/verif/docs_src/design_s9.md').read().replace('SEEDTABLE', table).replace('SEEDSUMMARY', summary)
head=head.replace("8 genuine defects were found by\nthe checks, confirmed natively and repaired by `fix:` commits; 48 seeded\nchanges", f"9 genuine defects were found by\nthe checks, confirmed natively and repaired by `fix:` commits; three further families of genuine defects are recorded as known findings; {n} seeded\nchanges")
head=head.replace("7 genuine defects were found by\nthe checks, confirmed natively and repaired by `fix:` commits; 32 seeded\nchanges", f"9 genuine defects were found by\nthe checks, confirmed natively and repaired by `fix:` commits; three further\nfamilies of genuine defects are recorded as known findings; {n} seeded\nchanges")
head=head.replace("`/verif/seeded/`, every one of them is reported by at least one check\n(section 9).", f"`/verif/seeded/`; {len(caught)} of the {len(ran)} run through the check matrix are reported by at least one check\n(section 9).")
head=head.replace("current tree (with two `KNOWN-FINDING` lines);","current tree (with `KNOWN-FINDING` lines for the recorded findings);")
sep='\n---------------------------------------------------------------------------\n\n'
doc=head+s12+sep+open('/verif/docs_src/design_s3.md').read()+open('/verif/docs_src/design_s5.md').read()+open('/verif/docs_src/design_s8.md').read()+'\n---------------------------------------------------------------------------\n\n'+s9
open('/verif/DESIGN.md','w').write(doc)
print(len(doc.splitlines()), 'lines;', summary)
