#!/usr/bin/env python3
"""prints the markdown table of DESIGN.md section 9 from seeded/*/meta.json (after tools_seed_matrix.py)"""
import json, glob, os
HERE = os.path.dirname(os.path.abspath(__file__))
print('| seeded change | what it changes | reported by (quick tier) | note |')
print('|---|---|---|---|')
for f in sorted(glob.glob(os.path.join(HERE, 'seeded', '*', 'meta.json'))):
    m = json.load(open(f))
    head = open(os.path.join(os.path.dirname(f), 'notes.md')).read().splitlines()[0]
    head = head.split('—', 1)[-1].split(' - ', 1)[-1].strip().lstrip('# ')
    mx = m.get('matrix', {})
    by = []
    KNOWN = {'C01-O6', 'C11-O2', 'C05-O7', 'C06-O6', 'C06-O7', 'C16-O6'}          # violated on the unchanged tree as known findings
    for pid, r in mx.get('results', {}).items():
        if r['rc'] == 1:
            by += [o for o in r['violated_obligations'] if o not in KNOWN or any(k.startswith(o.split('-')[1] + '/') for k in r['keys'])]
    note = m.get('history', '')
    res = ', '.join(by) if by else ('**MISSED**' if mx else 'not run')
    print(f"| {m['id']} | {head[:150]} | {res} | {note[:260]} |")
