"""C08 — the stored group record always mirrors the MLS state and routes events to it (kernel level)."""
import z3

from mirsym.api import (Ob, guard, env_fault, ev_is, is_write, vname, ret_shape, derived_from, uid_of, Opaque, Agg, Ref)
from mirsym import contracts as C
from mirsym import models as M
from props.C05 import first, all_ev, res_ok
from props.C01 import merging_functions, mk_args, MERGES

EXPLANATION = ('Symbolic execution (z3) of the MIR: every mdk-core function that merges a commit re-synchronises the stored record afterwards on '
               'every successful path (function set from the call graph); sync_group_metadata_from_mls copies every mirrored field from the MLS '
               'group / parsed extension into the record it saves (dataflow equality of symbolic terms) and replaces the relay set.')
TRUSTED = ['rustc nightly MIR dump', 'mirsym interpreter + std models', 'z3']
CORE = 'mdk-core'


@guard
def o1(tier):
    """merge => resync"""
    ob = Ob('O1', 'every merging function: on every successful path the merge is followed by sync_group_metadata_from_mls (or by the eviction handler); the new epoch secret is requested where the member stays',
            pure=C.PURE_MLS, models=C.staged_commit_models(1), loop_bound=5)
    fs = [f for f in merging_functions(ob.prog) if f.short != 'create_group']
    total = 0
    for f in fs:
        paths = ob.explore(f, mk_args(f))
        total += len(paths)
        n = 0
        for p in paths:
            if p.kind == 'panic' or vname(p.ret) != 'Ok':
                continue
            merges = [(i, e) for i, e in enumerate(p.trace) if e.short.split('::')[-1] in MERGES and ('openmls' in e.fn or 'MlsGroup' in e.fn)]
            if not merges:
                continue
            n += 1
            im = merges[0][0]
            after = [e.short.split('::')[-1] for e in p.trace[im + 1:]]
            ob.require('sync_group_metadata_from_mls' in after or 'handle_local_member_eviction' in after, f'O1/{f.short}/no-resync',
                       f'{f.short}: a commit is merged and Ok returned without re-synchronising the stored group record', p)
            if 'handle_local_member_eviction' not in after and f.short != 'merge_pending_commit':
                ob.require('exporter_secret' in after, f'O1/{f.short}/no-exporter-secret', f'{f.short}: new epoch secret not requested after the merge', p)
            sy = [e for e in p.trace[im + 1:] if ev_is(e, 'sync_group_metadata_from_mls')]
            for e in sy:
                ob.require(res_ok(ob, p, e) or f.short == 'return_own_commit', f'O1/{f.short}/resync-error-ignored', 'metadata sync failed but Ok returned', p)
            # nothing may overwrite the re-synchronised record with an older copy: a save_group that follows the sync in the same function
            # must save a record that was read from storage AFTER the sync (only then does it carry the new epoch / extension fields)
            if sy:
                isy = max(i for i, e in enumerate(p.trace) if ev_is(e, 'sync_group_metadata_from_mls'))
                for j, e in enumerate(p.trace):
                    if j > isy and ev_is(e, 'save_group') and not ev_is(e, 'save_group_exporter_secret'):
                        reads = [r_ for k, r_ in enumerate(p.trace) if isy < k < j and (ev_is(r_, 'get_group') or ev_is(r_, 'find_group_by_mls_group_id'))]
                        fresh = any(derived_from(ob.eng, p.st, a, r_) for r_ in reads for a in e.args[1:])
                        ob.require(fresh, f'O1/{f.short}/stale-record-overwrites-sync',
                                   f'{f.short}: after the stored record was re-synchronised with the MLS state, a group record that was loaded BEFORE the merge is saved over it '
                                   '(stored epoch / extension fields fall back behind the MLS group)', p)
        ob.require(n >= 1, f'O1/{f.short}/vacuity', 'no successful merging path')
    ob.r.bounds = {'functions': sorted(f.short for f in fs), 'paths': 'all'}
    ob.r.vacuity.append(f'{total} paths over {len(fs)} merging functions')
    return ob.done(cases=total)


@guard
def o2(tier):
    """sync copies every mirrored field"""
    ob = Ob('O2', 'sync_group_metadata_from_mls: the saved record has epoch/name/description/image fields/admins/nostr_group_id equal to the MLS group state and extension of that group; relays replaced; nothing saved if the extension fails to parse',
            pure=C.PURE_MLS)
    f = ob.fn(CORE, 'groups::sync_group_metadata_from_mls')
    paths = ob.explore(f, [Opaque('self', '&MDK<Storage>'), Opaque('group_id', '&mdk_storage_traits::GroupId')])
    gf = ob.prog.cat.fields('Group', 'mdk_storage_traits::groups::types')
    ef = ob.prog.cat.fields('NostrGroupDataExtension', 'mdk_core::extension::types')
    n_ok = 0
    for p in paths:
        if p.kind == 'panic':
            ob.require(False, 'O2/panic', p.msg, p); continue
        u = lambda v: uid_of(ob.eng, p.st, v)
        fg = [e for e in p.trace if ev_is(e, 'from_group')]
        lg = [e for e in p.trace if ev_is(e, 'load_mls_group')]
        gg = [e for e in p.trace if ev_is(e, 'get_group')]
        sg = [e for e in p.trace if ev_is(e, 'save_group')]
        rr = [e for e in p.trace if ev_is(e, 'replace_group_relays')]
        writes = [e for e in p.trace if is_write(e)]
        if writes:
            ob.require(bool(fg) and res_ok(ob, p, fg[0]), 'O2/write-before-validation', 'record written before / although the extension failed to parse', p)
        if vname(p.ret) != 'Ok':
            continue
        n_ok += 1
        if not ob.require(len(fg) == 1 and len(lg) == 1 and len(gg) == 1 and len(sg) == 1 and len(rr) == 1, 'O2/shape', f'{[e.short for e in p.trace]}', p):
            continue
        ob.require(u(lg[0].args[1]) == 'group_id' and u(gg[0].args[1]) == 'group_id' and derived_from(ob.eng, p.st, fg[0].args[0], lg[0]), 'O2/sources',
                   'MLS group / stored record / extension are not those of the given group id', p)
        ext = u(fg[0].ret) + '.Ok.0'
        g = sg[0].args[1]
        if not ob.require(isinstance(g, Opaque) and g.uid.startswith(u(gg[0].ret)), 'O2/record', 'record saved is not the loaded one', p):
            continue
        over = {gf[k[1]]: v for k, v in g.over.items()}
        expect_direct = {'name': 'name', 'description': 'description', 'image_hash': 'image_hash', 'admin_pubkeys': 'admins', 'nostr_group_id': 'nostr_group_id'}
        for gk, ek in expect_direct.items():
            want = f'{ext}.{ef.index(ek)}'
            ob.require(gk in over and u(over[gk]) == want, f'O2/field-{gk}', f'record.{gk} = {u(over.get(gk)) if gk in over else "unchanged"}, expected extension.{ek}', p)
        for gk, ek in (('image_key', 'image_key'), ('image_nonce', 'image_nonce')):
            v = over.get(gk)
            want = f'{ext}.{ef.index(ek)}'
            okv = v is not None and ((vname(v) == 'None') or (vname(v) == 'Some' and want in u(v.fields[0])) or want in u(v))
            if v is not None and vname(v) == 'None':
                # None only if the extension field is None on this path
                okv = ob.eng.prove(p, z3.BitVec(want + '#d', 64) == 0)[0]
            if v is not None and vname(v) == 'Some':
                news = [e for e in p.trace if ev_is(e, 'new') and want in u(e.args[0])]
                okv = bool(news) and u(v.fields[0]) == u(news[0].ret)
            ob.require(okv, f'O2/field-{gk}', f'record.{gk} is not extension.{ek} ({u(v) if v is not None else "unchanged"})', p)
        ep = over.get('epoch')
        ob.require(ep is not None and 'as_u64' in u(ep) and u(lg[0].ret) in u(ep), 'O2/field-epoch', f'record.epoch = {u(ep) if ep is not None else "unchanged"}, expected the MLS epoch', p)
        ob.require(set(over) <= {'name', 'description', 'image_hash', 'image_key', 'image_nonce', 'admin_pubkeys', 'nostr_group_id', 'epoch'}, 'O2/extra-fields',
                   f'sync also rewrites {sorted(set(over))}', p)
        ob.require(u(rr[0].args[1]) == 'group_id' and u(rr[0].args[2]) == f'{ext}.{ef.index("relays")}', 'O2/relays', f'relays replaced with {u(rr[0].args[2])} for {u(rr[0].args[1])}', p)
    ob.require(n_ok >= 1, 'O2/vacuity', 'no Ok path')
    ob.r.bounds = {'paths': 'all'}
    ob.r.vacuity.append(f'{len(paths)} paths, {n_ok} Ok')
    return ob.done(cases=len(paths))


def o3(tier):
    from props import memobs
    r = memobs.memory_rollback(tier, 'O3', 'O3')
    r.title = 'memory backend (shared with C09-O4): after snapshot / id rotation / rollback the Nostr-id routing index holds exactly the ids of the current records -- ' + r.title[:120]
    return r


def o4(tier):
    from props import C09
    r = C09.sqlite_columns(tier)
    r.oid = 'O4'
    r.title = 'SQLite (shared with C09-O2): rollback restores every column of the group record (no mirrored field keeps its post-snapshot value)'
    return r


def o5(tier):
    from props import C10
    r = C10.o4(tier)
    r.oid = 'O5'
    r.title = 'SQLite (shared with C10-O4): saving a group record overwrites every column and never deletes another group (colliding Nostr id is refused by the unique index, not resolved by REPLACE)'
    return r


def o6(tier):
    from props import memobs
    return memobs.save_group_refusal(tier, 'O6', 'O6')


def o7(tier):
    """the stored relay set (and every other mirrored text / blob field) is read back as written"""
    from props import C10
    r = C10.o8(tier)
    r.oid = 'O7'
    r.title = 'SQLite (shared with C10-O8): the group record, its relay set and its secrets are stored through lossless conversions only, so the stored copy mirrors the MLS extension value for value -- ' + r.title[:160]
    return r


def o8(tier):
    """a re-invited member's record is refreshed from the new invitation: the stale pre-removal record is only kept when the member is still Active"""
    from props import C16
    r = C16.o3(tier)
    r.oid = 'O8'
    r.title = 'process_welcome (shared with C16-O3): the stored group record is skipped ONLY when the lookup found an Active record; an Inactive / Pending one is overwritten from the invitation, so after a re-invitation the record mirrors the MLS state the welcome carries (epoch, name, relays, Nostr id)'
    return r


def run(tier, seed, only=None):
    obs = [('O1', o1), ('O2', o2), ('O3', o3), ('O4', o4), ('O5', o5), ('O6', o6), ('O7', o7), ('O8', o8)]
    out = []
    for k, f in obs:
        if only and k not in only:
            continue
        try:
            out.append(f(tier))
        except Exception as e:                      # an engine that cannot read the tree is an inconclusive obligation, not a crash of the whole check
            from vlib.common import Result
            rr = Result(k, 'sqlsym' if type(e).__name__ == 'SqlError' else 'mirsym', f.__doc__ or f.__name__)
            rr.broken(f'{type(e).__name__}: {e}')
            out.append(rr)
    return out
