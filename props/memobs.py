"""E3c obligations on the memory backend (shared by C06, C10, C18, C02, C08, C09)."""
import itertools
import z3

from mirsym.api import Ob, guard, StatePath, Opaque, Agg, Ref, vname, ret_shape
from mirsym.engine import State
from mirsym.values import Tok, SeqV, MapV
from mirsym import models as M
from props.memharness import *

INL_MSG = {'limit', 'offset', 'sort_order', 'display_order_cmp', 'processed_at_order_cmp', 'compare_display_keys', 'compare_processed_at_keys', 'default'}
MAXL = 10000


def before(mode, x, y):
    """x is listed strictly before y (newest first) in the documented order of `mode`"""
    cx, px, ix = key_of(x)
    cy, py, iy = key_of(y)
    ks = [(cx, cy), (px, py), (ix, iy)] if mode == 'CreatedAtFirst' else [(px, py), (cx, cy), (ix, iy)]
    cl, eq = [], []
    for a, b in ks:
        cl.append(z3.And(*eq, z3.UGT(a, b)) if eq else z3.UGT(a, b))
        eq.append(a == b)
    return z3.Or(cl)


@guard
def messages_listing(tier, oid='O3', prefix='O3'):
    """memory messages(): never panics, refuses limits outside 1..=MAX, returns exactly the slice [min(o,n), min(o+l,n)) of the documented total order"""
    NMAX = 2 if tier == 'quick' else 3
    ob = Ob(oid, f'memory backend messages(): for 0..{NMAX} stored messages with symbolic sort keys (ties included), every sort mode, ALL usize limits and offsets: no panic; limit outside 1..={MAXL} refused; '
                 'the page is exactly positions [min(o,n), min(o+l,n)) of the documented newest-first total order', crates=CRATES, inline=INL_MSG, loop_bound=10, max_paths=400000)
    f = ob.prog.find(MEM, 'groups::messages')
    G = Tok('g', 0)
    total = n_ok = 0
    modes_seen = set()
    for n in range(NMAX + 1):
        st = State()
        ms = [message(f'm{i}', G) for i in range(n)]
        for a, b in itertools.combinations(ms, 2):
            st.pc.append(mfield(a, 'id').fields[0] != mfield(b, 'id').fields[0])        # map keys are distinct
        msgs = MapV([[mfield(m, 'id'), m] for m in ms], 'HashMap')
        caches = {'groups_cache': MapV([[G, group('g0', G)]], 'LruCache')}
        if n:
            caches['messages_by_group_cache'] = MapV([[G, msgs]], 'LruCache')
        sref = storage(st, caches)
        lim, off = z3.BitVec('limit', 64), z3.BitVec('offset', 64)
        so = Opaque('sort', 'std::option::Option<mdk_storage_traits::groups::MessageSortOrder>')
        pag = M.SOME(Agg('struct', 'mdk_storage_traits::groups::Pagination', None, [M.SOME(lim), M.SOME(off), so]))
        paths = ob.explore(f, [sref, Ref(st.temp(G), ()), pag], st)
        nn = z3.BitVecVal(n, 64)
        start = z3.If(z3.ULT(off, nn), off, nn)
        endsat = z3.If(z3.BVAddNoOverflow(off, lim, False), off + lim, z3.BitVecVal(-1, 64))
        end = z3.If(z3.ULT(endsat, nn), endsat, nn)
        for p in paths:
            total += 1
            if p.kind == 'panic':
                m_ = ob.eng.model(p.pc)
                ob.require(False, f'{prefix}/memory-messages-panic', f'memory messages() panics ({p.msg}) e.g. for limit={m_.eval(lim, True) if m_ else "?"}, offset={m_.eval(off, True) if m_ else "?"} with {n} stored message(s)', p)
                continue
            valid = z3.And(z3.UGE(lim, 1), z3.ULE(lim, MAXL))
            if vname(p.ret) == 'Err':
                ob.prove(p, z3.Not(valid), f'{prefix}/memory-valid-limit-refused', 'memory messages() refuses a limit inside 1..=MAX')
                continue
            n_ok += 1
            res = p.ret.fields[0]
            if not ob.require(isinstance(res, SeqV), f'{prefix}/memory-result-shape', 'result is not a list', p):
                continue
            L = len(res.items)
            claims = [(valid, f'{prefix}/memory-invalid-limit-accepted', f'memory messages() accepts a limit outside 1..={MAXL}'),
                      (z3.BitVecVal(L, 64) == end - start, f'{prefix}/memory-page-size', f'page holds {L} message(s) but positions [min(o,n), min(o+l,n)) hold a different number (n={n})')]
            # which order was requested on this path
            sd = so.discriminant()
            if ob.eng.prove(p, sd == 0)[0]:
                mode = 'CreatedAtFirst'
            else:
                inner = so.child('Some', 0, 'mdk_storage_traits::groups::MessageSortOrder').discriminant()
                mode = 'ProcessedAtFirst' if ob.eng.prove(p, inner == 1)[0] else 'CreatedAtFirst'
            modes_seen.add(mode)
            for i, x in enumerate(res.items):
                rank = z3.Sum([z3.If(before(mode, y, x), 1, 0) for y in ms]) if ms else z3.IntVal(0)
                claims.append((rank == z3.BV2Int(start) + i, f'{prefix}/memory-page-content',
                               f'position {i} of the page is not element min(o,n)+{i} of the {mode} order (wrong order, gap or repeat)'))
                claims.append((z3.Or([z3.And(mfield(x, 'id').fields[0] == mfield(y, 'id').fields[0], mfield(x, 'created_at').fields[0] == mfield(y, 'created_at').fields[0]) for y in ms]) if ms else z3.BoolVal(False),
                               f'{prefix}/memory-foreign-element', 'page contains something that is not a stored message of the group'))
            ob.prove_all(p, claims)
        # unknown group is refused
    ob.require(n_ok > 10 and modes_seen == {'CreatedAtFirst', 'ProcessedAtFirst'}, f'{prefix}/vacuity', f'ok paths {n_ok}, modes {modes_seen}')
    ob.r.bounds = {'stored messages': f'0..{NMAX}', 'limit / offset': 'all usize', 'sort keys': 'all u64 timestamps, 256-bit ids (distinct ids)', 'sort mode': 'None / CreatedAtFirst / ProcessedAtFirst'}
    ob.r.assumptions += ASSUMPTIONS + ['slice::sort_by modelled as an insertion sort driven by the real comparator closures']
    ob.r.vacuity.append(f'{total} paths, {n_ok} successful listings, modes {sorted(modes_seen)}')
    return ob.done(cases=total)


def proc_msg(tag, gid_val):
    """ProcessedMessage {wrapper_event_id, message_event_id, processed_at, epoch, mls_group_id, state, failure_reason}"""
    names = ['wrapper_event_id', 'message_event_id', 'processed_at', 'epoch', 'mls_group_id', 'state', 'failure_reason']
    f = {'wrapper_event_id': eid(z3.BitVec(f'{tag}_w', 256)), 'message_event_id': Opaque(f'{tag}_mid', 'std::option::Option<nostr::event::EventId>'),
         'processed_at': ts(z3.BitVec(f'{tag}_at', 64)), 'epoch': Opaque(f'{tag}_epoch', 'std::option::Option<u64>'), 'mls_group_id': gid_val,
         'state': Opaque(f'{tag}_state', 'mdk_storage_traits::messages::types::ProcessedMessageState'), 'failure_reason': Opaque(f'{tag}_fr', 'std::option::Option<std::string::String>')}
    return Agg('struct', 'mdk_storage_traits::messages::types::ProcessedMessage', None, [f[n] for n in names], names)


@guard
def invalidation(tier, oid='O4', prefix='O4'):
    """memory invalidate_*_after_epoch select exactly the contract's records"""
    ob = Ob(oid, 'memory backend invalidate_messages_after_epoch / invalidate_processed_messages_after_epoch(g, e): exactly the records of group g with epoch = Some(x), x > e become EpochInvalidated, '
                 'exactly their ids are returned, every other record (other groups, epoch None or <= e) is untouched', crates=CRATES, loop_bound=10)
    G, H = Tok('g', 0), Tok('g', 1)
    total = 0
    e = z3.BitVec('e', 64)
    # ---- messages
    f = ob.prog.find(MEM, 'messages::invalidate_messages_after_epoch')
    st = State()
    ms = [message('m0', G), message('m1', G)]
    hs = [message('h0', H)]
    allm = ms + hs
    for a, b in itertools.combinations(allm, 2):
        st.pc.append(mfield(a, 'id').fields[0] != mfield(b, 'id').fields[0])
    caches = {'groups_cache': MapV([[G, group('g0', G)], [H, group('h0', H)]], 'LruCache'),
              'messages_by_group_cache': MapV([[G, MapV([[mfield(m, 'id'), m] for m in ms], 'HashMap')], [H, MapV([[mfield(m, 'id'), m] for m in hs], 'HashMap')]], 'LruCache'),
              'messages_cache': MapV([[mfield(m, 'id'), copy_msg(m)] for m in allm], 'LruCache')}
    sref = storage(st, caches)
    paths = ob.explore(f, [sref, Ref(st.temp(G), ()), e], st)
    inv_idx = ob.prog.cat.discr_values('MessageState', 'mdk_storage_traits::messages::types')['EpochInvalidated']
    for p in paths:
        total += 1
        if p.kind == 'panic':
            ob.require(False, f'{prefix}/memory-invalidate-panic', p.msg, p); continue
        if not ob.require(vname(p.ret) == 'Ok', f'{prefix}/memory-invalidate-err', 'invalidate_messages_after_epoch fails', p):
            continue
        ids = p.ret.fields[0].items
        byg = cache(ob.eng, p.st, sref, 'messages_by_group_cache')
        glob = cache(ob.eng, p.st, sref, 'messages_cache')
        claims = []
        n_sel = 0
        for gid, orig in ((G, ms), (H, hs)):
            mp = [v for k, v in byg.entries if k == gid][0]
            for om in orig:
                cur = [v for k, v in mp.entries if ob.eng.prove(p, M.val_eq(ob.eng, k, mfield(om, 'id')))[0]]
                if not ob.require(len(cur) == 1, f'{prefix}/memory-message-lost', 'a stored message disappeared', p):
                    continue
                cur = cur[0]
                ep = mfield(om, 'epoch')
                sel = z3.And(ep.discriminant() == 1, z3.UGT(ep.child('Some', 0, 'u64'), e)) if gid == G else z3.BoolVal(False)
                selected = ob.eng.prove(p, sel)[0]
                notsel = ob.eng.prove(p, z3.Not(sel))[0]
                if not ob.require(selected or notsel, f'{prefix}/memory-predicate-undecided', 'invalidation does not decide epoch > e for a message of the group', p):
                    continue
                stv = mfield(cur, 'state')
                gl = [v for k, v in glob.entries if ob.eng.prove(p, M.val_eq(ob.eng, k, mfield(om, 'id')))[0]][0]
                if selected:
                    n_sel += 1
                    ob.require(vname(stv) == 'EpochInvalidated' and vname(mfield(gl, 'state')) == 'EpochInvalidated', f'{prefix}/memory-not-invalidated',
                               'a message of the group with epoch > e is not marked EpochInvalidated (in the per-group map or the by-id cache)', p)
                    ob.require(any(ob.eng.prove(p, M.val_eq(ob.eng, i, mfield(om, 'id')))[0] for i in ids), f'{prefix}/memory-id-not-returned', 'an invalidated message id is not returned', p)
                else:
                    ob.require(stv is mfield(om, 'state') or (isinstance(stv, Opaque) and stv.uid == mfield(om, 'state').uid and not stv.over), f'{prefix}/memory-wrongly-invalidated',
                               f'a message that must stay valid (other group, epoch None or <= e) had its state rewritten to {vname(stv)}', p)
                    ob.require(not any(ob.eng.prove(p, M.val_eq(ob.eng, i, mfield(om, 'id')))[0] for i in ids), f'{prefix}/memory-extra-id', 'id of an untouched message is returned', p)
        ob.require(len(ids) == n_sel, f'{prefix}/memory-id-count', f'{len(ids)} ids returned for {n_sel} invalidated messages', p)
    # ---- processed messages
    f2 = ob.prog.find(MEM, 'messages::invalidate_processed_messages_after_epoch')
    st = State()
    ps = [proc_msg('p0', M.SOME(G)), proc_msg('p1', M.SOME(H)), proc_msg('p2', NONE_GID())]
    for a, b in itertools.combinations(ps, 2):
        st.pc.append(a.fields[0].fields[0] != b.fields[0].fields[0])
    sref = storage(st, {'processed_messages_cache': MapV([[x.fields[0], x] for x in ps], 'LruCache')})
    paths = ob.explore(f2, [sref, Ref(st.temp(G), ()), e], st)
    for p in paths:
        total += 1
        if p.kind == 'panic':
            ob.require(False, f'{prefix}/memory-invalidate-processed-panic', p.msg, p); continue
        if vname(p.ret) != 'Ok':
            continue
        ids = p.ret.fields[0].items
        pc_ = cache(ob.eng, p.st, sref, 'processed_messages_cache')
        n_sel = 0
        for k, om in enumerate(ps):
            cur = pc_.entries[k][1]
            ep = om.fields[3]
            sel = z3.And(ep.discriminant() == 1, z3.UGT(ep.child('Some', 0, 'u64'), e)) if k == 0 else z3.BoolVal(False)
            selected, notsel = ob.eng.prove(p, sel)[0], ob.eng.prove(p, z3.Not(sel))[0]
            if not ob.require(selected or notsel, f'{prefix}/memory-processed-predicate-undecided', 'invalidation of processed records does not decide epoch > e', p):
                continue
            if selected:
                n_sel += 1
                ob.require(vname(cur.fields[5]) == 'EpochInvalidated', f'{prefix}/memory-processed-not-invalidated', 'a processed record of the group with epoch > e is not marked EpochInvalidated', p)
            else:
                stv = cur.fields[5]
                ob.require(isinstance(stv, Opaque) and stv.uid == om.fields[5].uid, f'{prefix}/memory-processed-wrongly-invalidated',
                           f'a processed record that must stay (other group / no group / epoch None or <= e) was rewritten to {vname(stv)}', p)
        ob.require(len(ids) == n_sel, f'{prefix}/memory-processed-id-count', f'{len(ids)} ids returned for {n_sel} invalidated records', p)
    ob.r.bounds = {'records': '2 messages of the group + 1 of another group; 3 processed records (group, other group, no group)', 'epochs': 'all u64 / None', 'e': 'all u64'}
    ob.r.assumptions += ASSUMPTIONS
    ob.r.vacuity.append(f'{total} paths')
    return ob.done(cases=total)


def NONE_GID():
    return M.NONE()


def copy_msg(m):
    from mirsym.values import copy_val
    return copy_val(m)
