"""E3c obligations on the memory backend (shared by C06, C10, C18, C02, C08, C09)."""
import itertools, os, re
import z3
from vlib.common import REPO as REPO_DIR

from mirsym.api import Ob, guard, StatePath, Opaque, Agg, Ref, vname, ret_shape
from mirsym.engine import State
from mirsym.values import Tok, SeqV, MapV, StrV
from mirsym.api import ev_is
from mirsym import models as M
from props.memharness import *

INL_MSG = {'limit', 'offset', 'sort_order', 'display_order_cmp', 'processed_at_order_cmp', 'compare_display_keys', 'compare_processed_at_keys', 'default'}
MAXL = 10000


def before(mode, x, y):
    """x is listed strictly before y (newest first) in the documented order of `mode`"""
    cx, px, ix = key_of(x)
    cy, py, iy = key_of(y)
    ks = [(cx, cy), (px, py), (ix, iy)] if mode == 'CreatedAtFirst' else [(px, py), (cx, cy), (ix, iy)]
    cl, eq = [], []
    for a, b in ks:
        cl.append(z3.And(*eq, z3.UGT(a, b)) if eq else z3.UGT(a, b))
        eq.append(a == b)
    return z3.Or(cl)


@guard
def messages_listing(tier, oid='O3', prefix='O3'):
    """memory messages(): never panics, refuses limits outside 1..=MAX, returns exactly the slice [min(o,n), min(o+l,n)) of the documented total order"""
    NMAX = 2 if tier == 'quick' else 3
    ob = Ob(oid, f'memory backend messages(): for 0..{NMAX} stored messages with symbolic sort keys (ties included), every sort mode, ALL usize limits and offsets: no panic; limit outside 1..={MAXL} refused; '
                 'the page is exactly positions [min(o,n), min(o+l,n)) of the documented newest-first total order', crates=CRATES, inline=INL_MSG, loop_bound=10, max_paths=400000)
    f = ob.prog.find(MEM, 'groups::messages')
    G = Tok('g', 0)
    total = n_ok = 0
    modes_seen = set()
    for n in range(NMAX + 1):
        st = State()
        ms = [message(f'm{i}', G) for i in range(n)]
        for a, b in itertools.combinations(ms, 2):
            st.pc.append(mfield(a, 'id').fields[0] != mfield(b, 'id').fields[0])        # map keys are distinct
        msgs = MapV([[mfield(m, 'id'), m] for m in ms], 'HashMap')
        caches = {'groups_cache': MapV([[G, group('g0', G)]], 'LruCache')}
        if n:
            caches['messages_by_group_cache'] = MapV([[G, msgs]], 'LruCache')
        sref = storage(st, caches)
        lim, off = z3.BitVec('limit', 64), z3.BitVec('offset', 64)
        so = Opaque('sort', 'std::option::Option<mdk_storage_traits::groups::MessageSortOrder>')
        pag = M.SOME(Agg('struct', 'mdk_storage_traits::groups::Pagination', None, [M.SOME(lim), M.SOME(off), so]))
        paths = ob.explore(f, [sref, Ref(st.temp(G), ()), pag], st)
        nn = z3.BitVecVal(n, 64)
        start = z3.If(z3.ULT(off, nn), off, nn)
        endsat = z3.If(z3.BVAddNoOverflow(off, lim, False), off + lim, z3.BitVecVal(-1, 64))
        end = z3.If(z3.ULT(endsat, nn), endsat, nn)
        for p in paths:
            total += 1
            if p.kind == 'panic':
                m_ = ob.eng.model(p.pc)
                ob.require(False, f'{prefix}/memory-messages-panic', f'memory messages() panics ({p.msg}) e.g. for limit={m_.eval(lim, True) if m_ else "?"}, offset={m_.eval(off, True) if m_ else "?"} with {n} stored message(s)', p)
                continue
            valid = z3.And(z3.UGE(lim, 1), z3.ULE(lim, MAXL))
            if vname(p.ret) == 'Err':
                ob.prove(p, z3.Not(valid), f'{prefix}/memory-valid-limit-refused', 'memory messages() refuses a limit inside 1..=MAX')
                continue
            n_ok += 1
            res = p.ret.fields[0]
            if not ob.require(isinstance(res, SeqV), f'{prefix}/memory-result-shape', 'result is not a list', p):
                continue
            L = len(res.items)
            claims = [(valid, f'{prefix}/memory-invalid-limit-accepted', f'memory messages() accepts a limit outside 1..={MAXL}'),
                      (z3.BitVecVal(L, 64) == end - start, f'{prefix}/memory-page-size', f'page holds {L} message(s) but positions [min(o,n), min(o+l,n)) hold a different number (n={n})')]
            # which order was requested on this path
            sd = so.discriminant()
            if ob.eng.prove(p, sd == 0)[0]:
                mode = 'CreatedAtFirst'
            else:
                inner = so.child('Some', 0, 'mdk_storage_traits::groups::MessageSortOrder').discriminant()
                mode = 'ProcessedAtFirst' if ob.eng.prove(p, inner == 1)[0] else 'CreatedAtFirst'
            modes_seen.add(mode)
            for i, x in enumerate(res.items):
                rank = sum([z3.If(before(mode, y, x), z3.BitVecVal(1, 64), z3.BitVecVal(0, 64)) for y in ms], z3.BitVecVal(0, 64))      # pure bit-vector arithmetic (n <= 3: no overflow)
                claims.append((rank == start + i, f'{prefix}/memory-page-content',
                               f'position {i} of the page is not element min(o,n)+{i} of the {mode} order (wrong order, gap or repeat)'))
                claims.append((z3.Or([z3.And(mfield(x, 'id').fields[0] == mfield(y, 'id').fields[0], mfield(x, 'created_at').fields[0] == mfield(y, 'created_at').fields[0]) for y in ms]) if ms else z3.BoolVal(False),
                               f'{prefix}/memory-foreign-element', 'page contains something that is not a stored message of the group'))
            ob.prove_all(p, claims)
        # unknown group is refused
    ob.require(n_ok > 10 and modes_seen == {'CreatedAtFirst', 'ProcessedAtFirst'}, f'{prefix}/vacuity', f'ok paths {n_ok}, modes {modes_seen}')
    ob.r.bounds = {'stored messages': f'0..{NMAX}', 'limit / offset': 'all usize', 'sort keys': 'all u64 timestamps, 256-bit ids (distinct ids)', 'sort mode': 'None / CreatedAtFirst / ProcessedAtFirst'}
    ob.r.assumptions += ASSUMPTIONS + ['slice::sort_by modelled as an insertion sort driven by the real comparator closures']
    ob.r.vacuity.append(f'{total} paths, {n_ok} successful listings, modes {sorted(modes_seen)}')
    return ob.done(cases=total)


def proc_msg(tag, gid_val):
    """ProcessedMessage {wrapper_event_id, message_event_id, processed_at, epoch, mls_group_id, state, failure_reason}"""
    names = ['wrapper_event_id', 'message_event_id', 'processed_at', 'epoch', 'mls_group_id', 'state', 'failure_reason']
    f = {'wrapper_event_id': eid(z3.BitVec(f'{tag}_w', 256)), 'message_event_id': Opaque(f'{tag}_mid', 'std::option::Option<nostr::event::EventId>'),
         'processed_at': ts(z3.BitVec(f'{tag}_at', 64)), 'epoch': Opaque(f'{tag}_epoch', 'std::option::Option<u64>'), 'mls_group_id': gid_val,
         'state': Opaque(f'{tag}_state', 'mdk_storage_traits::messages::types::ProcessedMessageState'), 'failure_reason': Opaque(f'{tag}_fr', 'std::option::Option<std::string::String>')}
    return Agg('struct', 'mdk_storage_traits::messages::types::ProcessedMessage', None, [f[n] for n in names], names)


def _same_value(a, b):
    """the value read back is the value stored (same opaque value, or the same enum variant with the same payload)"""
    if a is b:
        return True
    if isinstance(a, Opaque) and isinstance(b, Opaque):
        return a.uid == b.uid and not a.over and not b.over
    if isinstance(a, Agg) and isinstance(b, Agg):
        return a.variant == b.variant and len(a.fields) == len(b.fields) and all(_same_value(x, y) for x, y in zip(a.fields, b.fields))
    if z3.is_expr(a) and z3.is_expr(b):
        return a.eq(b)
    return False


@guard
def invalidation(tier, oid='O4', prefix='O4'):
    """memory invalidate_*_after_epoch select exactly the contract's records"""
    ob = Ob(oid, 'memory backend invalidate_messages_after_epoch / invalidate_processed_messages_after_epoch(g, e): exactly the records of group g with epoch = Some(x), x > e become EpochInvalidated, '
                 'exactly their ids are returned, every other record (other groups, epoch None or <= e) is untouched', crates=CRATES, loop_bound=10)
    G, H = Tok('g', 0), Tok('g', 1)
    total = 0
    e = z3.BitVec('e', 64)
    # ---- messages
    f = ob.prog.find(MEM, 'messages::invalidate_messages_after_epoch')
    st = State()
    ms = [message('m0', G), message('m1', G)]
    hs = [message('h0', H)]
    allm = ms + hs
    for a, b in itertools.combinations(allm, 2):
        st.pc.append(mfield(a, 'id').fields[0] != mfield(b, 'id').fields[0])
    caches = {'groups_cache': MapV([[G, group('g0', G)], [H, group('h0', H)]], 'LruCache'),
              # the store holds COPIES: the originals in ms / hs stay as the reference values the post-state is compared with, whichever path mutates the store in place
              'messages_by_group_cache': MapV([[G, MapV([[mfield(m, 'id'), copy_msg(m)] for m in ms], 'HashMap')], [H, MapV([[mfield(m, 'id'), copy_msg(m)] for m in hs], 'HashMap')]], 'LruCache'),
              'messages_cache': MapV([[mfield(m, 'id'), copy_msg(m)] for m in allm], 'LruCache')}
    sref = storage(st, caches)
    paths = ob.explore(f, [sref, Ref(st.temp(G), ()), e], st)
    inv_idx = ob.prog.cat.discr_values('MessageState', 'mdk_storage_traits::messages::types')['EpochInvalidated']
    for p in paths:
        total += 1
        if p.kind == 'panic':
            ob.require(False, f'{prefix}/memory-invalidate-panic', p.msg, p); continue
        if not ob.require(vname(p.ret) == 'Ok', f'{prefix}/memory-invalidate-err', 'invalidate_messages_after_epoch fails', p):
            continue
        ids = p.ret.fields[0].items
        byg = cache(ob.eng, p.st, sref, 'messages_by_group_cache')
        glob = cache(ob.eng, p.st, sref, 'messages_cache')
        claims = []
        n_sel = 0
        for gid, orig in ((G, ms), (H, hs)):
            mp = [v for k, v in byg.entries if k == gid][0]
            for om in orig:
                cur = [v for k, v in mp.entries if ob.eng.prove(p, M.val_eq(ob.eng, k, mfield(om, 'id')))[0]]
                if not ob.require(len(cur) == 1, f'{prefix}/memory-message-lost', 'a stored message disappeared', p):
                    continue
                cur = cur[0]
                ep = mfield(om, 'epoch')
                sel = z3.And(ep.discriminant() == 1, z3.UGT(ep.child('Some', 0, 'u64'), e)) if gid == G else z3.BoolVal(False)
                selected = ob.eng.prove(p, sel)[0]
                notsel = ob.eng.prove(p, z3.Not(sel))[0]
                if not ob.require(selected or notsel, f'{prefix}/memory-predicate-undecided', 'invalidation does not decide epoch > e for a message of the group', p):
                    continue
                stv = mfield(cur, 'state')
                gl = [v for k, v in glob.entries if ob.eng.prove(p, M.val_eq(ob.eng, k, mfield(om, 'id')))[0]][0]
                if selected:
                    n_sel += 1
                    ob.require(vname(stv) == 'EpochInvalidated' and vname(mfield(gl, 'state')) == 'EpochInvalidated', f'{prefix}/memory-not-invalidated',
                               'a message of the group with epoch > e is not marked EpochInvalidated (in the per-group map or the by-id cache)', p)
                    ob.require(any(ob.eng.prove(p, M.val_eq(ob.eng, i, mfield(om, 'id')))[0] for i in ids), f'{prefix}/memory-id-not-returned', 'an invalidated message id is not returned', p)
                else:
                    ob.require(_same_value(stv, mfield(om, 'state')), f'{prefix}/memory-wrongly-invalidated',
                               f'a message that must stay valid (other group, epoch None or <= e) had its state rewritten to {vname(stv) or repr(stv)[:80]} (was {repr(mfield(om, "state"))[:80]})', p)
                    ob.require(not any(ob.eng.prove(p, M.val_eq(ob.eng, i, mfield(om, 'id')))[0] for i in ids), f'{prefix}/memory-extra-id', 'id of an untouched message is returned', p)
        ob.require(len(ids) == n_sel, f'{prefix}/memory-id-count', f'{len(ids)} ids returned for {n_sel} invalidated messages', p)
    # ---- processed messages
    f2 = ob.prog.find(MEM, 'messages::invalidate_processed_messages_after_epoch')
    st = State()
    ps = [proc_msg('p0', M.SOME(G)), proc_msg('p1', M.SOME(H)), proc_msg('p2', NONE_GID())]
    for a, b in itertools.combinations(ps, 2):
        st.pc.append(a.fields[0].fields[0] != b.fields[0].fields[0])
    sref = storage(st, {'processed_messages_cache': MapV([[x.fields[0], x] for x in ps], 'LruCache')})
    paths = ob.explore(f2, [sref, Ref(st.temp(G), ()), e], st)
    for p in paths:
        total += 1
        if p.kind == 'panic':
            ob.require(False, f'{prefix}/memory-invalidate-processed-panic', p.msg, p); continue
        if vname(p.ret) != 'Ok':
            continue
        ids = p.ret.fields[0].items
        pc_ = cache(ob.eng, p.st, sref, 'processed_messages_cache')
        n_sel = 0
        for k, om in enumerate(ps):
            cur = pc_.entries[k][1]
            ep = om.fields[3]
            sel = z3.And(ep.discriminant() == 1, z3.UGT(ep.child('Some', 0, 'u64'), e)) if k == 0 else z3.BoolVal(False)
            selected, notsel = ob.eng.prove(p, sel)[0], ob.eng.prove(p, z3.Not(sel))[0]
            if not ob.require(selected or notsel, f'{prefix}/memory-processed-predicate-undecided', 'invalidation of processed records does not decide epoch > e', p):
                continue
            if selected:
                n_sel += 1
                ob.require(vname(cur.fields[5]) == 'EpochInvalidated', f'{prefix}/memory-processed-not-invalidated', 'a processed record of the group with epoch > e is not marked EpochInvalidated', p)
            else:
                stv = cur.fields[5]
                ob.require(isinstance(stv, Opaque) and stv.uid == om.fields[5].uid, f'{prefix}/memory-processed-wrongly-invalidated',
                           f'a processed record that must stay (other group / no group / epoch None or <= e) was rewritten to {vname(stv)}', p)
        ob.require(len(ids) == n_sel, f'{prefix}/memory-processed-id-count', f'{len(ids)} ids returned for {n_sel} invalidated records', p)
    ob.r.bounds = {'records': '2 messages of the group + 1 of another group; 3 processed records (group, other group, no group)', 'epochs': 'all u64 / None', 'e': 'all u64'}
    ob.r.assumptions += ASSUMPTIONS
    ob.r.vacuity.append(f'{total} paths')
    return ob.done(cases=total)


def NONE_GID():
    return M.NONE()


def copy_msg(m):
    from mirsym.values import copy_val
    return copy_val(m)


# ---------------------------------------------------------------------------------------------------------------------------
# snapshot / rollback of the memory backend (C09 memory half, C08 routing index after rollback)

def gb(g):
    """MlsCodec-serialised group id bytes as a token derived from the group token"""
    return Tok('gb', g.k)


def snapshot_models():
    import re as _re

    def serialize(eng, st, call):
        v = M.deref_all(eng, st, call.args[0])
        if isinstance(v, Tok) and v.pool == 'g':
            return [(st, M.OK(gb(v)))]
        return None

    def inner(eng, st, call):          # GroupId::inner(&self) -> &openmls GroupId : same token
        return [(st, call.args[0])]

    def to_string(eng, st, call):
        from mirsym.values import copy_val
        return [(st, copy_val(M.deref_all(eng, st, call.args[0])))]

    return [(_re.compile(r'MlsCodec::serialize::<'), serialize), (_re.compile(r'GroupId::inner$'), inner), (_re.compile(r'^<str as ToString>::to_string$'), to_string)]


def mls_store(entries):
    return Agg('struct', 'MlsStore', None, [MapV(entries, 'HashMap')])


def dump_store(eng, st, sref):
    """canonical observable content of the store: {cache name: sorted list of (key repr, value repr)}"""
    from mirsym.values import vrepr
    inn = inner_of(eng, st, sref)
    out = {}
    for n, v in zip(INNER_FIELDS, inn.fields):
        mp = v.fields[0] if isinstance(v, Agg) and v.ty == 'MlsStore' else v
        if isinstance(mp, MapV):
            out[n] = sorted((owner_of(k, x) + '|' + vrepr(k), srepr(x)) for k, x in mp.entries)
    s = eng.read(st, sref.loc, sref.path)
    snaps = s.fields[2].fields[0]
    out['#snapshots'] = sorted(vrepr(k) for k, x in snaps.entries)
    return out


def owner_of(k, x=None):
    """'G0' / 'G1' ...: the group a cache entry belongs to (from its key, or from the record for the nostr-id index)"""
    t = k.fields[0] if isinstance(k, Agg) and k.fields else k
    if isinstance(t, Tok) and t.pool in ('g', 'gb'):
        return f'G{t.k}'
    if isinstance(x, Agg) and x.names and 'mls_group_id' in x.names:
        g = x.fields[x.names.index('mls_group_id')]
        if isinstance(g, Tok):
            return f'G{g.k}'
    return 'G?'


def srepr(x):
    from mirsym.values import vrepr
    if isinstance(x, Agg):
        return x.kind + '(' + ','.join(srepr(f) for f in x.fields) + ')'
    if isinstance(x, (MapV,)):
        return 'Map{' + ','.join(sorted(vrepr(k) + ':' + srepr(v) for k, v in x.entries)) + '}'
    if isinstance(x, SeqV):
        return 'Seq[' + ','.join(srepr(v) for v in x.items) + ']'
    return vrepr(x)


@guard
def memory_rollback(tier, oid='O4', prefix='O4'):
    """memory backend: create snapshot; mutate; rollback == frame condition + routing index consistency"""
    ob = Ob(oid, 'memory backend create_group_snapshot / (mutations) / rollback_group_to_snapshot: afterwards the record, relays of the group, exporter secrets and MLS rows equal the snapshot-time values, '
                 'the Nostr-id index holds exactly the ids of the current records (no stale entry, restored id resolvable), everything of the other group, all messages and other snapshots are untouched, the snapshot is consumed',
            crates=CRATES, models=snapshot_models(), loop_bound=12, assume_ok=['SystemTime::duration_since'],
            inline={'create_group_scoped_snapshot', 'restore_group_scoped_snapshot'}, max_paths=400000)
    f_create = ob.prog.find(MEM, 'create_group_snapshot')
    f_roll = ob.prog.find(MEM, 'rollback_group_to_snapshot')
    f_save = ob.prog.find(MEM, 'groups::save_group')
    f_rel = ob.prog.find(MEM, 'release_group_snapshot')
    G, H = Tok('g', 0), Tok('g', 1)
    N = [Tok('n', k) for k in range(3)]
    total = 0
    scenarios = 0
    # mutations between snapshot and rollback: which nostr id the group is re-saved with (None = not re-saved), whether the other group is re-saved too
    import itertools
    for g_new_nid, other_changes, extra_snapshot, empty in itertools.product((None, N[0], N[2]), (False, True), (False, 'before', 'after', 'retake'), (False, True)):
        if True:
            if True:
                # `empty`: at snapshot time the group has NO relays, exporter secrets, own-leaf and epoch-key rows; they appear afterwards
                # and the rollback must remove them again (restoring "nothing" is also restoring)
                scenarios += 1
                st = State()
                g0, h0 = group('g0', G, N[0]), group('h0', H, N[1])
                m0 = message('m0', G)
                caches = {
                    'mls_group_data': mls_store([[Agg('tuple', None, None, [gb(G), Tok('dt', 0)]), Opaque('mlsG', 'Vec<u8>')], [Agg('tuple', None, None, [gb(H), Tok('dt', 0)]), Opaque('mlsH', 'Vec<u8>')]]),
                    'mls_own_leaf_nodes': mls_store([[gb(G), SeqV([Opaque('leafG', 'Vec<u8>')], 'Vec')]]),
                    'mls_proposals': mls_store([[Agg('tuple', None, None, [gb(H), Tok('pr', 0)]), Opaque('propH', 'Vec<u8>')]]),
                    'mls_epoch_key_pairs': mls_store([[Agg('tuple', None, None, [gb(G), Tok('ep', 0), z3.BitVecVal(0, 32)]), Opaque('kpG', 'Vec<u8>')]]),
                    'groups_cache': MapV([[G, g0], [H, h0]], 'LruCache'),
                    'groups_by_nostr_id_cache': MapV([[N[0], copy_msg(g0)], [N[1], copy_msg(h0)]], 'LruCache'),
                    'group_relays_cache': MapV([[G, MapV([[Opaque('relayG', 'GroupRelay'), M.UNIT()]], 'BTreeSet', True)], [H, MapV([[Opaque('relayH', 'GroupRelay'), M.UNIT()]], 'BTreeSet', True)]], 'LruCache'),
                    'messages_by_group_cache': MapV([[G, MapV([[mfield(m0, 'id'), m0]], 'HashMap')]], 'LruCache'),
                    'messages_cache': MapV([[mfield(m0, 'id'), copy_msg(m0)]], 'LruCache'),
                    'group_exporter_secrets_cache': MapV([[Agg('tuple', None, None, [G, z3.BitVecVal(1, 64)]), Opaque('secG1', 'GroupExporterSecret')],
                                                          [Agg('tuple', None, None, [H, z3.BitVecVal(1, 64)]), Opaque('secH1', 'GroupExporterSecret')]], 'LruCache'),
                }
                if empty:
                    caches['mls_own_leaf_nodes'] = mls_store([])
                    caches['mls_epoch_key_pairs'] = mls_store([])
                    caches['group_relays_cache'] = MapV([[H, MapV([[Opaque('relayH', 'GroupRelay'), M.UNIT()]], 'BTreeSet', True)]], 'LruCache')
                    caches['group_exporter_secrets_cache'] = MapV([[Agg('tuple', None, None, [H, z3.BitVecVal(1, 64)]), Opaque('secH1', 'GroupExporterSecret')]], 'LruCache')
                sref = storage(st, caches)
                name = Ref(st.temp(StrV(text='s')), ())
                gref = Ref(st.temp(G), ())
                ps = [p for p in ob.explore(f_create, [sref, gref, name], st) if p.kind == 'return']
                if not ob.require(len(ps) == 1 and vname(ps[0].ret) == 'Ok', f'{prefix}/memory-create-snapshot', 'create_group_snapshot does not succeed deterministically'):
                    continue
                st = ps[0].st
                at_snapshot = dump_store(ob.eng, st, sref)
                # taking a snapshot changes no live state
                before_live = {k: v for k, v in at_snapshot.items() if k != '#snapshots'}
                if extra_snapshot == 'before':
                    n2 = Ref(st.temp(StrV(text='other')), ())
                    st = [p for p in ob.explore(f_create, [sref, gref, n2], st) if p.kind == 'return'][0].st
                # mutations through the real save_group / direct writes of dependent caches
                if g_new_nid is not None:
                    g1 = group('g1', G, g_new_nid)
                    rs = [p for p in ob.explore(f_save, [sref, g1], st) if p.kind == 'return' and vname(p.ret) == 'Ok']
                    if not rs:
                        continue
                    st = rs[0].st
                if g_new_nid is not None or empty:
                    inn = inner_of(ob.eng, st, sref)
                    rc = inn.fields[INNER_FIELDS.index('group_relays_cache')]
                    newrel = MapV([[Opaque('relayG2', 'GroupRelay'), M.UNIT()]], 'BTreeSet', True)
                    mine_ = [e for e in rc.entries if repr(e[0]) == repr(G)]
                    if mine_:
                        mine_[0][1] = newrel
                    else:
                        rc.entries.append([G, newrel])
                    inn.fields[INNER_FIELDS.index('group_exporter_secrets_cache')].entries.append([Agg('tuple', None, None, [G, z3.BitVecVal(2, 64)]), Opaque('secG2', 'GroupExporterSecret')])
                    inn.fields[INNER_FIELDS.index('mls_group_data')].fields[0].entries[0][1] = Opaque('mlsG2', 'Vec<u8>')
                    if empty:
                        inn.fields[INNER_FIELDS.index('mls_own_leaf_nodes')].fields[0].entries.append([gb(G), SeqV([Opaque('leafG2', 'Vec<u8>')], 'Vec')])
                        inn.fields[INNER_FIELDS.index('mls_epoch_key_pairs')].fields[0].entries.append([Agg('tuple', None, None, [gb(G), Tok('ep', 1), z3.BitVecVal(0, 32)]), Opaque('kpG2', 'Vec<u8>')])
                if other_changes:
                    h1 = group('h1', H, N[1])
                    rs = [p for p in ob.explore(f_save, [sref, h1], st) if p.kind == 'return' and vname(p.ret) == 'Ok']
                    if rs:
                        st = rs[0].st
                if extra_snapshot == 'after':
                    # a second snapshot of the same group taken AFTER the record changed (e.g. at a later epoch): rolling back to the first one must not consume it
                    n2 = Ref(st.temp(StrV(text='other')), ())
                    st = [p for p in ob.explore(f_create, [sref, gref, n2], st) if p.kind == 'return'][0].st
                if extra_snapshot == 'retake':
                    # the snapshot is taken AGAIN under the same name after the mutations (a retried commit re-uses the name): re-taking replaces, so the rollback
                    # must restore the state of the SECOND take (C09: "re-taking a snapshot under an existing name replaces it")
                    rt = [p for p in ob.explore(f_create, [sref, gref, name], st) if p.kind == 'return']
                    if not ob.require(len(rt) == 1 and vname(rt[0].ret) == 'Ok', f'{prefix}/memory-retake-snapshot', 're-taking a snapshot under an existing name does not succeed deterministically'):
                        continue
                    st = rt[0].st
                    at_snapshot = dump_store(ob.eng, st, sref)
                pre_rollback = dump_store(ob.eng, st, sref)
                rs = ob.explore(f_roll, [sref, gref, name], st)
                for p in rs:
                    total += 1
                    if p.kind == 'panic':
                        ob.require(False, f'{prefix}/memory-rollback-panic', f'rollback panics: {p.msg}', p); continue
                    if not ob.require(vname(p.ret) == 'Ok', f'{prefix}/memory-rollback-fails', 'rollback of an existing snapshot fails', p):
                        continue
                    after = dump_store(ob.eng, p.st, sref)
                    tag = f'(group re-saved with nostr id {g_new_nid}, other group changed={other_changes}, group had no relays/secrets/leaf rows at snapshot time={empty}, second snapshot={extra_snapshot})'
                    # the group's own data == snapshot time
                    for cname in ('groups_cache', 'group_relays_cache', 'group_exporter_secrets_cache', 'mls_group_data', 'mls_own_leaf_nodes', 'mls_proposals', 'mls_epoch_key_pairs'):
                        mine = lambda d: [e for e in d[cname] if e[0].startswith('G0|')]
                        theirs = lambda d: [e for e in d[cname] if not e[0].startswith('G0|')]
                        ob.require(mine(after) == mine(at_snapshot), f'{prefix}/memory-not-restored/{cname}', f'after rollback {cname} of the group differs from its snapshot-time content {tag}', p,
                                   {'after': mine(after), 'snapshot': mine(at_snapshot)})
                        ob.require(theirs(after) == theirs(pre_rollback), f'{prefix}/memory-other-group-touched/{cname}', f'rollback changed {cname} entries of ANOTHER group {tag}', p)
                    for cname in ('messages_by_group_cache', 'messages_cache', 'welcomes_cache', 'processed_welcomes_cache', 'processed_messages_cache', 'mls_key_packages', 'mls_signature_keys'):
                        if cname in after:
                            ob.require(after[cname] == pre_rollback[cname], f'{prefix}/memory-destroyed/{cname}', f'rollback changed {cname} {tag}', p)
                    # routing index: exactly {record.nostr_group_id -> record} for the current records
                    gc = cache(ob.eng, p.st, sref, 'groups_cache')
                    nc = cache(ob.eng, p.st, sref, 'groups_by_nostr_id_cache')
                    want = sorted((repr(mfield_g(v, 'nostr_group_id')), srepr(v)) for k, v in gc.entries)
                    got = sorted((repr(k), srepr(v)) for k, v in nc.entries)
                    ob.require(want == got, f'{prefix}/memory-nostr-index-stale', f'after rollback the Nostr-id index does not mirror the group records: a rotated-away id still resolves (or the restored id does not) {tag}',
                               p, {'index': [g_[0] for g_ in got], 'records': [w_[0] for w_ in want]})
                    consumed = "tuple(g0, 's')"
                    ob.require((consumed not in after['#snapshots']) and (after['#snapshots'] == [x for x in pre_rollback['#snapshots'] if x != consumed]), f'{prefix}/memory-snapshots',
                               f'snapshot bookkeeping after rollback: {after["#snapshots"]} (before {pre_rollback["#snapshots"]})', p)
    ob.r.bounds = {'groups': 2, 'nostr ids': 'pool of 3', 'scenarios': scenarios, 'records': 'symbolic payloads; one message, relay set, 1-2 exporter secrets, MLS rows per table'}
    ob.r.assumptions += ASSUMPTIONS + ['MlsCodec::serialize(group id) is injective (token model)']
    ob.r.vacuity.append(f'{scenarios} scenarios, {total} rollback paths')
    ob.require(total >= scenarios // 2, f'{prefix}/vacuity', f'rollback paths {total}')
    return ob.done(cases=total)


def mfield_g(g, name):
    return g.fields[(g.names or GROUP_FIELDS).index(name)]


@guard
def save_group_refusal(tier, oid='O6', prefix='O6'):
    """memory save_group: a refused save (Nostr id already routed to another group) changes nothing; an accepted save stores the record and routes its id"""
    ob = Ob(oid, 'memory backend save_group: when the record\'s Nostr group id already routes to ANOTHER group the call fails and no cache is changed (no phantom record, no index change); '
                 'otherwise the record is stored, its Nostr id routes to it and a rotated-away id no longer does',
            crates=CRATES, models=snapshot_models(), loop_bound=12, max_paths=200000)
    f_save = ob.prog.find(MEM, 'groups::save_group')
    G, H, K = Tok('g', 0), Tok('g', 1), Tok('g', 2)
    N = [Tok('n', k) for k in range(3)]
    total = n_err = n_ok = 0
    # who is saved (existing group G or a new group K) x which Nostr id it carries (its own, the other group's, a fresh one)
    for who, nid in itertools.product((G, K), (N[0], N[1], N[2])):
        st = State()
        g0, h0 = group('g0', G, N[0]), group('h0', H, N[1])
        caches = {'groups_cache': MapV([[G, g0], [H, h0]], 'LruCache'),
                  'groups_by_nostr_id_cache': MapV([[N[0], copy_msg(g0)], [N[1], copy_msg(h0)]], 'LruCache')}
        sref = storage(st, caches)
        before_ = dump_store(ob.eng, st, sref)
        rec = group('new', who, nid)
        collides = (nid is N[1]) or (who is K and nid is N[0])
        ok_before = n_ok
        tag = f'(saving group {who} with Nostr id {nid})'
        for p in ob.explore(f_save, [sref, rec], st):
            total += 1
            tag = f'(saving group {who} with Nostr id {nid})'
            if p.kind == 'panic':
                ob.require(False, f'{prefix}/memory-save-group-panic', f'save_group panics: {p.msg} {tag}', p); continue
            after = dump_store(ob.eng, p.st, sref)
            if vname(p.ret) != 'Ok':
                n_err += 1
                # (refusals for the configured name / description / admin-count limits are legitimate; they too must be effect-free)
                ob.require(after == before_, f'{prefix}/memory-save-group-refused-with-effects',
                           f'save_group returned an error but changed the store: a refused record is visible afterwards {tag}', p,
                           {'changed': [k for k in after if after.get(k) != before_.get(k)]})
                continue
            n_ok += 1
            ob.require(not collides, f'{prefix}/memory-save-group-collision-accepted', f'save_group accepts a record whose Nostr id routes to another group {tag}', p)
            gc = cache(ob.eng, p.st, sref, 'groups_cache')
            nc = cache(ob.eng, p.st, sref, 'groups_by_nostr_id_cache')
            want = sorted((repr(mfield_g(v, 'nostr_group_id')), srepr(v)) for k, v in gc.entries)
            got = sorted((repr(k), srepr(v)) for k, v in nc.entries)
            ob.require(want == got, f'{prefix}/memory-save-group-index', f'after save_group the Nostr-id index does not mirror the group records {tag}', p, {'index': [x[0] for x in got], 'records': [x[0] for x in want]})
            ob.require(any(repr(k) == repr(who) and srepr(v) == srepr(rec) for k, v in gc.entries), f'{prefix}/memory-save-group-not-stored', f'the saved record is not what a lookup returns {tag}', p)
        ob.require(collides or n_ok > ok_before, f'{prefix}/memory-save-group-refused', f'save_group never accepts a record whose Nostr id is free or its own {tag}')
    # a store that is exactly full (LRU capacity = number of groups; reachable with a non-default cache_size): rotating one group's Nostr id must not push ANOTHER group's routing entry out
    for first in (G, H):
        st = State()
        g0, h0 = group('g0', G, N[0]), group('h0', H, N[1])
        order = [[G, g0], [H, h0]] if first is G else [[H, h0], [G, g0]]
        caches = {'groups_cache': MapV([list(x) for x in order], 'LruCache', cap=2),
                  'groups_by_nostr_id_cache': MapV([[mfield_g(v, 'nostr_group_id'), copy_msg(v)] for _, v in order], 'LruCache', cap=2)}
        sref = storage(st, caches)
        rec = group('rot', G, N[2])
        for p in ob.explore(f_save, [sref, rec], st):
            total += 1
            if p.kind != 'return' or vname(p.ret) != 'Ok':
                continue
            gc = cache(ob.eng, p.st, sref, 'groups_cache')
            nc = cache(ob.eng, p.st, sref, 'groups_by_nostr_id_cache')
            want = sorted((repr(mfield_g(v, 'nostr_group_id')), srepr(v)) for k, v in gc.entries)
            got = sorted((repr(k), srepr(v)) for k, v in nc.entries)
            ob.require(want == got and len(gc.entries) == 2, f'{prefix}/memory-save-group-full-store-unroutes-other-group',
                       f'in a store that is exactly full, rotating the Nostr id of one group leaves the index {[x[0] for x in got]} for the records {[x[0] for x in want]}: '
                       'another group lost its routing entry (the new entry was inserted before the old one was removed)', p)
    ob.require(n_err >= 2 and n_ok >= 2, f'{prefix}/vacuity', f'refused {n_err}, accepted {n_ok}')
    ob.r.bounds = {'groups': '2 stored + 1 new', 'nostr ids': 'pool of 3 (own, other group\'s, fresh)', 'record payload': 'symbolic', 'full store': 'LRU capacity 2 with 2 groups, both insertion orders'}
    ob.r.assumptions += ASSUMPTIONS
    ob.r.vacuity.append(f'{total} paths: {n_err} refused, {n_ok} accepted')
    return ob.done(cases=total)


WELCOME_FIELDS = ['id', 'event', 'mls_group_id', 'nostr_group_id', 'group_name', 'group_description', 'group_image_hash', 'group_image_key', 'group_image_nonce',
                  'group_admin_pubkeys', 'group_relays', 'welcomer', 'member_count', 'state', 'wrapper_event_id']


def welcome(tag):
    f = {n: Opaque(f'{tag}_{n}', '?') for n in WELCOME_FIELDS}
    f['id'] = eid(z3.BitVec(f'{tag}_id', 256))
    f['state'] = Opaque(f'{tag}_state', 'mdk_storage_traits::welcomes::types::WelcomeState')
    f['wrapper_event_id'] = eid(z3.BitVec(f'{tag}_w', 256))
    return Agg('struct', 'mdk_storage_traits::welcomes::types::Welcome', None, [f[n] for n in WELCOME_FIELDS], list(WELCOME_FIELDS))


@guard
def pending_welcomes_listing(tier, oid='O10', prefix='O10'):
    """memory pending_welcomes(): the page is positions [min(o,n), min(o+l,n)) of the PENDING welcomes in descending id order (filter first, then sort, then paginate)"""
    NMAX = 2 if tier == 'quick' else 3
    ob = Ob(oid, f'memory backend pending_welcomes(): for 0..{NMAX} stored welcomes in arbitrary states with symbolic ids, ALL usize limits and offsets: no panic; limit outside 1..=MAX refused, '
                 'inside accepted; the page is exactly positions [min(o,n), min(o+l,n)) of the PENDING welcomes in descending id order (as SQLite: WHERE state = pending ORDER BY id DESC LIMIT/OFFSET)',
            crates=CRATES, inline={'limit', 'offset', 'default'}, loop_bound=10, max_paths=400000)
    f = ob.prog.find(MEM, 'welcomes::pending_welcomes')
    src = open(os.path.join(REPO_DIR, 'crates', 'mdk-storage-traits', 'src', 'welcomes', 'mod.rs')).read()
    mm = re.search(r'MAX_PENDING_WELCOMES_LIMIT\s*:\s*usize\s*=\s*([\d_]+)', src)
    MAXW = int(mm.group(1).replace('_', '')) if mm else 1000
    pend = ob.prog.cat.discr_values('WelcomeState', 'mdk_storage_traits::welcomes::types')['Pending']
    total = n_ok = n_filtered = 0
    for n in range(NMAX + 1):
        st = State()
        ws = [welcome(f'w{i}') for i in range(n)]
        for a, b in itertools.combinations(ws, 2):
            st.pc.append(a.fields[0].fields[0] != b.fields[0].fields[0])
        sref = storage(st, {'welcomes_cache': MapV([[w.fields[0], w] for w in ws], 'LruCache')})
        lim, off = z3.BitVec('limit', 64), z3.BitVec('offset', 64)
        pag = M.SOME(Agg('struct', 'mdk_storage_traits::groups::Pagination', None, [M.SOME(lim), M.SOME(off), Opaque('sort', 'std::option::Option<mdk_storage_traits::groups::MessageSortOrder>')]))
        for p in ob.explore(f, [sref, pag], st):
            total += 1
            if p.kind == 'panic':
                ob.require(False, f'{prefix}/memory-pending-welcomes-panic', f'pending_welcomes panics: {p.msg}', p); continue
            valid = z3.And(z3.UGE(lim, 1), z3.ULE(lim, MAXW))
            if vname(p.ret) == 'Err':
                ob.prove(p, z3.Not(valid), f'{prefix}/memory-pending-valid-limit-refused', f'memory pending_welcomes() refuses a limit inside 1..={MAXW}'); continue
            n_ok += 1
            res = p.ret.fields[0]
            if not ob.require(isinstance(res, SeqV), f'{prefix}/memory-pending-result-shape', 'result is not a list', p):
                continue
            pflags = [w.fields[WELCOME_FIELDS.index('state')].discriminant() == pend for w in ws]
            npend = sum([z3.If(c, z3.BitVecVal(1, 64), z3.BitVecVal(0, 64)) for c in pflags], z3.BitVecVal(0, 64))
            start = z3.If(z3.ULT(off, npend), off, npend)
            endsat = z3.If(z3.BVAddNoOverflow(off, lim, False), off + lim, z3.BitVecVal(-1, 64))
            end = z3.If(z3.ULT(endsat, npend), endsat, npend)
            claims = [(valid, f'{prefix}/memory-pending-invalid-limit-accepted', f'memory pending_welcomes() accepts a limit outside 1..={MAXW}'),
                      (z3.BitVecVal(len(res.items), 64) == end - start, f'{prefix}/memory-pending-page-size',
                       f'page holds {len(res.items)} welcome(s) but positions [min(o,n), min(o+l,n)) of the pending ones hold a different number ({n} stored)')]
            for i, x in enumerate(res.items):
                xid = x.fields[0].fields[0]
                same = [xid == w.fields[0].fields[0] for w in ws]
                claims.append((z3.Or([z3.And(s_, c) for s_, c in zip(same, pflags)]) if ws else z3.BoolVal(False), f'{prefix}/memory-pending-foreign-element', 'the page contains a welcome that is not pending (or not stored)'))
                rank = sum([z3.If(z3.And(c, z3.UGT(w.fields[0].fields[0], xid)), z3.BitVecVal(1, 64), z3.BitVecVal(0, 64)) for w, c in zip(ws, pflags)], z3.BitVecVal(0, 64))
                claims.append((rank == start + i, f'{prefix}/memory-pending-page-content', f'position {i} of the page is not element min(o,n)+{i} of the pending welcomes in descending id order'))
            if n and any(not ob.eng.prove(p, c)[0] for c in pflags):
                n_filtered += 1
            ob.prove_all(p, claims)
    ob.require(n_ok >= 3 and n_filtered >= 1, f'{prefix}/vacuity', f'ok paths {n_ok}, with a non-pending welcome {n_filtered}')
    ob.r.bounds = {'stored welcomes': f'0..{NMAX} in arbitrary states', 'limit / offset': 'all usize', 'ids': 'all distinct 256-bit values'}
    ob.r.assumptions += ASSUMPTIONS
    ob.r.vacuity.append(f'{total} paths, {n_ok} listings, {n_filtered} with a possibly non-pending welcome')
    return ob.done(cases=total)


@guard
def save_message_upsert(tier, oid='O11', prefix='O11'):
    """memory save_message: re-saving a stored message changes that message only; a new message at the per-group limit evicts exactly the oldest one"""
    ob = Ob(oid, 'memory backend save_message with a symbolic per-group message limit: re-saving an already stored message (the confirmation of an own message, a re-delivery) replaces that message and '
                 'removes nothing, whatever the limit; a new message is added, and only when the group is at its limit exactly one message -- the oldest -- is evicted',
            crates=CRATES, loop_bound=10, max_paths=200000)
    f = ob.prog.find(MEM, 'messages::save_message')
    G = Tok('g', 0)
    L = z3.BitVec('max_messages_per_group', 64)
    total = n_upd = n_new = 0
    for n, update in itertools.product((1, 2), (True, False)):
        st = State()
        ms = [message(f'm{i}', G) for i in range(n)]
        for a, b in itertools.combinations(ms, 2):
            st.pc.append(mfield(a, 'id').fields[0] != mfield(b, 'id').fields[0])
        newm = message('new', G)
        if update:
            newm.fields[MSG_FIELDS.index('id')] = mfield(ms[0], 'id')
        else:
            for a in ms:
                st.pc.append(mfield(a, 'id').fields[0] != mfield(newm, 'id').fields[0])
        caches = {'groups_cache': MapV([[G, group('g0', G)]], 'LruCache'),
                  'messages_by_group_cache': MapV([[G, MapV([[mfield(m, 'id'), m] for m in ms], 'HashMap')]], 'LruCache'),
                  'messages_cache': MapV([[mfield(m, 'id'), copy_msg(m)] for m in ms], 'LruCache')}
        sref = storage(st, caches, {'max_messages_per_group': L})
        before_ = dump_store(ob.eng, st, sref)
        for p in ob.explore(f, [sref, newm], st):
            total += 1
            if p.kind == 'panic':
                ob.require(False, f'{prefix}/memory-save-message-panic', f'save_message panics: {p.msg}', p); continue
            if vname(p.ret) != 'Ok':
                # the group lookup is an environment call here (it may fail): a refused save must then have changed nothing
                ob.require(dump_store(ob.eng, p.st, sref) == before_, f'{prefix}/memory-save-message-refused-with-effects', 'save_message returned an error but changed the store', p)
                continue
            gm = [v for k, v in cache(ob.eng, p.st, sref, 'messages_by_group_cache').entries if repr(k) == repr(G)]
            after = gm[0].entries if gm else []
            ids_after = [k.fields[0] for k, _ in after]
            has = lambda m: z3.Or([x == mfield(m, 'id').fields[0] for x in ids_after]) if ids_after else z3.BoolVal(False)
            if update:
                n_upd += 1
                ob.require(len(after) == n, f'{prefix}/memory-resave-changes-message-set', f're-saving a stored message leaves {len(after)} message(s) in a group that held {n}: '
                           'a message other than the re-saved one was removed (eviction on update)', p)
                ob.prove_all(p, [(has(m), f'{prefix}/memory-resave-evicts', 're-saving a stored message evicts another stored message of the group') for m in ms])
            else:
                n_new += 1
                full = z3.UGE(z3.BitVecVal(n, 64), L)
                claims = [(has(newm), f'{prefix}/memory-new-message-not-stored', 'the new message is not stored')]
                claims.append((z3.Implies(z3.Not(full), z3.And([has(m) for m in ms])), f'{prefix}/memory-evicts-below-limit', 'a stored message is evicted although the group is below its limit'))
                claims.append((z3.Implies(z3.And(full, L != 0), z3.BoolVal(len(after) == n)), f'{prefix}/memory-limit-not-kept', 'at the limit the group does not keep its size (no eviction, or more than one)'))
                if n == 2:
                    c0, c1 = mfield(ms[0], 'created_at').fields[0], mfield(ms[1], 'created_at').fields[0]
                    claims.append((z3.Implies(z3.And(full, z3.ULT(c0, c1)), has(ms[1])), f'{prefix}/memory-evicts-newer', 'at the limit a message other than the oldest is evicted'))
                    claims.append((z3.Implies(z3.And(full, z3.ULT(c1, c0)), has(ms[0])), f'{prefix}/memory-evicts-newer', 'at the limit a message other than the oldest is evicted'))
                ob.prove_all(p, claims)
    ob.require(n_upd >= 2 and n_new >= 2, f'{prefix}/vacuity', f'update paths {n_upd}, insert paths {n_new}')
    ob.r.bounds = {'stored messages of the group': '1..2', 'per-group limit': 'symbolic u64', 'ids / timestamps': 'symbolic'}
    ob.r.assumptions += ASSUMPTIONS
    ob.r.vacuity.append(f'{total} paths: {n_upd} re-saves, {n_new} inserts')
    return ob.done(cases=total)


@guard
def find_message_scoped(tier, oid='O13', prefix='O13'):
    """memory find_message_by_event_id(g, id): the copy stored IN GROUP g, also when another group stores a message under the same event id"""
    ob = Ob(oid, 'memory backend find_message_by_event_id(g, id) returns the message stored in group g (its own content / state / epoch), also when another group holds a different message '
                 'under the same event id and that one was saved last; unknown group or id -> None', crates=CRATES, loop_bound=8)
    f = ob.prog.find(MEM, 'messages::find_message_by_event_id')
    G, H = Tok('g', 0), Tok('g', 1)
    total = 0
    X = eid(z3.BitVec('shared_id', 256))
    for last in ('g', 'h'):
        st = State()
        m0, h0 = message('m0', G), message('h0', H)
        m0.fields[MSG_FIELDS.index('id')] = X
        h0.fields[MSG_FIELDS.index('id')] = X
        caches = {'groups_cache': MapV([[G, group('g0', G)], [H, group('h0g', H)]], 'LruCache'),
                  'messages_by_group_cache': MapV([[G, MapV([[X, m0]], 'HashMap')], [H, MapV([[X, h0]], 'HashMap')]], 'LruCache'),
                  'messages_cache': MapV([[X, copy_msg(m0 if last == 'g' else h0)]], 'LruCache')}
        sref = storage(st, caches)
        for grp, want in ((G, m0), (H, h0)):
            for p in ob.explore(f, [sref, Ref(st.temp(grp), ()), Ref(st.temp(X), ())], st.clone()):
                total += 1
                if p.kind == 'panic':
                    ob.require(False, f'{prefix}/memory-find-message-panic', p.msg, p); continue
                ok = vname(p.ret) == 'Ok' and vname(p.ret.fields[0]) == 'Some'
                if not ob.require(ok, f'{prefix}/memory-find-message-missing', f'a stored message is not found ({srepr(p.ret)[:80]})', p):
                    continue
                got = M.deref_all(ob.eng, p.st, p.ret.fields[0].fields[0])
                ob.require(srepr(got) == srepr(want), f'{prefix}/memory-find-message-other-groups-copy',
                           f'find_message_by_event_id for group {grp} returns the copy of ANOTHER group that shares the event id (saved last: {last}): re-saving it (the own-echo confirmation) rewrites the other group\'s message', p)
    ob.r.bounds = {'groups': 2, 'messages': 'one per group under the same symbolic event id', 'last saved': 'either'}
    ob.r.assumptions += ASSUMPTIONS
    return ob.done(cases=total)


@guard
def last_message_head(tier, oid='O14', prefix='O14'):
    """memory last_message(sort) is the head of the documented order for that sort mode"""
    NMAX = 2 if tier == 'quick' else 3
    ob = Ob(oid, f'memory backend last_message(sort): for 1..{NMAX} stored messages with symbolic sort keys (ties on any key included) the result is the FIRST message of the documented newest-first '
                 'order of that sort mode (created_at, processed_at, id / processed_at, created_at, id), i.e. the head of messages(sort)', crates=CRATES,
            inline={'display_order_cmp', 'processed_at_order_cmp', 'compare_display_keys', 'compare_processed_at_keys'}, loop_bound=10)
    f = ob.prog.find(MEM, 'groups::last_message')
    G = Tok('g', 0)
    so_ty = 'mdk_storage_traits::groups::MessageSortOrder'
    total = n = 0
    for k in range(1, NMAX + 1):
        for mode in ('CreatedAtFirst', 'ProcessedAtFirst'):
            st = State()
            ms = [message(f'm{i}', G) for i in range(k)]
            for a, b in itertools.combinations(ms, 2):
                st.pc.append(mfield(a, 'id').fields[0] != mfield(b, 'id').fields[0])
            caches = {'groups_cache': MapV([[G, group('g0', G)]], 'LruCache'),
                      'messages_by_group_cache': MapV([[G, MapV([[mfield(m, 'id'), m] for m in ms], 'HashMap')]], 'LruCache')}
            sref = storage(st, caches)
            so = Agg('enum', so_ty, so_ty + '::' + mode, [])
            for p in ob.explore(f, [sref, Ref(st.temp(G), ()), so], st):
                total += 1
                if p.kind == 'panic':
                    ob.require(False, f'{prefix}/memory-last-message-panic', p.msg, p); continue
                if not ob.require(vname(p.ret) == 'Ok' and vname(p.ret.fields[0]) == 'Some', f'{prefix}/memory-last-message-missing', f'last_message of a non-empty group returns {srepr(p.ret)[:60]}', p):
                    continue
                n += 1
                got = M.deref_all(ob.eng, p.st, p.ret.fields[0].fields[0])
                gid = mfield(got, 'id').fields[0]
                ob.prove_all(p, [(z3.Implies(gid == mfield(x, 'id').fields[0], z3.Not(before(mode, y, x))), f'{prefix}/memory-last-message-not-head',
                                  f'last_message({mode}) returns a message that another stored message precedes in the documented {mode} order (a tie is broken by the wrong key)')
                                 for x in ms for y in ms if x is not y] +
                                [(z3.Or([gid == mfield(x, 'id').fields[0] for x in ms]), f'{prefix}/memory-last-message-foreign', 'last_message returns something that is not a stored message of the group')])
    ob.require(n >= 4, f'{prefix}/vacuity', f'results compared: {n}')
    ob.r.bounds = {'stored messages': f'1..{NMAX}', 'sort keys': 'all u64 timestamps, 256-bit ids (distinct ids)', 'sort mode': 'both'}
    ob.r.assumptions += ASSUMPTIONS
    return ob.done(cases=total)


@guard
def epoch_hint_lookup(tier, oid='O15', prefix='O15'):
    """memory find_message_epoch_by_tag_content: every message of the group that has an epoch is looked at, whatever its state"""
    ob = Ob(oid, 'memory backend find_message_epoch_by_tag_content(g, s): the epoch of a message of group g whose tags contain s is returned whatever the state of that message '
                 '(a sender\'s own announcement is still Created until its echo arrives); None only if no message with an epoch matches; messages of other groups are not consulted',
            crates=CRATES, loop_bound=8)
    f = ob.prog.find(MEM, 'messages::find_message_epoch_by_tag_content')
    G, H = Tok('g', 0), Tok('g', 1)
    total = n_some = n_none = 0
    st = State()
    m0 = message('m0', G, epoch=M.SOME(z3.BitVec('m0_epoch', 64)))
    h0 = message('h0', H, epoch=M.SOME(z3.BitVec('h0_epoch', 64)))
    caches = {'groups_cache': MapV([[G, group('g0', G)], [H, group('h0g', H)]], 'LruCache'),
              'messages_by_group_cache': MapV([[G, MapV([[mfield(m0, 'id'), m0]], 'HashMap')], [H, MapV([[mfield(h0, 'id'), h0]], 'HashMap')]], 'LruCache')}
    sref = storage(st, caches)
    for p in ob.explore(f, [sref, Ref(st.temp(G), ()), Ref(st.temp(StrV(sym='needle')), ())], st):
        total += 1
        if p.kind == 'panic':
            ob.require(False, f'{prefix}/memory-epoch-hint-panic', p.msg, p); continue
        ct = [e for e in p.trace if ev_is(e, 'contains')]
        ser = [e for e in p.trace if ev_is(e, 'to_string') and 'serde_json' in e.fn]
        if vname(p.ret) != 'Ok':
            continue
        res = p.ret.fields[0]
        if vname(res) == 'Some':
            n_some += 1
            ob.prove(p, res.fields[0] == z3.BitVec('m0_epoch', 64), f'{prefix}/memory-epoch-hint-wrong-epoch', 'the epoch returned is not the epoch of the matching message of the asking group')
        else:
            n_none += 1
            ob.require(bool(ct) and ob.eng.prove(p, z3.Not(ct[0].ret))[0], f'{prefix}/memory-epoch-hint-message-skipped',
                       'None is returned although the group\'s message (which has an epoch) was never compared with the search term: it is filtered out by something else '
                       '(e.g. its state), so the sender of a not-yet-echoed announcement finds no epoch for its own file', p)
    ob.require(n_some >= 1 and n_none >= 1, f'{prefix}/vacuity', f'Some paths {n_some}, None paths {n_none}')
    ob.r.bounds = {'messages': 'one in the asking group (symbolic state, tags, epoch), one in another group', 'search term': 'symbolic'}
    ob.r.assumptions += ASSUMPTIONS
    return ob.done(cases=total)
