"""C09 — rollback restores exactly one group's state and destroys nothing else."""
import re, time
import z3

from vlib.common import Result
from vlib import scen
from sqlsym import engine as S

EXPLANATION = ('SQLite half (engine E4): the SQL program of restore_group_from_snapshot / snapshot_group_state / delete_group_snapshot / '
               'prune_expired_snapshots is extracted from the current source together with the schema (primary keys, foreign keys with ON DELETE '
               'CASCADE) and executed symbolically over tables of symbolic rows (row presence, owning group, snapshot name as z3 variables); z3 '
               'decides the frame condition for every table. Column coverage of snapshot/restore is checked against the catalogue. '
               'Memory half (engine E3c): see obligation list.')
TRUSTED = ['SQL subset semantics in sqlsym (DELETE with cascade closure, INSERT, upsert, transaction brackets)', 'schema parser', 'z3',
           'SQLite implements the declared foreign-key actions (PRAGMA foreign_keys=ON is set by the backend)']

N = 2        # symbolic candidate rows per table


def group_col(tables, t):
    """column of table t that holds the owning MLS group id (None: table is not group-scoped)"""
    for c in ('mls_group_id', 'group_id'):
        if c in tables[t].colnames():
            return c
    return None


class Rel:
    """presence-level relational state: table -> list of rows {p: Bool, g: Bool (belongs to target group), n: Bool (snapshot name == target)}"""

    def __init__(self, tables, tag):
        self.tables = tables
        self.rows = {}
        for t in tables:
            self.rows[t] = []
            for i in range(N):
                r = {'p': z3.Bool(f'{tag}_{t}_{i}_p')}
                r['g'] = z3.Bool(f'{tag}_{t}_{i}_g') if group_col(tables, t) else z3.BoolVal(False)
                r['n'] = z3.Bool(f'{tag}_{t}_{i}_n') if t == 'group_state_snapshots' else z3.BoolVal(False)
                self.rows[t].append(r)

    def copy(self):
        c = Rel.__new__(Rel)
        c.tables = self.tables
        c.rows = {t: [dict(r) for r in rs] for t, rs in self.rows.items()}
        return c

    def delete(self, t, pred, guard=z3.BoolVal(True), _seen=None):
        """DELETE FROM t WHERE pred(row), executed only if guard; ON DELETE CASCADE closure for group-keyed children"""
        hit_any_target_group = []
        for r in self.rows[t]:
            hit = z3.And(guard, r['p'], pred(r))
            hit_any_target_group.append(z3.And(hit, r['g']))
            r['p'] = z3.And(r['p'], z3.Not(hit))
        if t == 'groups':
            # rows of child tables referencing a deleted groups row (only the target group can be hit by a group-id predicate)
            gone = z3.Or(hit_any_target_group) if hit_any_target_group else z3.BoolVal(False)
            for child, col in S.cascade_children(self.tables, 'groups'):
                for r in self.rows[child]:
                    r['p'] = z3.And(r['p'], z3.Not(z3.And(gone, r['g'])))

    def insert(self, t, new_rows, guard=z3.BoolVal(True)):
        for nr in new_rows:
            self.rows[t].append({'p': z3.And(guard, nr['p']), 'g': nr['g'], 'n': nr['n']})


def sqlite_restore(tier):
    r = Result('O1', 'sqlsym', 'SQLite restore_group_from_snapshot: frame condition over every table (rows of other groups, non-snapshotted tables, other snapshots are preserved; '
                              'snapshotted tables of the group equal the snapshot; the consumed snapshot is gone)')
    t0 = time.time()
    sol = S.Solver()
    tables = S.load_catalogue()
    prog = S.program_guarded('lib.rs', 'restore_group_from_snapshot')
    lets = S.let_bindings('lib.rs', 'restore_group_from_snapshot')
    stmts = [(S.parse_stmt(s), g) for s, g in prog]
    r.functions = ['mdk_sqlite_storage::MdkSqliteStorage::restore_group_from_snapshot (SQL program, %d statements)' % len(stmts),
                   'migrations/V*.sql (%d tables)' % len(tables)]
    r.bounds = {'candidate rows per table': N, 'groups': 'target group vs any other', 'snapshot names': 'target name vs any other'}
    pre = Rel(tables, 'pre')
    st = pre.copy()
    # what the snapshot holds: for every table restored by an INSERT, N symbolic rows of the target group
    restored = []
    snap = {}
    in_tx = False
    begun = committed = False
    outside_tx_writes = []
    # rows read before BEGIN: other snapshots of this group
    others = [dict(p=z3.And(x['p'], x['g'], z3.Not(x['n'])), g=z3.BoolVal(True), n=z3.BoolVal(False)) for x in pre.rows['group_state_snapshots']]

    def guard_expr(gs):
        """interpret `if` conditions around a statement: identifiers bound to `snapshot_rows.iter().any(|(t, ..)| t == "<table>")`"""
        conds = []
        for g in gs:
            m = re.match(r'^(!)?\s*(\w+)$', g)
            if m and m.group(2) in lets:
                rhs = lets[m.group(2)]
            else:
                # the condition written in place instead of through a `let`
                m = re.match(r'^(!)?\s*(snapshot_rows\s*\.iter\(\).*)$', g, re.S)
                if not m:
                    raise S.SqlError(f'guard not understood: if {g}')
                rhs = re.sub(r'\s+', ' ', m.group(2))
            mm = re.search(r'snapshot_rows\s*\.iter\(\)\s*\.any\(\s*\|[^|]*\|\s*\*?\w+\s*==\s*"(\w+)"\s*\)', rhs)
            if not mm:
                raise S.SqlError(f'guard binding not understood: {rhs}')
            tbl = mm.group(1)
            snap.setdefault(tbl, [dict(p=z3.Bool(f'snap_{tbl}_{i}_p'), g=z3.BoolVal(True), n=z3.BoolVal(False)) for i in range(N)])
            has = z3.Or([x['p'] for x in snap[tbl]])
            conds.append(z3.Not(has) if m.group(1) else has)
        return z3.And(conds) if conds else z3.BoolVal(True)

    nd = [0]
    for s, gs in stmts:
        g = guard_expr(gs)
        if s.kind == 'BEGIN':
            in_tx = begun = True; continue
        if s.kind == 'COMMIT':
            in_tx = False; committed = True; continue
        if s.kind in ('ROLLBACK', 'SELECT', 'SAVEPOINT', 'RELEASE', 'PRAGMA'):
            continue
        if not in_tx:
            outside_tx_writes.append(s.text)
        if s.kind == 'DELETE':
            cols = [c[0] for c in s.where]
            gc = group_col(tables, s.table)
            # row predicate of the DELETE: `<group column> = ?` selects the target group, `snapshot_name = ?` the target snapshot;
            # any other conjunct (another column, an inequality, a sub-select) is a condition the encoding knows nothing about:
            # a fresh boolean per row, so the statement may or may not delete each candidate row (sound over-approximation)
            nd[0] += 1
            k = nd[0]
            def pred(x, s=s, gc=gc, k=k):
                cs = []
                for ci, c in enumerate(s.where):
                    if isinstance(c, tuple) and len(c) == 3 and c[0] == gc and c[1] == '=' and str(c[2]).strip().startswith('?'):
                        cs.append(x['g'])
                    elif isinstance(c, tuple) and len(c) == 3 and c[0] == 'snapshot_name' and c[1] == '=' and s.table == 'group_state_snapshots':
                        cs.append(x['n'])
                    else:
                        cs.append(x.setdefault(f'_u{k}_{ci}', z3.Bool(f'del{k}_{ci}_{id(x)}')))
                return z3.And(cs) if cs else z3.BoolVal(True)
            st.delete(s.table, pred, g)
        elif s.kind == 'INSERT':
            if s.table == 'group_state_snapshots':
                st.insert(s.table, others, g)
            else:
                snap.setdefault(s.table, [dict(p=z3.Bool(f'snap_{s.table}_{i}_p'), g=z3.BoolVal(True), n=z3.BoolVal(False)) for i in range(N)])
                restored.append(s.table)
                if isinstance(s.conflict, tuple):
                    # upsert on the primary key: an existing row of the target group is replaced by the snapshot row
                    has = z3.Or([x['p'] for x in snap[s.table]])
                    st.delete(s.table, lambda x: z3.And(x['g'], has), g) if s.table != 'groups' else None
                    if s.table == 'groups':
                        for x in st.rows['groups']:
                            x['p'] = z3.And(x['p'], z3.Not(z3.And(g, x['g'], has)))     # replaced in place: no cascade
                st.insert(s.table, snap[s.table], g)
        elif s.kind == 'UPDATE':
            raise S.SqlError('UPDATE in restore not modelled: ' + s.text)
    if not (begun and committed):
        r.fail('O1/no-transaction', 'restore is not wrapped in BEGIN ... COMMIT')
    if outside_tx_writes:
        r.fail('O1/write-outside-transaction', 'state-changing statement outside the transaction: ' + outside_tx_writes[0][:80])
    # schema invariants of the pre-state: at most one groups row per group; FK: child rows of a group imply its groups row
    inv = []
    g_rows = pre.rows['groups']
    inv.append(z3.Not(z3.And(g_rows[0]['p'], g_rows[1]['p'], g_rows[0]['g'] == g_rows[1]['g'], g_rows[0]['g'])))
    for child, col in S.cascade_children(tables, 'groups'):
        for x in pre.rows[child]:
            inv.append(z3.Implies(z3.And(x['p'], x['g']), z3.Or([z3.And(y['p'], y['g']) for y in g_rows])))
    # a snapshot of the group holds exactly one groups row: the group existed when the snapshot was taken
    # (EpochSnapshotManager only snapshots groups it has just loaded; a snapshot of a non-existent group is outside the claim,
    #  there the foreign keys force SQLite to drop the group's messages together with the group row)
    if 'groups' in snap:
        inv.append(z3.Not(z3.And(snap['groups'][0]['p'], snap['groups'][1]['p'])))
        inv.append(z3.Or(snap['groups'][0]['p'], snap['groups'][1]['p']))
    # child rows restored from the snapshot only exist if the snapshot also holds the groups row (snapshot taken in one transaction)
    for t in restored:
        if t in [c for c, _ in S.cascade_children(tables, 'groups')] and 'groups' in snap:
            for x in snap[t]:
                inv.append(z3.Implies(x['p'], z3.Or([y['p'] for y in snap['groups']])))
    r.assumptions += ['the group existed when the snapshot was taken (the snapshot holds its groups row)', 'pre-state satisfies the schema (one groups row per id, foreign keys)', 'the snapshot rows belong to the target group and were taken atomically (snapshot_group_state, O2)',
                      'guards of the form `if [!]x` with `let x = snapshot_rows.iter().any(|(t,..)| t == "<table>")` are interpreted as "the snapshot holds a row of <table>"']
    restored_set = set(restored)
    cases = 0
    for t in tables:
        post = st.rows[t]
        pre_rows = pre.rows[t]
        # F2: rows of other groups untouched (every pre row still present; no new row of another group)
        claims = []
        for i, x in enumerate(pre_rows):
            still = post[i]['p']
            claims.append((z3.Implies(z3.And(x['p'], z3.Not(x['g'])), still), f'O1/sqlite-restore/{t}/other-group-row-lost', f'a {t} row of ANOTHER group is destroyed by the rollback'))
            if t not in restored_set and t != 'group_state_snapshots':
                claims.append((z3.Implies(x['p'], still), f'O1/sqlite-restore/{t}/rows-destroyed',
                               f'rollback destroys rows of table {t}, which is not part of the snapshot (ON DELETE CASCADE from groups)' if t in [c for c, _ in S.cascade_children(tables, 'groups')]
                               else f'rollback destroys rows of table {t}, which is not part of the snapshot'))
            if t == 'group_state_snapshots':
                claims.append((z3.Implies(z3.And(x['p'], x['g'], z3.Not(x['n'])), z3.Or([z3.And(y['p'], y['g'], z3.Not(y['n'])) for y in post])), f'O1/sqlite-restore/other-snapshot-lost',
                               'another snapshot of the same group is destroyed by the rollback'))
                claims.append((z3.Not(z3.And(post[i]['p'], post[i]['g'], post[i]['n'])), 'O1/sqlite-restore/snapshot-not-consumed', 'the consumed snapshot is still there'))
        for y in post[N:]:
            claims.append((z3.Implies(y['p'], y['g']), f'O1/sqlite-restore/{t}/foreign-row-created', f'restore inserts a {t} row for another group'))
        if t in restored_set:
            # F4: afterwards the target group's rows are exactly the snapshot rows (no current row of the group survives, every snapshot row is there)
            has_group_row = z3.Or([x['p'] for x in snap['groups']]) if 'groups' in snap else z3.BoolVal(True)
            for i, x in enumerate(pre_rows):
                claims.append((z3.Implies(z3.And(x['p'], x['g']), z3.Not(post[i]['p'])), f'O1/sqlite-restore/{t}/current-row-survives', f'a current {t} row of the group survives the rollback'))
            for j, sx in enumerate(snap[t]):
                claims.append((z3.Implies(sx['p'], post[N + j]['p']) if len(post) >= N + len(snap[t]) else z3.BoolVal(False), f'O1/sqlite-restore/{t}/snapshot-row-missing', f'a snapshotted {t} row is not restored'))
        for claim, key, what in claims:
            cases += 1
            sat, model = sol.check(inv + [z3.Not(claim)])
            if sat:
                if not any(f['key'] == key for f in r.failures):
                    wit = {str(d): str(model[d]) for d in model.decls() if z3.is_true(model[d])}
                    r.fail(key, what, detail={'rows_present_or_true': sorted(wit)[:40]})
    r.cases = cases
    r.queries = sol.queries
    r.solver_s = sol.time
    r.vacuity.append('sanity: schema invariants satisfiable: ' + str(sol.check(inv)[0]))
    r.samples.append({'program': [s.text[:90] + (f'   [if {" && ".join(g)}]' if g else '') for s, g in stmts], 'cascade_children_of_groups': S.cascade_children(tables, 'groups'),
                      'restored_tables': sorted(restored_set)})
    r.wall_s = time.time() - t0
    scen.confirm(r, 'O1/sqlite-restore/messages/rows-destroyed', 'c09', 'c09_sqlite_rollback_keeps_messages')
    return r


def snapshot_codec():
    """{table: {'key': (kind, [columns]), 'data': (kind, [columns])}} as written by the snapshot helpers, and the same as read back by the restore,
    from the source text: kind 'tuple' (serde_json of a tuple, columns by position), 'single' (serde_json of one value) or 'raw' (the column's bytes themselves)."""
    src = re.sub(r'//[^\n]*', '', S.source('lib.rs'))
    writers = {}
    for m in re.finditer(r'\bfn (snapshot_\w+)\s*\(', src):
        fn = m.group(1)
        if fn == 'snapshot_group_state':
            continue
        body = re.sub(r'\s+', ' ', S.fn_body(src, fn))
        ms = re.search(r'"\s*SELECT (.*?) FROM (\w+)', body)
        if not ms:
            raise S.SqlError(f'{fn}: no SELECT found')
        sel_cols, table = [c.strip() for c in ms.group(1).split(',')], ms.group(2)
        var_col = {}
        for g in re.finditer(r'let (\w+)\s*:\s*[^=;]+=\s*row\s*\.get\((\d+)\)', body):
            if int(g.group(2)) >= len(sel_cols):
                raise S.SqlError(f'{fn}: row.get({g.group(2)}) beyond the select list')
            var_col[g.group(1)] = sel_cols[int(g.group(2))]
        enc = {}
        for g in re.finditer(r'let (row_key|row_data)\s*=\s*serde_json::to_vec\(\s*&(\(.*?\)|\w+)\s*\)\s*\.map_err', body):
            e = g.group(2).strip()
            if e.startswith('('):
                vs = [x.strip().lstrip('&').strip() for x in S.split_top(e[1:-1]) if x.strip()]
                kind = 'tuple'
            else:
                vs, kind = [e], 'single'
            if any(v not in var_col for v in vs):
                raise S.SqlError(f'{fn}: {g.group(1)} encodes {vs}, not all read from the row')
            enc[g.group(1)] = (kind, [var_col[v] for v in vs])
        mp = re.search(r'insert_stmt\s*\.execute\(\s*(?:rusqlite::)?params!\s*\[([^\]]*)\]', body)
        if not mp:
            raise S.SqlError(f'{fn}: snapshot INSERT parameters not found')
        ps = [x.strip() for x in S.split_top(mp.group(1))]
        if len(ps) != 6 or ps[2].strip('"') != table:
            raise S.SqlError(f'{fn}: snapshot INSERT parameters not understood: {ps}')
        w = {}
        for blob, v in (('key', ps[3]), ('data', ps[4])):
            v = v.lstrip('&').strip()
            if v in enc and v == 'row_' + blob:
                w[blob] = enc[v]
            elif v in var_col:
                w[blob] = ('raw', [var_col[v]])
            else:
                raise S.SqlError(f'{fn}: snapshot {blob} parameter {v} not understood')
        writers[table] = w
    body = re.sub(r'\s+', ' ', re.sub(r'//[^\n]*', '', S.fn_body(S.source('lib.rs'), 'restore_group_from_snapshot')))
    sql_pos = [m.start() for m in re.finditer(r'"\s*(?:INSERT|DELETE|SELECT|UPDATE|BEGIN|COMMIT|ROLLBACK)\b', body)]
    decodes = []
    for g in re.finditer(r'let\s*\(([^)]*)\)\s*(?::\s*\((?:[^()]|\([^()]*\))*\))?\s*=\s*serde_json::from_slice\(\s*&?(row_key|row_data)\s*\)', body):
        vs = [x.strip() for x in g.group(1).split(',') if x.strip()]
        decodes.append((g.start(), 'tuple', [v[4:].strip() if v.startswith('mut ') else v for v in vs], g.group(2)[4:]))
    for g in re.finditer(r'let\s+(\w+)\s*(?::[^=;]+)?=\s*serde_json::from_slice\(\s*&?(row_key|row_data)\s*\)', body):
        decodes.append((g.start(), 'single', [g.group(1)], g.group(2)[4:]))
    readers = {}
    for m in re.finditer(r'"\s*(INSERT(?: OR REPLACE)? INTO (\w+)\s*\(([^)]*)\)\s*VALUES\s*\(([^)]*)\)[^"]*)"\s*,\s*(?:rusqlite::)?params!\s*\[([^\]]*)\]', body):
        table = m.group(2)
        if table == 'group_state_snapshots':
            continue
        cols = [c.strip() for c in m.group(3).split(',')]
        vals = [v.strip() for v in m.group(4).split(',')]
        ps = [x.strip().lstrip('&').strip() for x in S.split_top(m.group(5)) if x.strip()]
        if len(cols) != len(vals) or sum(1 for v in vals if v.startswith('?')) != len(ps):
            raise S.SqlError(f'restore INSERT into {table}: columns / values / parameters do not line up')
        prev = max([q for q in sql_pos if q < m.start()], default=0)
        local = [d for d in decodes if prev < d[0] < m.start()]
        src_of = {}
        for _, kind, vs, blob in local:
            for k, v in enumerate(vs):
                src_of[v] = (blob, kind, k, len(vs))
        it = iter(ps)
        rd = {}
        for c, v in zip(cols, vals):
            if not v.startswith('?'):
                continue
            pv = next(it)
            if pv in ('row_key', 'row_data'):
                rd[c] = (pv[4:], 'raw', 0, 1)
            elif pv in src_of:
                rd[c] = src_of[pv]
            else:
                rd[c] = None
        readers[table] = rd
    return writers, readers


def sqlite_columns(tier):
    """every column of each snapshotted table travels through snapshot and restore"""
    r = Result('O2', 'sqlsym', 'SQLite snapshot/restore cover every column of every snapshotted table (catalogue cross-check, incl. columns added by later migrations); '
                              'snapshot SELECTs are filtered by the group id and run inside one transaction')
    t0 = time.time()
    tables = S.load_catalogue()
    snap_prog = [S.parse_stmt(s) for s in S.program('lib.rs', 'snapshot_group_state')]
    rest_prog = [S.parse_stmt(s) for s in S.program('lib.rs', 'restore_group_from_snapshot')]
    sel = {s.table: s for s in snap_prog if s.kind == 'SELECT'}
    ins = {s.table: s for s in rest_prog if s.kind == 'INSERT' and s.table != 'group_state_snapshots'}
    kinds = [s.kind for s in snap_prog]
    if not ('BEGIN' in kinds and 'COMMIT' in kinds and kinds.index('BEGIN') < min(i for i, k in enumerate(kinds) if k == 'SELECT')):
        r.fail('O2/snapshot-not-atomic', 'snapshot SELECTs are not inside BEGIN ... COMMIT')
    n = 0
    for t in sorted(set(sel) | set(ins)):
        n += 1
        if t not in sel or t not in ins:
            r.fail(f'O2/{t}/one-sided', f'table {t} is {"snapshotted but not restored" if t in sel else "restored but not snapshotted"}')
            continue
        cols = tables[t].colnames()
        gc = group_col(tables, t)
        s = sel[t]
        if re.search(r'\bJOIN\b', s.text, re.I) or not s.where or not (len(s.where) == 1 and s.where[0][0] in (gc, 's.' + str(gc)) and s.where[0][1] == '='):
            r.fail(f'O2/{t}/snapshot-filter', f'snapshot of {t} is not filtered by exactly its group column: {s.text[:90]}')
        if s.limit is not None:
            r.fail(f'O2/{t}/snapshot-truncated', f'the snapshot of {t} reads at most LIMIT {s.limit} rows: the remaining rows of the group are missing from the snapshot and are destroyed by a rollback')
        selected = cols if s.select == ['*'] else s.select
        auto = {c for c in cols if c in ('id',) and tables[t].pk == ['id']} | {'provider_version'}
        missing_sel = [c for c in cols if c not in selected and c not in auto]
        if missing_sel:
            r.fail(f'O2/{t}/column-not-snapshotted', f'column(s) {missing_sel} of {t} are not read into the snapshot (a rollback would reset them)')
        missing_ins = [c for c in cols if c not in ins[t].cols and c not in auto]
        if missing_ins:
            r.fail(f'O2/{t}/column-not-restored', f'column(s) {missing_ins} of {t} are not written back by the restore INSERT')
        if isinstance(ins[t].conflict, tuple):
            tgt, sets, nothing = ins[t].conflict
            stale = [c for c in ins[t].cols if c not in tgt and c not in sets]
            if nothing or stale:
                r.fail(f'O2/{t}/upsert-stale', f'restore upsert of {t} leaves column(s) {stale or "all"} at their current value')
    # the snapshot helpers take the raw group id (MDK tables) and / or the MlsCodec-encoded one (OpenMLS tables): each must receive the id of its own kind
    # (both are byte slices, so swapping them type-checks and silently selects no rows)
    sbody = re.sub(r'//[^\n]*', '', S.fn_body(S.source('lib.rs'), 'snapshot_group_state'))
    lib = re.sub(r'//[^\n]*', '', S.source('lib.rs'))
    for m in re.finditer(r'Self::(snapshot_\w+)\s*\(', sbody):
        j = m.end(); d = 1; k = j
        while k < len(sbody) and d:
            d += sbody[k] == '('
            d -= sbody[k] == ')'
            k += 1
        cargs = [re.sub(r'\s+', '', a).lstrip('&') for a in S.split_top(sbody[j:k - 1]) if a.strip()]
        sig = re.search(r'fn ' + m.group(1) + r'\s*\(([^)]*)\)', lib, re.S)
        if not sig:
            continue
        pnames = [re.sub(r'\s+', '', x).split(':')[0] for x in S.split_top(sig.group(1)) if x.strip()]
        n += 1
        for pn, ca in zip(pnames, cargs):
            if pn in ('group_id_bytes', 'mls_group_id_bytes') and ca != pn:
                r.fail(f'O2/{m.group(1)}/wrong-kind-of-group-id', f'snapshot_group_state calls {m.group(1)} with `{ca}` for its parameter `{pn}`: the raw group id and the MlsCodec-encoded id are '
                       'different keys, so the snapshot of that table matches no row and a rollback then empties it')
    # statements that select / delete by group id bind the id of the table's kind: `group_id_bytes` (raw) for MDK tables and for the snapshot table,
    # the MlsCodec-encoded id for the openmls_* tables (both are byte slices: a slip type-checks and matches no row)
    for fn_ in ('snapshot_group_state', 'restore_group_from_snapshot'):
        fb = re.sub(r'\s+', ' ', re.sub(r'//[^\n]*', '', S.fn_body(S.source('lib.rs'), fn_)))
        for m in re.finditer(r'"((?:DELETE FROM|SELECT [^"]*? FROM|UPDATE) (\w+)[^"]*?)"\s*,\s*(?:rusqlite::)?params!\s*\[([^\]]*)\]', fb):
            sql, tbl, plist = m.group(1), m.group(2), [x.strip().lstrip('&').strip() for x in S.split_top(m.group(3)) if x.strip()]
            if tbl not in tables:
                continue
            gcol_ = group_col(tables, tbl)
            conds = re.findall(r'(\w+)\s*(?:=|!=|<>|>=|<=|>|<)\s*\?', sql.split('WHERE', 1)[1]) if 'WHERE' in sql else []
            for cname, par in zip(conds, plist):
                if cname != gcol_:
                    continue
                n += 1
                want = 'mls_group_id_bytes' if tbl.startswith('openmls_') else 'group_id_bytes'
                other = 'group_id_bytes' if want == 'mls_group_id_bytes' else 'mls_group_id_bytes'
                if par == other:
                    r.fail(f'O2/{tbl}/wrong-kind-of-group-id', f'{fn_}: "{sql[:70]}" binds `{par}` to {tbl}.{cname}, the id of the other kind: the statement matches no row '
                           '(e.g. the consumed snapshot is never deleted and stays in the store as an untracked full-state copy)')
    # what the restore writes into the live tables is what the snapshot row carries: every bound parameter is the stored row itself or a value decoded from it
    # (a key column bound to a function argument instead re-keys the restored row)
    body = re.sub(r'//[^\n]*', '', S.fn_body(S.source('lib.rs'), 'restore_group_from_snapshot'))
    decoded = set()
    for m in re.finditer(r'let\s*\(([^)]*)\)\s*(?::\s*\([^;=]*?\))?\s*=\s*serde_json::from_slice', body, re.S):
        decoded |= {x.strip().lstrip('mut ').strip() for x in m.group(1).split(',') if x.strip() and x.strip() != '_'}
    for m in re.finditer(r'let\s+(\w+)\s*(?::[^=;]+)?=\s*serde_json::from_slice', body):
        decoded.add(m.group(1))
    flat = re.sub(r'\s+', ' ', body)
    for m in re.finditer(r'"(INSERT(?: OR REPLACE)? INTO (\w+)[^"]*)"\s*,\s*(?:rusqlite::)?params!\s*\[([^\]]*)\]', flat):
        tbl, plist = m.group(2), [x.strip().lstrip('&').strip() for x in S.split_top(m.group(3)) if x.strip()]
        if tbl == 'group_state_snapshots':
            continue
        n += 1
        src_all = S.source('lib.rs')
        is_const = lambda x: re.fullmatch(r'[A-Z][A-Z0-9_]+', x) is not None     # SCREAMING_CASE: a named constant / static (rustc warns about anything else named so); not a re-keying
        foreign = [x for x in plist if re.fullmatch(r'\w+', x) and x not in decoded and x not in ('row_data', 'row_key') and not re.fullmatch(r'\d+', x) and not is_const(x)]
        if foreign:
            r.fail(f'O2/{tbl}/restore-value-not-from-snapshot', f'the restore INSERT into {tbl} binds {foreign}, which is not decoded from the snapshot row: the restored row is keyed / filled with a value '
                   'other than the one that was snapshotted (e.g. the raw group id instead of the MlsCodec-encoded key), so the restored state is not the snapshotted one')
    # the snapshot blob is written and read back position by position: the column the restore binds a decoded value to is the column the snapshot helper
    # put at that position of the same blob (two same-typed neighbours swapped on one side only would exchange their values on every rollback)
    writers, readers = snapshot_codec()
    for t in sorted(set(writers) | set(readers)):
        n += 1
        if t not in writers or t not in readers:
            continue                      # reported as one-sided above
        for c, srcv in sorted(readers[t].items()):
            if srcv is None:
                continue                  # reported as restore-value-not-from-snapshot above
            blob, kind, k, arity = srcv
            wkind, wcols = writers[t][blob]
            if kind != wkind or arity != len(wcols):
                r.fail(f'O2/{t}/snapshot-codec-shape', f'column {c} of {t} is restored from the snapshot {blob} read as {kind} of {arity}, but the snapshot helper writes the {blob} as {wkind} of {len(wcols)} ({wcols})')
            elif wcols[k] != c:
                r.fail(f'O2/{t}/snapshot-codec-position', f'column {c} of {t} is restored from position {k} of the snapshot {blob}, where the snapshot helper stored column {wcols[k]}: '
                       f'a rollback writes the value of {wcols[k]} into {c}')
    # the OTHER snapshots of the group are deleted by the cascade and put back: they must come back unchanged, age included
    others_sel = [x for x in rest_prog if x.kind == 'SELECT' and x.table == 'group_state_snapshots' and any(isinstance(c, tuple) and c[0] == 'snapshot_name' and c[1] in ('!=', '<>') for c in (x.where or []))]
    others_ins = [x for x in rest_prog if x.kind == 'INSERT' and x.table == 'group_state_snapshots']
    if others_ins:
        n += 1
        scols = tables['group_state_snapshots'].colnames()
        gcol = group_col(tables, 'group_state_snapshots')
        ins_ = others_ins[-1]
        miss = [c for c in scols if c not in ins_.cols and not (tables['group_state_snapshots'].pk == ['id'] and c == 'id')]
        if miss:
            r.fail('O2/other-snapshots/column-not-restored', f'the other snapshots of the group are re-inserted without column(s) {miss}')
        mv = re.search(r'VALUES\s*\((.*?)\)\s*(?:ON CONFLICT|$)', ins_.text, re.I | re.S)
        vals = [v.strip() for v in S.split_top(mv.group(1))] if mv else []
        computed = [c for c, v in zip(ins_.cols, vals) if not re.fullmatch(r'\?\d*', v)]
        if computed:
            r.fail('O2/other-snapshots/column-recomputed', f'the other snapshots of the group are re-inserted with column(s) {computed} computed anew ({[v for v in vals if not re.fullmatch(r"[?][0-9]*", v)]}) '
                   'instead of carrying the stored value: a surviving snapshot changes (e.g. its age restarts, so it outlives the time-to-live)')
        # rows re-inserted under the rolled-back group's id must be rows that belonged to that group
        # (a read of snapshot rows that also selects their name is the read of the snapshots to be put back, whatever its WHERE looks like)
        any_other_read = [x for x in rest_prog if x.kind == 'SELECT' and x.table == 'group_state_snapshots' and x not in others_sel and x.where is not None
                          and 'snapshot_name' in (x.select or []) and not any(isinstance(c, tuple) and c[0] == 'snapshot_name' and c[1] == '=' for c in x.where)]
        for x in others_sel + any_other_read:
            conj = {(c[0], c[1]) for c in (x.where or []) if isinstance(c, tuple)}
            if (gcol, '=') not in conj:
                r.fail('O2/other-snapshots/not-group-scoped', f'the snapshots put back after the cascade are read with "{x.text.split("WHERE")[-1].strip()[:80]}", not restricted to the rolled-back group: '
                       'snapshots of OTHER groups are copied under this group (they are never pruned with their own group and hold key material)')
        if not others_sel:
            r.fail('O2/other-snapshots/not-read', 'other snapshots are re-inserted but never read before the cascade')
        else:
            sel_cols = scols if others_sel[0].select == ['*'] else others_sel[0].select
            lost = [c for c in scols if c not in sel_cols and c != gcol and not (tables['group_state_snapshots'].pk == ['id'] and c == 'id')]
            if lost:
                r.fail('O2/other-snapshots/column-not-read', f'column(s) {lost} of the other snapshots are not read before the cascade deletes them: they cannot be put back unchanged')
    r.cases = n
    r.queries = 0
    r.functions = ['snapshot_group_state', 'restore_group_from_snapshot', 'migrations/V*.sql']
    r.bounds = {'tables': sorted(set(sel) | set(ins))}
    r.samples.append({'snapshot_selects': {t: s.select for t, s in sel.items()}, 'restore_inserts': {t: s.cols for t, s in ins.items()}})
    r.notes.append('catalogue cross-check (no solver query): it validates the column-level abstraction used by O1')
    r.wall_s = time.time() - t0
    return r


def sqlite_snapshot_ops(tier):
    """create / release / prune change no live state"""
    r = Result('O3', 'sqlsym', 'SQLite snapshot_group_state / delete_group_snapshot / prune_expired_snapshots write only group_state_snapshots; delete removes exactly (name, group); '
                              'prune removes exactly created_at < cutoff; re-taking a snapshot under an existing name replaces it')
    t0 = time.time()
    sol = S.Solver()
    n = 0
    for fn in ('snapshot_group_state', 'delete_group_snapshot', 'prune_expired_snapshots'):
        for s in [S.parse_stmt(x) for x in S.program('lib.rs', fn)]:
            if s.kind in ('INSERT', 'DELETE', 'UPDATE'):
                n += 1
                if s.table != 'group_state_snapshots':
                    r.fail(f'O3/{fn}/writes-live-table', f'{fn} writes table {s.table}: {s.text[:80]}')
    d = [S.parse_stmt(x) for x in S.program('lib.rs', 'delete_group_snapshot') if x.upper().startswith('DELETE')]
    if not (len(d) == 1 and sorted(c[0] for c in d[0].where) == ['group_id', 'snapshot_name'] and all(c[1] == '=' for c in d[0].where)):
        r.fail('O3/delete-predicate', 'delete_group_snapshot does not delete exactly WHERE snapshot_name = ? AND group_id = ?')
    p = [S.parse_stmt(x) for x in S.program('lib.rs', 'prune_expired_snapshots') if x.upper().startswith('DELETE')]
    # prune predicate == (created_at < cutoff) for all 64-bit values: z3 equivalence with the contract
    if len(p) != 1 or len(p[0].where) != 1:
        r.fail('O3/prune-predicate-shape', 'prune_expired_snapshots is not a single DELETE with one predicate')
    else:
        col, op, rhs = p[0].where[0]
        ca, cut = z3.BitVec('created_at', 64), z3.BitVec('cutoff', 64)
        ops = {'<': ca < cut, '<=': ca <= cut, '>': ca > cut, '>=': ca >= cut, '=': ca == cut, '!=': ca != cut}
        if col != 'created_at' or op not in ops:
            r.fail('O3/prune-predicate', f'prune predicate is {col} {op} {rhs}')
        else:
            sat, m = sol.check([ops[op] != (ca < cut)])
            n += 1
            if sat:
                r.fail('O3/prune-predicate', f'prune deletes WHERE created_at {op} cutoff; the contract is "older than the cutoff" (created_at < cutoff); differs e.g. at created_at={m[ca]}, cutoff={m[cut]}')
    # re-taking under an existing name replaces: snapshot must clear (name, group) first or use OR REPLACE on the full key
    snap_prog = [S.parse_stmt(x) for x in S.program('lib.rs', 'snapshot_group_state')]
    ins = [s for s in snap_prog if s.kind == 'INSERT']
    dels = [s for s in snap_prog if s.kind == 'DELETE']
    # replacing means: the rows of the earlier take are gone (row-wise OR REPLACE would keep rows whose key no longer exists live)
    replaces = any(sorted(c[0] for c in s.where) == ['group_id', 'snapshot_name'] and all(c[1] == '=' for c in s.where) for s in dels)
    if any(getattr(s, 'or_clause', None) == 'REPLACE' for s in ins) and not replaces:
        r.fail('O3/sqlite-retake-merges', 'snapshot_group_state re-takes a snapshot with INSERT OR REPLACE without clearing (snapshot_name, group_id) first: rows captured by the earlier take '
               'whose key no longer exists (e.g. a relay removed since) stay in the snapshot and come back on rollback')
    # the DELETE must come before the INSERTs and inside the transaction
    if replaces and dels:
        kinds = [x.kind for x in snap_prog]
        di = min(i for i, x in enumerate(snap_prog) if x.kind == 'DELETE')
        replaces = kinds.index('BEGIN') < di
    n += 1
    if not replaces:
        r.fail('O3/sqlite-retake-not-replacing', 'snapshot_group_state inserts with a plain INSERT and never clears (snapshot_name, group_id): re-taking a snapshot under an existing name '
               'fails on the primary key instead of replacing it')
    from vlib import scen as _scen
    _scen.confirm(r, 'O3/sqlite-retake-not-replacing', 'c09', 'c09_sqlite_retake_snapshot_replaces')
    r.cases = n
    r.queries = sol.queries
    r.solver_s = sol.time
    r.functions = ['snapshot_group_state', 'delete_group_snapshot', 'prune_expired_snapshots']
    r.bounds = {'created_at / cutoff': 'all signed 64-bit values'}
    r.wall_s = time.time() - t0
    return r


def run(tier, seed, only=None):
    from props import memobs
    obs = [('O1', sqlite_restore), ('O2', sqlite_columns), ('O3', sqlite_snapshot_ops), ('O4', lambda t: memobs.memory_rollback(t, 'O4', 'O4'))]
    out = []
    for k, f in obs:
        if only and k not in only:
            continue
        try:
            out.append(f(tier))
        except S.SqlError as e:
            r = Result(k, 'sqlsym', f.__doc__ or f.__name__)
            r.broken(f'SQL engine: {e}')
            out.append(r)
    return out
