"""C06 — hostile or malformed input never panics and a refused event has no effect (partial)."""
import z3

from mirsym.api import Ob, guard, env_fault, ev_is, is_write, vname, ret_shape, uid_of, Opaque, Agg, Ref, MLS_MUTATORS, STORAGE_WRITES
from mirsym import contracts as C
from mirsym import models as M
from mirsym import codecmodel as CM

EXPLANATION = ('Engine E3: (O1) every MDK-owned parser / validator on the event, key-package, welcome and extension paths is explored on the MIR with '
               'arbitrary (opaque, symbolic-length) input; overflow checks, index-bounds asserts, unwrap/expect and the std functions that panic on bad '
               'indices (split_at, string range indexing) are modelled as panic paths, and none may be feasible; (O1b) memory messages() for all usize limits/offsets; '
               '(O2) process_message with its MDK callees inlined: on every path that reports failure no state-changing call other than the failure record is made '
               '(storage faults excluded); (O3/O4) shared obligations on ignored proposals and refused welcomes.')
TRUSTED = ['rustc nightly MIR dump', 'mirsym interpreter + std models; std/serde/tls_codec/OpenMLS/nostr callees are assumed not to panic (their code is not encoded)', 'z3']
CORE = 'mdk-core'

PARSERS = [
    ('key_packages::validate_protocol_version_tag', ['&MDK<Storage>', '&nostr::Tag']),
    ('key_packages::validate_ciphersuite_tag', ['&MDK<Storage>', '&nostr::Tag']),
    ('key_packages::validate_extensions_tag', ['&MDK<Storage>', '&nostr::Tag']),
    ('key_packages::validate_relays_tag', ['&MDK<Storage>', '&nostr::Tag']),
    ('key_packages::validate_key_package_ref_tag', ['&MDK<Storage>', '&nostr::Tag']),
    ('key_packages::validate_key_package_tags', ['&MDK<Storage>', '&nostr::Event', 'std::option::Option<&openmls::prelude::KeyPackage>']),
    ('key_packages::parse_credential_identity', ['&MDK<Storage>', '&[u8]']),
    ('validation::extract_nostr_group_id', ['&MDK<Storage>', '&nostr::Event']),
    ('validation::validate_created_at', ['&MDK<Storage>', '&nostr::Event']),
    ('validation::validate_event', ['&MDK<Storage>', '&nostr::Event']),
    ('welcomes::validate_welcome_event', ['&nostr::UnsignedEvent']),
    ('ContentEncoding::from_tag_value', ['&str']),
    ('decode_content', ['&str', 'util::ContentEncoding', '&str']),
    ('extension::types::NostrGroupDataExtension::from_raw', None),
    ('extension::types::NostrGroupDataExtension::deserialize_bytes', ['&[u8]']),
    ('error_handling::sanitize_error_reason', ['&error::Error']),
    ('process::process_message', ['&MDK<Storage>', '&nostr::Event']),
    ('welcomes::process_welcome', ['&MDK<Storage>', '&nostr::event::EventId', '&nostr::UnsignedEvent']),
    ('key_packages::parse_key_package', ['&MDK<Storage>', '&nostr::Event']),
    ('error_handling::extract_mls_group_id_from_event', ['&MDK<Storage>', '&nostr::Event']),
]


# helpers whose panic-freedom is decided by another engine / harness (container models or Kani), not by the plain exploration of the closure
CLOSURE_ELSEWHERE = {'create_snapshot': 'C20-O1 / C11-O2 (snapshot harness reports panics)', 'ensure_hydrated': 'C20-O1 / C11-O2', 'is_better_candidate': 'C11-O2', 'rollback_to_epoch': 'C20-O1',
                     'compare_display_keys': 'C18-O1 (Kani: panic checks on the compiled code)', 'compare_processed_at_keys': 'C18-O1', 'update_last_message_if_newer': 'C18-O2 (Kani)'}


# input-dependent loops in helpers: the trip count is an argument; bounded by what the (only) caller passes
CLOSURE_ASSUME = {'try_decrypt_with_past_epochs': (3, 5, 'the only caller passes DEFAULT_EPOCH_LOOKBACK = 5')}


def closure_arg(i, t):
    import re as _re
    t = t.strip()
    m = _re.fullmatch(r'(u|i)(8|16|32|64|128|size)', t)
    if m:
        return z3.BitVec(f'arg{i}_{t}', 64 if m.group(2) == 'size' else int(m.group(2)))
    if t == 'bool':
        return z3.Bool(f'arg{i}_bool')
    return Opaque(f'arg{i}_' + _re.sub(r'[^A-Za-z]', '', t)[-10:], t)


@guard
def o1(tier):
    """no panic path in the MDK-owned parsers"""
    M.SEQ_BOUND[0] = 2 if tier == 'quick' else 3
    ob = Ob('O1', 'no feasible panic path (overflow, index out of bounds, unwrap/expect on None/Err, split_at / string range index) in the MDK-owned parsers and validators, for arbitrary input '
                  f'(tag lists and value lists up to {M.SEQ_BOUND[0]} elements, all string/byte lengths symbolic)', models=CM.codec_models(), loop_bound=14, pure=C.PURE_MLS)
    ob.eng.model_maps = False
    total = 0
    done = []
    for spec, tys in PARSERS:
        try:
            f = ob.fn(CORE, spec)
        except Exception as e:
            ob.require(False, f'O1/{spec}/not-found', f'parser {spec} not found in the MIR: {e}')
            continue
        if tys is None:
            from props.C15 import RAW
            from mirsym.values import SeqV
            args = [Agg('struct', 'mdk_core::extension::types::TlsNostrGroupDataExtension', None,
                        [z3.BitVec('version', 16), Opaque('gid', '[u8; 32]'), Opaque('name', 'Vec<u8>'), Opaque('description', 'Vec<u8>'), Opaque('admins', 'Vec<[u8; 32]>'), Opaque('relays', 'Vec<Vec<u8>>')] +
                        [Opaque(n, 'Vec<u8>') for n in ('image_hash', 'image_key', 'image_nonce', 'image_upload_key')], list(RAW))]
        else:
            args = [Opaque(f'arg{i}', t) for i, t in enumerate(tys)]
        if len(args) != f.nargs:
            ob.require(False, f'O1/{f.short}/signature', f'{spec} takes {f.nargs} parameters, harness has {len(args)}')
            continue
        paths = ob.explore(f, args)
        total += len(paths)
        done.append(f'{f.short}:{len(paths)}')
        for p in paths:
            if p.kind == 'panic':
                ob.require(False, f'O1/{f.short}/panic', f'{f.short} can panic on hostile input: {p.msg}', p)
    # closure: every repository function (all dumped crates) that the functions above call and the engine summarises as an uninterpreted call is explored on its
    # own, with arbitrary arguments, and so on to a fixpoint -- so a panic in a helper that only a listed entry point reaches (ContentEncoding::from_tags below
    # parse_key_package, decrypt_message below process_message, ...) is found without the helper having to be listed
    import re as _re
    seen = {ob.fn(CORE, spec).name for spec, _ in PARSERS}
    work = [v for k, v in sorted(ob.eng.repo_callees.items()) if k not in seen]
    seen |= {v.name for v in work}
    closure_done, skipped, inconclusive = [], [], []
    while work:
        g = work.pop(0)
        if any(g.name.endswith('::' + x) or g.short == x for x in CLOSURE_ELSEWHERE):
            skipped.append(g.short); continue
        known = dict(ob.eng.repo_callees)
        ob.new_engine(models=CM.codec_models(), loop_bound=14, pure=C.PURE_MLS)
        ob.eng.model_maps = False
        ob.eng.repo_callees.update(known)
        try:
            cargs = [closure_arg(i, t) for i, (_, t) in enumerate(g.params)]
            from mirsym.engine import State
            st0 = State()
            for nm, (k, bound, why) in CLOSURE_ASSUME.items():
                if g.short == nm and k < len(cargs) and z3.is_bv(cargs[k]):
                    st0.pc.append(z3.ULE(cargs[k], bound))
                    ob.r.assumptions.append(f'{nm}: argument {k} <= {bound} ({why})')
            paths = ob.explore(g, cargs, st0)
        except Exception as e:                        # noqa: a helper the engine cannot execute is inconclusive, never a pass
            inconclusive.append(f'{g.short}: {type(e).__name__}: {str(e)[:120]}')
            continue
        total += len(paths)
        closure_done.append(f'{g.short}:{len(paths)}')
        for p in paths:
            if p.kind == 'panic':
                ob.require(False, f'O1/{g.short}/panic', f'{g.short} (reached from the parsers / entry points through the call graph) can panic on hostile input: {p.msg}', p)
        for k, v in sorted(ob.eng.repo_callees.items()):
            if k not in seen:
                seen.add(k); work.append(v)
    done += closure_done
    if inconclusive:
        ob.r.broken('call-graph closure: ' + '; '.join(inconclusive[:6]))
    ob.require(len(closure_done) >= 20, 'O1/vacuity-closure', f'only {len(closure_done)} helper functions reached through the call graph')
    ob.r.notes.append(f'call-graph closure: {len(closure_done)} helper functions explored on their own; decided elsewhere with their own harness (not explored here): {sorted(set(skipped))}')
    ob.r.bounds = {'functions': done, 'sequence lengths': f'0..{M.SEQ_BOUND[0]}', 'string / byte lengths': 'symbolic u64'}
    ob.r.assumptions += ['callees outside the MDK crates (std, serde_json, tls_codec, hex, OpenMLS, nostr) do not panic except the modelled may-panic std functions',
                         'the uniffi binding layer is not encoded']
    ob.r.vacuity.append(f'{total} paths over {len(done)} functions')
    return ob.done(cases=total)


def o1b(tier):
    from props import memobs
    r = memobs.messages_listing(tier, 'O1b', 'O1b')
    return r


INL = {'dispatch_by_content_type', 'process_mls_message', 'handle_processing_error', 'fail_unprocessable', 'return_own_commit', 'extract_mls_group_id_from_event'}
# process_commit / process_proposal / process_application_message are summarised: their own refusal behaviour is C05-O3, C05-O4 (= O3 here) and C02-O2
SUMMARISED = ('process_commit', 'process_proposal', 'process_application_message')


@guard
def o2(tier):
    """a refused event has no effect"""
    M.SEQ_BOUND[0] = 1
    ob = Ob('O2', 'process_message (MDK callees inlined): on every path that returns Err / Unprocessable / PreviouslyFailed / IgnoredProposal, no state-changing storage or OpenMLS call is made '
                  'except writing the failure / processed record (storage faults excluded; the rollback arm is not a refusal)', inline=INL, pure=C.PURE_MLS, loop_bound=5, max_paths=400000,
            models=C.staged_commit_models(1), assume_ok=[r'^<S as ', r'^<Storage as ', r'record_failure$', r'save_.*_record$', r'mark_processed$'])
    f = ob.fn(CORE, 'process::process_message')
    paths = ob.explore(f, [Opaque('self', '&MDK<Storage>'), Opaque('event', '&nostr::Event')])
    n_ref = n_ok = 0
    allowed = ('save_processed_message', 'save_processed_message_record', 'record_failure', 'mark_processed')
    for p in paths:
        if p.kind == 'panic':
            ob.require(False, 'O2/panic', f'process_message can panic: {p.msg}', p); continue
        sh = ret_shape(p.ret)
        refused = sh[0] == 'Err' or sh in (('Ok', 'Unprocessable'), ('Ok', 'PreviouslyFailed'), ('Ok', 'IgnoredProposal'))
        if not refused:
            n_ok += 1
            continue
        if env_fault(ob, p):
            continue
        # bookkeeping calls after a successful merge that fail are environment faults as well (exporter secret / metadata sync / record saving)
        late = [e for e in p.trace if ev_is(e, 'get_message', 'exporter_secret', 'sync_group_metadata_from_mls', 'save_processed_message_record', 'save_message_record', 'save_group_record', 'get_group', 'load_mls_signer',
                                              'build_message_event', 'record_failure', 'mark_processed', 'tls_serialize_detached', 'commit_to_pending_proposals')
                and isinstance(e.ret, Opaque) and M.enum_kind(e.ret) == 'Result' and ob.eng.prove(p, e.ret.discriminant() == 1)[0]]
        if late:
            continue
        gm = [e for e in p.trace if ev_is(e, 'get_message')]
        if any(ev_is(e, 'save_message') for e in p.trace) and gm and not ob.eng.prove(p, z3.And(gm[-1].ret.discriminant() == 0, gm[-1].ret.child('Ok', 0, 'Option<Message>').discriminant() == 1))[0]:
            continue          # a message just saved cannot be read back: storage fault
        failed_mut = [e for e in p.trace if ev_is(e, *MLS_MUTATORS) and not ev_is(e, 'MlsGroup::process_message') and isinstance(e.ret, Opaque) and M.enum_kind(e.ret) == 'Result'
                      and not (e.short.endswith('process_message')) and ob.eng.prove(p, e.ret.discriminant() == 1)[0]]
        if failed_mut:
            continue          # an OpenMLS state-changing call itself failed (provider/storage fault inside OpenMLS)
        merged = [e for e in p.trace if e.short.split('::')[-1] in ('merge_staged_commit', 'merge_pending_commit') and ob.eng.prove(p, e.ret.discriminant() == 0)[0]]
        if merged:
            continue          # the commit took effect; a later bookkeeping call failed (environment fault after the point of no return, see C12)
        if any(ev_is(e, 'EpochSnapshotManager::rollback_to_epoch') for e in p.trace):
            continue          # the rollback arm: the event is re-processed, its outcome is the recursive call's
        n_ref += 1
        bad = [e for e in p.trace if is_write(e) and not ev_is(e, *allowed) and not ev_is(e, 'MlsGroup::process_message', 'MlsGroup::load', 'EpochSnapshotManager::create_snapshot') and not ev_is(e, *SUMMARISED)]
        bad = [e for e in bad if not (e.short.endswith('process_message') and 'openmls' in e.fn)]
        ob.require(not bad, 'O2/refused-with-effects/' + (sh[1] if len(sh) > 1 else sh[0]).strip('?')[:30],
                   f'process_message reports {sh} after performing {[e.short for e in bad]}', p)
        snaps = [e for e in p.trace if ev_is(e, 'EpochSnapshotManager::create_snapshot')]
        merges = [e for e in p.trace if e.short.split("::")[-1] in ('merge_staged_commit', 'merge_pending_commit')]
        if snaps and not merges:
            # a snapshot taken for a commit that is then refused stays in the manager's queue
            ob.require(all(ob.eng.prove(p, e.ret.discriminant() == 1)[0] for e in snaps) or sh == ('Err', 'Message'), 'O2/refused-leaves-snapshot',
                       f'a refused commit leaves an epoch snapshot behind ({sh})', p)
    ob.require(n_ref >= 10 and n_ok >= 3, 'O2/vacuity', f'refusal paths {n_ref}, accepting {n_ok}')
    ob.r.bounds = {'paths': 'all with callees of depth <= 3 inlined', 'retry list / proposal lists': '0..1'}
    ob.r.assumptions += ['storage-trait calls and post-merge bookkeeping returning Err are environment faults (C12), not refusals', 'OpenMLS MlsGroup::process_message returning Err leaves the persisted MLS state unchanged']
    ob.r.vacuity.append(f'{len(paths)} paths: {n_ref} refusals checked, {n_ok} accepting')
    return ob.done(cases=len(paths))


def o3(tier):
    from props import C05
    r = C05.o4(tier)
    r.oid = 'O3'
    r.title = 'process_proposal (shared with C05-O4): an ignored proposal performs no OpenMLS mutation and writes only its processed record'
    return r


def o4(tier):
    from props import C16
    r = C16.o1(tier)
    r.oid = 'O4'
    r.title = 'process_welcome / preview_welcome (shared with C16-O1): a refused invitation writes at most the failed processed-welcome record'
    return r


def o5(tier):
    """a storage write that is refused must itself be effect-free, otherwise the event refused because of it leaves something behind"""
    from props import memobs
    r = memobs.save_group_refusal(tier, 'O5', 'O5')
    r.title = 'memory backend (shared with C08-O6): a save_group that fails changes nothing, so an event / invitation refused because its group record is refused leaves no record behind -- ' + r.title[:160]
    return r


def o6(tier):
    from props import lir
    from vlib import scen
    r = lir.welcome_refusals(tier, 'O6', 'O6')
    scen.confirm(r, 'O6/process_welcome/sqlite/save_welcome/event/late-input-refusal', 'c16', 'c16_oversized_welcome_leaves_no_group_sqlite')
    return r


def o7(tier):
    from props import lir
    from vlib import scen
    r = lir.commit_refusals(tier, 'O7', 'O7')
    scen.confirm(r, 'O7/process_commit/sqlite/save_group/name/late-input-refusal', 'c08', 'c08_commit_with_overlong_name_is_all_or_nothing_sqlite')
    return r


def o8(tier):
    from props import lir
    return lir.message_refusals(tier, 'O8', 'O8')

UNIFFI_FNS = ['welcome_from_uniffi', 'parse_group_id', 'parse_event_id', 'parse_public_key', 'parse_relay_urls', 'parse_message_sort_order', 'parse_tags', 'derive_upload_keypair', 'decrypt_group_image',
              'prepare_group_image_for_upload', 'Mdk::get_group', 'Mdk::get_messages', 'Mdk::get_message', 'Mdk::get_welcome', 'Mdk::accept_welcome', 'Mdk::decline_welcome', 'Mdk::accept_welcome_json',
              'Mdk::create_message', 'Mdk::process_message', 'Mdk::process_welcome', 'Mdk::get_members', 'Mdk::add_members', 'Mdk::remove_members', 'Mdk::create_group', 'Mdk::get_last_message',
              'Mdk::get_relays', 'Mdk::merge_pending_commit', 'Mdk::self_update', 'Mdk::leave_group']


@guard
def o9(tier):
    """the binding layer turns every malformed argument into an error, never a panic"""
    old = M.SEQ_BOUND[0]
    M.SEQ_BOUND[0] = 2
    try:
        ob = Ob('O9', 'mdk-uniffi (the foreign-language binding layer): no feasible panic path in the argument conversion helpers and in the exported methods up to their call into mdk-core, for '
                      'arbitrary strings / byte vectors / records handed in by the host application (hex strings of any length, lists of <= 2 elements)',
                crates=('mdk-uniffi', 'mdk-storage-traits'), models=CM.codec_models(), loop_bound=8, pure=C.PURE_MLS, max_paths=40000)
        ob.eng.model_maps = False
        total = 0
        done = []
        # the record conversions towards the host (stored message / group / welcome -> binding record): hostile peers control parts of those records (tags, names)
        conv = [f for f in ob.prog.crates['mdk-uniffi'].funcs.values() if f.name.endswith('::from') and f.params
                and any(k in f.params[0][1] for k in ('group_types::Group', 'message_types::Message', 'welcome_types::Welcome'))]
        ob.require(len(conv) >= 3, 'O9/conversions-not-found', f'record conversions found in mdk-uniffi: {len(conv)}')
        for name in UNIFFI_FNS + conv:
            try:
                f = name if not isinstance(name, str) else ob.fn('mdk-uniffi', name)
                name = name if isinstance(name, str) else 'From<' + f.params[0][1].split('::')[-1] + '>'
            except Exception as e:
                ob.require(False, f'O9/{name}/not-found', f'binding function {name} not found in the MIR: {e}')
                continue
            paths = ob.explore(f, [Opaque(f'arg{i}', t) for i, (_, t) in enumerate(f.params)])
            total += len(paths)
            done.append(f'{name}:{len(paths)}')
            for p in paths:
                if p.kind == 'panic':
                    ob.require(False, f'O9/{name}/panic', f'{name} can panic on an argument supplied by the host application: {p.msg}', p)
    finally:
        M.SEQ_BOUND[0] = old
    ob.r.bounds = {'functions': done, 'list arguments': '0..2 elements', 'string / byte lengths': 'symbolic u64'}
    ob.r.assumptions += ['the generated uniffi scaffolding (lifting / lowering of arguments) and the callees in mdk-core / nostr / hex / serde_json are not encoded; mdk-core entry points are covered by O1',
                         'copy_from_slice panics when the slice lengths differ; try_into / from_slice return Err instead']
    ob.r.vacuity.append(f'{total} paths over {len(done)} binding functions')
    return ob.done(cases=total)


def o11(tier):
    """a message that is going to be refused (author mismatch) is refused before anything is written"""
    from props import C02
    r = C02.o2(tier)
    r.oid = 'O11'
    r.title = 'process_application_message (shared with C02-O2): the author check precedes the first write, so a rumor refused for its author leaves no stored message (and cannot overwrite one) -- ' + r.title[:140]
    return r


def o12(tier):
    """a late commit of an already decided epoch that is refused must stay without effect after a restart too"""
    from props import C11
    r = C11.o1(tier)
    r.oid = 'O12'
    r.title = ('parse_snapshot_name (shared with C11-O1): a snapshot re-loaded after a restart carries the timestamp 0 ("unknown"), never a fabricated one, so is_better_candidate answers false for it '
               'and a late commit that is going to be refused (non-admin, stale) cannot first roll the group back')
    return r


def o10(tier):
    """a failed storage operation must not leave half of its effects visible: the error path of the SQLite rollback rolls its transaction back"""
    from props import C12
    r = C12.o1(tier)
    r.oid = 'O10'
    r.title = 'SQLite (shared with C12-O1): snapshot creation, rollback and relay replacement undo everything on their error path (ROLLBACK / ROLLBACK TO + RELEASE), so an event that is refused because the rollback it triggered failed leaves the group as it was'
    return r

def run(tier, seed, only=None):
    obs = [('O1', o1), ('O1b', o1b), ('O2', o2), ('O3', o3), ('O4', o4), ('O5', o5), ('O6', o6), ('O7', o7), ('O8', o8), ('O9', o9), ('O10', o10), ('O11', o11), ('O12', o12)]
    out = []
    for k, f in obs:
        if only and k not in only:
            continue
        try:
            out.append(f(tier))
        except Exception as e:                      # an engine that cannot read the tree is an inconclusive obligation, not a crash of the whole check
            from vlib.common import Result
            rr = Result(k, 'sqlsym' if type(e).__name__ == 'SqlError' else 'mirsym', f.__doc__ or f.__name__)
            rr.broken(f'{type(e).__name__}: {e}')
            out.append(rr)
    return out
