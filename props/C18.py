"""C18 — message listing is one total order; pages and last-message pointer agree."""
from vlib import kani

EXPLANATION = ('Bounded symbolic verification of the real code. O1/O2: CBMC (via Kani) over the compiled '
               'mdk-storage-traits comparators and Group::update_last_message_if_newer for all 64-bit timestamps and '
               '32-byte ids. Further obligations are added by other engines (see obligation_results).')
TRUSTED = ['Kani 0.68 / CBMC 6.11 translation of Rust MIR', 'harness-side reference comparator (3 lines, kani/direct/src/c18.rs)']


def run(tier, seed, only=None):
    out = []
    if not only or 'O1' in only:
        out.append(kani.obligation(
            'O1', 'compare_display_keys / compare_processed_at_keys are strict total orders equal to the documented lexicographic order',
            ['c18_o1_display_is_lexicographic', 'c18_o1_processed_is_lexicographic', 'c18_o1_display_antisymmetric_total',
             'c18_o1_display_transitive', 'c18_o1_processed_transitive'],
            ['mdk_storage_traits::messages::types::Message::compare_display_keys',
             'mdk_storage_traits::messages::types::Message::compare_processed_at_keys'],
            {'timestamps': 'all u64', 'ids': 'all 32-byte arrays', 'unwind': 34}))
    if not only or 'O2' in only:
        out.append(kani.obligation(
            'O2', 'update_last_message_if_newer: pointer = max(old, new) in display order; None pointer takes the message',
            ['c18_o2_last_message_is_max', 'c18_o2_last_message_none_takes'],
            ['mdk_storage_traits::groups::types::Group::update_last_message_if_newer'],
            {'timestamps': 'all u64', 'ids': 'two symbolic bytes (first, last) + 30 fixed bytes', 'unwind': 34}))
    if not only or 'O4' in only:
        from props import C10
        r4 = C10.o1(tier); r4.oid = 'O4'; r4.title = 'SQLite ORDER BY == documented total order; last_message = LIMIT 1 of the same order (shared with C10-O1)'
        out.append(r4)
        r5 = C10.o2(tier); r5.oid = 'O5'; r5.title = 'SQLite LIMIT/OFFSET == slice pagination for all limits and usize offsets (shared with C10-O2)'
        out.append(r5)
    if not only or 'O3' in only:
        from props import memobs
        out.append(memobs.messages_listing(tier, 'O3', 'O3'))
    return out
