"""C18 — message listing is one total order; pages and last-message pointer agree."""
from vlib import kani

EXPLANATION = ('Bounded symbolic verification of the real code. O1/O2: CBMC (via Kani) over the compiled '
               'mdk-storage-traits comparators and Group::update_last_message_if_newer for all 64-bit timestamps and '
               '32-byte ids. Further obligations are added by other engines (see obligation_results).')
TRUSTED = ['Kani 0.68 / CBMC 6.11 translation of Rust MIR', 'harness-side reference comparator (3 lines, kani/direct/src/c18.rs)']
import z3
from mirsym.api import Ob, guard
from mirsym import models as M
from props.memharness import ts, eid


@guard
def o6(tier):
    """cross-engine agreement: the claim of O1 (Kani, compiled code) decided again by mirsym over the MIR of the same functions"""
    ob = Ob('O6', 'cross-engine: compare_display_keys / compare_processed_at_keys equal the documented lexicographic order for all keys, decided by mirsym/z3 over the MIR (same claim as O1, other engine)',
            crates=('mdk-storage-traits',))
    n = 0
    for fn, first, second in [('compare_display_keys', 'created', 'processed'), ('compare_processed_at_keys', 'processed', 'created')]:
        f = ob.fn('mdk-storage-traits', 'messages::types::Message::' + fn)
        a1, a2, b1, b2 = (z3.BitVec(f'{fn}_{x}', 64) for x in ('a1', 'a2', 'b1', 'b2'))
        ai, bi = z3.BitVec(f'{fn}_aid', 256), z3.BitVec(f'{fn}_bid', 256)
        paths = ob.explore(f, [ts(a1), ts(a2), eid(ai), ts(b1), ts(b2), eid(bi)])
        for p in paths:
            n += 1
            if p.kind != 'return':
                ob.require(False, f'O6/{fn}/panic', f'{fn} can panic: {p.msg}', p); continue
            o = M.ordering_val(p.ret)
            lt = z3.Or(z3.ULT(a1, b1), z3.And(a1 == b1, z3.Or(z3.ULT(a2, b2), z3.And(a2 == b2, z3.ULT(ai, bi)))))
            eq = z3.And(a1 == b1, a2 == b2, ai == bi)
            ref = z3.If(lt, z3.BitVecVal(-1, 8), z3.If(eq, z3.BitVecVal(0, 8), z3.BitVecVal(1, 8)))
            ob.prove(p, o == ref, f'O6/{fn}/not-lexicographic', f'{fn} differs from the documented order ({first}, then {second}, then id; unsigned / bytewise)')
    ob.r.bounds = {'timestamps': 'all u64', 'ids': 'all 256-bit values (EventId order = big-endian byte order)'}
    ob.r.assumptions.append('EventId/Timestamp Ord = bytewise / unsigned order (std model); the same claim is decided on the compiled code by O1')
    return ob.done(cases=n)


@guard
def o7(tier):
    """the cached pointer changes only through the canonical comparison"""
    from mirsym import contracts as C
    from mirsym.api import Opaque, ev_is, vname, uid_of
    from props.C02 import app_args
    from props.memharness import GROUP_FIELDS
    ob = Ob('O7', 'create_message / process_application_message: the group record they save carries last_message_id / _at / _processed_at exactly as left by '
                  'Group::update_last_message_if_newer (O2): no direct assignment to the pointer fields, and the update is applied to the record that is saved',
            pure=C.PURE_MLS, models=C.unsigned_event_models(), inline={'create_mls_message_payload'})
    idx = {GROUP_FIELDS.index(n): n for n in ('last_message_id', 'last_message_at', 'last_message_processed_at')}
    total = n = 0
    for spec, args, key in [('create::create_message', [Opaque('self', '&MDK<Storage>'), Opaque('mls_group_id', '&mdk_storage_traits::GroupId'), Opaque('rumor', 'nostr::UnsignedEvent')], 'send'),
                            ('application::process_application_message', app_args(), 'receive')]:
        f = ob.fn('mdk-core', spec)
        for p in ob.explore(f, args):
            total += 1
            if p.kind != 'return' or vname(p.ret) != 'Ok':
                continue
            sg = [(i, e) for i, e in enumerate(p.trace) if ev_is(e, 'save_group_record') or (ev_is(e, 'save_group') and not ev_is(e, 'save_group_exporter_secret'))]
            if not sg:
                continue
            n += 1
            i0, e0 = sg[-1]
            g = e0.args[1]
            up = [(i, e) for i, e in enumerate(p.trace[:i0]) if ev_is(e, 'update_last_message_if_newer')]
            if not ob.require(bool(up), f'O7/{key}/pointer-not-updated', f'{f.short}: a group record is saved without the pointer having gone through update_last_message_if_newer', p):
                continue
            over = getattr(g, 'over', {}) or {}
            direct = sorted(idx[k[1]] for k in over if isinstance(k, tuple) and len(k) == 2 and k[1] in idx)
            if hasattr(g, 'names') and hasattr(g, 'fields') and not hasattr(g, 'over'):
                direct = ['record rebuilt field by field']
            ob.require(not direct, f'O7/{key}/pointer-written-directly', f'{f.short}: {direct} of the saved record are assigned directly, bypassing the newest-first comparison '
                       '(a message older than the stored head would move the pointer)', p)
            ob.require(uid_of(ob.eng, p.st, up[-1][1].args[0]).rstrip("'") == uid_of(ob.eng, p.st, g).rstrip("'"), f'O7/{key}/pointer-updated-on-another-record',
                       f'{f.short}: update_last_message_if_newer is applied to {uid_of(ob.eng, p.st, up[-1][1].args[0])}, the record saved is {uid_of(ob.eng, p.st, g)}', p)
    ob.require(n >= 2, 'O7/vacuity', f'paths saving a group record: {n}')
    ob.r.bounds = {'paths': 'all'}
    return ob.done(cases=total)


@guard
def o8(tier):
    """translator validation: the MIR interpreter, run on concrete inputs, must compute what the compiled function computes"""
    import json, os, tempfile
    from vlib import scen
    from vlib.common import sh, VERIF, WORK
    ob = Ob('O8', 'translator validation: for 300 concrete input vectors (boundary timestamps, equal / adjacent ids) produced by the compiled compare_display_keys / compare_processed_at_keys, '
                  'the MIR interpreter computes the same Ordering (the engine\'s integer / EventId comparison and then_with models agree with the real code)', crates=('mdk-storage-traits',))
    out = os.path.join(WORK, 'vectors-c18.jsonl')
    if os.path.exists(out):
        os.remove(out)
    import shutil
    shutil.copy(os.path.join(os.environ.get('VERIF_REPO', '/repo'), 'Cargo.lock'), os.path.join(VERIF, 'replays', 'scenarios', 'Cargo.lock'))
    rc, o, dt = sh('cargo test --offline --test vectors', cwd=os.path.join(VERIF, 'replays', 'scenarios'), env={'CARGO_TARGET_DIR': os.path.join(WORK, 'scen-target'), 'VERIF_VECTORS_OUT': out}, timeout=1500)
    if rc != 0 or not os.path.exists(out):
        ob.r.broken('native vector generator failed: ' + o[-400:])
        return ob.done(cases=0)
    vecs = [json.loads(l) for l in open(out)]
    fd = ob.fn('mdk-storage-traits', 'messages::types::Message::compare_display_keys')
    fp = ob.fn('mdk-storage-traits', 'messages::types::Message::compare_processed_at_keys')
    n = bad = 0
    for v in vecs:
        for f, key in ((fd, 'display'), (fp, 'processed')):
            args = [ts(z3.BitVecVal(v['a1'], 64)), ts(z3.BitVecVal(v['a2'], 64)), eid(z3.BitVecVal(int(v['ia'], 16), 256)),
                    ts(z3.BitVecVal(v['b1'], 64)), ts(z3.BitVecVal(v['b2'], 64)), eid(z3.BitVecVal(int(v['ib'], 16), 256))]
            ps = [p for p in ob.explore(f, args) if p.kind == 'return']
            n += 1
            got = z3.simplify(M.ordering_val(ps[0].ret)).as_signed_long() if len(ps) == 1 else None
            if got != v[key]:
                bad += 1
                ob.require(False, f'O8/{key}/interpreter-disagrees', f'{f.short}({v["a1"]}, {v["a2"]}, {v["ia"][:8]}.., {v["b1"]}, {v["b2"]}, {v["ib"][:8]}..): compiled code says {v[key]}, the MIR interpreter {got}')
    ob.require(n >= 400, 'O8/vacuity', f'vectors compared: {n}')
    ob.r.bounds = {'vectors': len(vecs), 'functions': 2}
    ob.r.vacuity.append(f'{n} (function, vector) pairs compared, {bad} disagreements')
    return ob.done(cases=n)


def run(tier, seed, only=None):
    out = []
    if not only or 'O1' in only:
        out.append(kani.obligation(
            'O1', 'compare_display_keys / compare_processed_at_keys are strict total orders equal to the documented lexicographic order',
            ['c18_o1_display_is_lexicographic', 'c18_o1_processed_is_lexicographic', 'c18_o1_display_antisymmetric_total',
             'c18_o1_display_transitive', 'c18_o1_processed_transitive'],
            ['mdk_storage_traits::messages::types::Message::compare_display_keys',
             'mdk_storage_traits::messages::types::Message::compare_processed_at_keys'],
            {'timestamps': 'all u64', 'ids': 'all 32-byte arrays', 'unwind': 34}))
    if not only or 'O2' in only:
        out.append(kani.obligation(
            'O2', 'update_last_message_if_newer: pointer = max(old, new) in display order; None pointer takes the message',
            ['c18_o2_last_message_is_max', 'c18_o2_last_message_none_takes'],
            ['mdk_storage_traits::groups::types::Group::update_last_message_if_newer'],
            {'timestamps': 'all u64', 'ids': 'two symbolic bytes (first, last) + 30 fixed bytes', 'unwind': 34}))
    if not only or 'O4' in only:
        from props import C10
        r4 = C10.o1(tier); r4.oid = 'O4'; r4.title = 'SQLite ORDER BY == documented total order; last_message = LIMIT 1 of the same order (shared with C10-O1)'
        out.append(r4)
        r5 = C10.o2(tier); r5.oid = 'O5'; r5.title = 'SQLite LIMIT/OFFSET == slice pagination for all limits and usize offsets (shared with C10-O2)'
        out.append(r5)
    if not only or 'O6' in only:
        out.append(o6(tier))
    if not only or 'O7' in only:
        out.append(o7(tier))
    if not only or 'O8' in only:
        out.append(o8(tier))
    if not only or 'O11' in only:
        from props import memobs, C10
        out.append(memobs.last_message_head(tier, 'O11', 'O11'))
        r12 = memobs.save_message_upsert(tier, 'O12', 'O12')
        r12.title = 'memory (shared with C07-O7): at the per-group limit the message evicted is the OLDEST by created_at, never the head of the listing the pointer designates -- ' + r12.title[:150]
        out.append(r12)
        r13 = C10.o4(tier); r13.oid = 'O13'
        r13.title = 'SQLite (shared with C10-O4): a re-saved message gets all its sort keys from the new record (processed_at included), so the listing order and the pointer computed from the new record agree'
        out.append(r13)
    if not only or 'O14' in only:
        from props import memobs, C10
        r14 = memobs.invalidation(tier, 'O14', 'O14')
        r14.title = 'memory (shared with C02-O4): a rollback to epoch e invalidates exactly the messages of epochs > e -- a message of epoch e itself stays valid, so the pointer restored with the snapshot never designates an invalidated message; ' + r14.title[:120]
        out.append(r14)
        r15 = C10.o3(tier); r15.oid = 'O15'
        r15.title = 'SQLite (shared with C10-O3): the invalidation after a rollback selects exactly the rows of the group with epoch > e (the message the restored pointer designates is of epoch <= e and stays valid)'
        out.append(r15)
    if not only or 'O10' in only:
        from props import C02
        r10 = C02.o3(tier); r10.oid = 'O10'
        r10.title = 'own echo (shared with C02-O3): confirming an own message changes its state only -- its sort keys (created_at, processed_at, id) are not re-stamped, so the listing order and the pointer stay in agreement'
        out.append(r10)
    if not only or 'O9' in only:
        from props import C09
        r9 = C09.sqlite_columns(tier); r9.oid = 'O9'
        r9.title = 'SQLite (shared with C09-O2): a rollback restores last_message_id / _at / _processed_at with the rest of the group record, so the pointer never designates a message the rollback invalidates'
        out.append(r9)
    if not only or 'O3' in only:
        from props import memobs
        out.append(memobs.messages_listing(tier, 'O3', 'O3'))
    return out
