"""E3c harness: drives the real EpochSnapshotManager MIR (create_snapshot / is_better_candidate / rollback_to_epoch, with ensure_hydrated and
parse_snapshot_name inlined) on concrete-shape state with symbolic epochs, timestamps, ids and retention, against a 6-line reference model."""
import itertools
import z3

from mirsym.api import Ob, Opaque, Agg, Ref, vname, uid_of
from mirsym.engine import State
from mirsym.values import Tok, StrV
from mirsym import models as M
from mirsym import snapmodel as SM

CORE = 'mdk-core'
INLINE = {'ensure_hydrated', 'parse_snapshot_name'}


class Ref_:
    pass


class Harness:
    def __init__(self, ob, persistent=False, fail=None, loop_bound=12):
        self.ob = ob
        self.persistent = persistent
        ob.new_engine(inline=INLINE, models=SM.storage_models(persistent, fail), loop_bound=loop_bound, max_paths=200000)
        self.eng = ob.eng
        self.f_create = ob.fn(CORE, 'epoch_snapshots::EpochSnapshotManager::create_snapshot')
        self.f_better = ob.fn(CORE, 'epoch_snapshots::EpochSnapshotManager::is_better_candidate')
        self.f_rollback = ob.fn(CORE, 'epoch_snapshots::EpochSnapshotManager::rollback_to_epoch')
        self.storage = Opaque('storage', '&S')
        self.panics = []

    def start(self, retention, assumptions=()):
        st = State()
        for a in assumptions:
            st.pc.append(a)
        mgr = SM.new_manager(st, retention)
        return [(st, mgr, [])]           # (state, manager ref, reference queue)

    def fresh_manager(self, st, retention):
        return SM.new_manager(st, retention)

    def _run(self, f, args, st):
        paths = self.ob.explore(f, args, st)
        out = []
        for p in paths:
            if p.kind == 'panic':
                self.panics.append(p)
                self.ob.require(False, f'{self.ob.r.oid}/panic/{f.short}', f'{f.short} can panic: {p.msg}', p)
            elif p.kind == 'return':
                out.append(p)
        return out

    def create(self, st, mgr, gid, epoch, cid, ts):
        g = Ref(st.temp(gid), ())
        c = Ref(st.temp(SM.event_id(cid)), ())
        return self._run(self.f_create, [mgr, self.storage, g, epoch, c, ts], st)

    def better(self, st, mgr, gid, epoch, ts, cid):
        g = Ref(st.temp(gid), ())
        c = Ref(st.temp(SM.event_id(cid)), ())
        return self._run(self.f_better, [mgr, self.storage, g, epoch, ts, c], st)

    def rollback(self, st, mgr, gid, epoch):
        g = Ref(st.temp(gid), ())
        return self._run(self.f_rollback, [mgr, self.storage, g, epoch], st)

    # ---------------------------------------------------------------- reference model
    def decide(self, st, cond):
        """decide a spec-level condition under the path condition (must be decided: the code branched on everything the spec depends on)"""
        if self.eng.prove(st.pc, cond)[0]:
            return True
        if self.eng.prove(st.pc, z3.Not(cond))[0]:
            return False
        return None

    def ref_create(self, st, ref, retention, epoch, cid, ts):
        ref = ref + [dict(epoch=epoch, cid=cid, ts=ts)]
        while True:
            d = self.decide(st, z3.UGT(z3.BitVecVal(len(ref), 64), retention))
            if d is None:
                return None
            if not d:
                return ref
            ref = ref[1:]

    def ref_rollback(self, st, ref, epoch):
        for i, e in enumerate(ref):
            d = self.decide(st, e['epoch'] == epoch)
            if d is None:
                return None, None
            if d:
                return ref[:i], True
        return ref, False

    def ref_better(self, ref, epoch, ts, cid, st):
        for e in ref:
            d = self.decide(st, e['epoch'] == epoch)
            if d is None:
                return None
            if d:
                return z3.And(e['ts'] != 0, z3.Or(z3.ULT(ts, e['ts']), z3.And(ts == e['ts'], z3.ULT(cid, e['cid']))))
        return z3.BoolVal(False)

    def compare(self, st, mgr, gid, ref, key, what):
        """queue of the manager == reference queue; stub live set == reference names"""
        ob = self.ob
        q = SM.queue_of(self.eng, st, mgr, gid)
        if not ob.require(len(q) == len(ref), f'{key}/queue-length', f'{what}: manager keeps {len(q)} snapshot(s), the reference model {len(ref)}', None,
                          {'state': [str(c)[:100] for c in st.pc[-8:]], 'log': [str(x)[:80] for x in st.ext.get('log', [])]}):
            return False
        claims = []
        for i, (s, e) in enumerate(zip(q, ref)):
            f = SM.snap_fields(s)
            claims.append(z3.And(f['epoch'] == e['epoch'], f['applied_commit_ts'] == e['ts'], SM.id_bv(f['applied_commit_id']) == e['cid']))
        okq = True
        if claims:
            okq = self.eng.prove(st.pc, z3.And(claims))[0]
            ob.require(okq, f'{key}/queue-content', f'{what}: the snapshots kept are not the most recent ones in creation order')
        live = [e for e in st.ext.get('live', []) if z3.is_true(z3.simplify(M.val_eq(self.eng, e[0], gid)))]
        oks = len(live) == len(ref)
        if oks:
            for l, e in zip(sorted(live, key=lambda x: x[2]), ref):
                oks = oks and self.eng.prove(st.pc, z3.And(l[1].epoch == e['epoch'], l[1].cid == e['cid']))[0]
        ob.require(oks, f'{key}/stored-snapshots-out-of-step', f'{what}: the snapshots left in storage ({len(live)}) are not exactly those the manager tracks ({len(ref)}): leaked or lost stored snapshot',
                   None, {'log': [str(x)[:80] for x in st.ext.get('log', [])]})
        return okq and oks


def sequences(k, kinds='CR'):
    for n in range(1, k + 1):
        for s in itertools.product(kinds, repeat=n):
            yield s
