"""C07 — re-delivering an already handled event changes nothing (kernel level)."""
import z3

from mirsym.api import (Ob, guard, ev_is, is_write, vname, ret_shape, derived_from, uid_of, Opaque, Agg, Ref)
from mirsym import contracts as C
from mirsym import models as M
from props.C05 import first, all_ev, res_ok
from props import C02

EXPLANATION = ('Symbolic execution (z3) of the MIR of the dedup gate of process_message, the own-echo arm and the WrongEpoch arm of '
               'handle_processing_error: for every stored record state (symbolic discriminant, totality checked against the enum declaration) '
               'the handled-event branches are shown to perform no state-changing call; E3c adds that the applied commit is never a better '
               'candidate than itself.')
TRUSTED = ['rustc nightly MIR dump', 'mirsym interpreter + std models', 'z3']
CORE = 'mdk-core'


@guard
def o1(tier):
    """dedup gate (step 0 of process_message)"""
    ob = Ob('O1', 'process_message step 0: a stored Failed / EpochInvalidated record returns Unprocessable or PreviouslyFailed before validation, decryption or any write; the decision is total over the record states',
            pure=C.PURE_MLS, inline={'extract_mls_group_id_from_event'})
    f = ob.fn(CORE, 'process::process_message')
    paths = ob.explore(f, [Opaque('self', '&MDK<Storage>'), Opaque('event', '&nostr::Event')])
    states = ob.prog.cat.variants('ProcessedMessageState', 'mdk_storage_traits::messages::types')
    seen = {}
    for p in paths:
        if p.kind == 'panic':
            ob.require(False, 'O1/panic', p.msg, p); continue
        sh = ret_shape(p.ret)
        fp = [e for e in p.trace if ev_is(e, 'find_processed_message_by_event_id')]
        if not ob.require(bool(fp) and p.trace.index(fp[0]) <= 1, 'O1/no-dedup-lookup', 'process_message does not start with the processed-record lookup', p):
            continue
        ob.require(uid_of(ob.eng, p.st, fp[0].args[1]) == '*event.0', 'O1/lookup-key', 'dedup lookup under another id', p)
        r = fp[0].ret
        if ob.eng.prove(p, r.discriminant() == 1)[0]:
            ob.require(sh[0] == 'Err' and len([e for e in p.trace if is_write(e)]) == 0 and not [e for e in p.trace if ev_is(e, 'decrypt_message')], 'O1/storage-error', f'storage error at dedup: {sh}', p)
            continue
        opt = r.child('Ok', 0, 'Option<ProcessedMessage>')
        if not ob.eng.prove(p, opt.discriminant() == 1)[0]:
            continue
        sd = opt.child('Some', 0, 'ProcessedMessage').child(None, 5, 'ProcessedMessageState').discriminant()
        feas = [s for i, s in enumerate(states) if ob.eng.check(p.pc + [sd == i])]
        for s_ in feas:
            seen[s_] = seen.get(s_, 0) + 1
        blocked_states = {'Failed', 'EpochInvalidated'}
        progressed = [e.short for e in p.trace if ev_is(e, 'validate_event', 'decrypt_message', 'dispatch_by_content_type', 'record_failure') or is_write(e)]
        is_blocked = sh in (('Ok', 'Unprocessable'), ('Ok', 'PreviouslyFailed')) and not progressed
        if set(feas) & blocked_states:
            ob.require(is_blocked, 'O1/' + '-'.join(sorted(set(feas) & blocked_states)) + '-not-blocked',
                       f'a record in state {sorted(set(feas) & blocked_states)} is not stopped at the gate: result {sh}, continued with {progressed}', p)
            ob.require(set(feas) <= blocked_states, 'O1/gate-too-coarse', f'states {feas} share one path', p)
            if sh == ('Ok', 'Unprocessable'):
                fg = [e for e in p.trace if ev_is(e, 'find_group_by_nostr_group_id')]
                ob.require(bool(fg) and derived_from(ob.eng, p.st, p.ret.fields[0].fields[0], fg[0]), 'O1/unprocessable-group', 'Unprocessable names a group not looked up from the event', p)
        else:
            ob.require(bool(progressed) or sh[0] == 'Err', 'O1/valid-state-blocked', f'a record in state {feas} is stopped at the gate ({sh})', p)
    ob.require(set(seen) == set(states), 'O1/totality', f'record states decided by the gate: {sorted(seen)} of {states}')
    ob.r.vacuity.append(f'{len(paths)} paths; paths per stored state: {seen}')
    ob.r.bounds = {'paths': 'all (callees of later steps uninterpreted)', 'record state': 'all 6 variants'}
    return ob.done(cases=len(paths))


@guard
def o2(tier):
    r = C02.o3(tier)
    r.oid = 'O2'
    r.title = 'own echo (shared with C02-O3): Processed / Failed / EpochInvalidated echoes write nothing; ProcessedCommit only re-syncs metadata'
    return r


@guard
def o3(tier):
    """WrongEpoch arm without rollback"""
    ob = Ob('O3', 'handle_processing_error(WrongEpoch): not better and record ProcessedCommit => only a metadata sync; not better otherwise => exactly one Failed record and nothing else',
            pure=C.PURE_MLS, inline={'return_own_commit', 'fail_unprocessable'}, loop_bound=5)
    f = ob.fn(CORE, 'error_handling::handle_processing_error')
    err = Agg('enum', 'mdk_core::error::Error', 'mdk_core::error::Error::ProcessMessageWrongEpoch', [z3.BitVec('msg_epoch', 64)])
    paths = ob.explore(f, [Opaque('self', '&MDK<Storage>'), err, Opaque('event', '&nostr::Event'), Opaque('group', '&mdk_storage_traits::groups::types::Group')])
    states = ob.prog.cat.variants('ProcessedMessageState', 'mdk_storage_traits::messages::types')
    n_own = n_fail = 0
    for p in paths:
        if p.kind == 'panic':
            ob.require(False, 'O3/panic', p.msg, p); continue
        ib = [e for e in p.trace if ev_is(e, 'EpochSnapshotManager::is_better_candidate')]
        rb = [e for e in p.trace if ev_is(e, 'EpochSnapshotManager::rollback_to_epoch')]
        if not ib or (rb and ob.eng.prove(p, rb[0].ret.discriminant() == 0)[0]):
            continue
        sh = ret_shape(p.ret)
        writes = [e for e in p.trace if is_write(e) and not ev_is(e, 'EpochSnapshotManager::rollback_to_epoch')]
        wn = [e.short.split('::')[-1] for e in writes]
        fp = [e for e in p.trace if ev_is(e, 'find_processed_message_by_event_id')]
        is_pc = False
        if fp:
            r = fp[0].ret
            some = ob.eng.prove(p, z3.And(r.discriminant() == 0, r.child('Ok', 0, 'Option<ProcessedMessage>').discriminant() == 1))[0]
            if some:
                sd = r.child('Ok', 0, 'Option<ProcessedMessage>').child('Some', 0, 'ProcessedMessage').child(None, 5, 'ProcessedMessageState').discriminant()
                is_pc = ob.eng.prove(p, sd == states.index('ProcessedCommit'))[0]
        if is_pc:
            n_own += 1
            ob.require(set(wn) <= {'sync_group_metadata_from_mls'} and (sh == ('Ok', 'Commit') or sh[0] == 'Err'), 'O3/own-commit', f'superseded own commit: {sh}, writes {wn}', p)
        else:
            n_fail += 1
            ob.require(wn == ['record_failure'], 'O3/failed-record-only', f'stale commit: writes {wn}', p)
            ob.require(sh == ('Ok', 'Unprocessable') or sh[0] == 'Err', 'O3/result', f'stale commit yields {sh}', p)
            rf = [e for e in writes if ev_is(e, 'record_failure')]
            if rf:
                ob.require(uid_of(ob.eng, p.st, rf[0].args[1]) == '*event.0', 'O3/failure-record-key', 'failure recorded under another event id', p)
    ob.require(n_own >= 1 and n_fail >= 1, 'O3/vacuity', f'own {n_own} fail {n_fail}')
    ob.r.vacuity.append(f'{len(paths)} paths: {n_own} own-commit, {n_fail} stale-commit')
    ob.r.bounds = {'paths': 'all'}
    # record_failure itself: writes one Failed record, nothing else
    ob.new_engine(pure=C.PURE_MLS, inline={'sanitize_error_reason'})
    f2 = ob.fn(CORE, 'error_handling::record_failure')
    paths2 = ob.explore(f2, [Opaque('self', '&MDK<Storage>'), Opaque('event_id', 'nostr::event::EventId'), Opaque('error', '&error::Error'),
                             Opaque('gid', 'std::option::Option<&mdk_storage_traits::GroupId>'), Opaque('epoch', 'std::option::Option<u64>')])
    for p in paths2:
        if p.kind == 'panic':
            ob.require(False, 'O3/record_failure-panic', p.msg, p); continue
        w = [e for e in p.trace if is_write(e)]
        ob.require([e.short.split('::')[-1] for e in w] in ([], ['save_processed_message_record']), 'O3/record_failure-writes', f'record_failure writes {[e.short for e in w]}', p)
        rec = [e for e in p.trace if ev_is(e, 'create_processed_message_record')]
        if w:
            ob.require(len(rec) == 1 and vname(rec[0].args[4]) == 'Failed' and uid_of(ob.eng, p.st, rec[0].args[0]) == 'event_id', 'O3/record_failure-state',
                       'record_failure does not write a Failed record for that event', p)
    return ob.done(cases=len(paths) + len(paths2))


@guard
def o4(tier):
    from props import C01
    r = C01.o7(tier)
    r.oid = 'O4'
    r.title = 'process_mls_message (shared with C01-O7): a message of a past epoch can reach the rollback decision only if it is a Commit (a re-delivered proposal or application message changes nothing); the echo of an own message is taken for the pending own commit only if it is a Commit and a commit is pending'
    return r


def _shared(fn, oid, title):
    r = fn()
    r.oid = oid
    r.title = title + ' -- ' + r.title[:200]
    return r


def o5(tier):
    """after a restart the applied commit must still not beat itself: hydrated snapshots carry the 'unknown' timestamp 0, never a local clock value"""
    from props import C11
    return _shared(lambda: C11.o1(tier), 'O5', 'shared with C11-O1: a snapshot re-loaded after a restart carries no fabricated commit timestamp, so the re-delivered applied commit cannot compare as better than itself')


def o6(tier):
    """an invalidated record stays invalidated: the SQLite invalidation statements flag the records they report"""
    from props import C10
    return _shared(lambda: C10.o3(tier), 'O6', 'shared with C10-O3: on SQLite the rollback invalidation flags exactly the processed-message records (and messages) it selects, so the dedup gate keeps refusing them')


def o7(tier):
    """re-saving a stored message (the echo of an own message, a re-delivery) must not evict or alter any other stored message"""
    from props import memobs
    return memobs.save_message_upsert(tier, 'O7', 'O7')


def o8(tier):
    """the echo handler re-saves the message it looked up: that lookup must be the group's own copy"""
    from props import memobs
    return memobs.find_message_scoped(tier, 'O8', 'O8')


def o9(tier):
    """the snapshot taken before a commit is applied records THAT commit's id and timestamp, so the same commit delivered again never compares as better than itself"""
    from props import C01
    return _shared(lambda: C01.o4(tier), 'O9', 'shared with C01-O4: the epoch snapshot records the wrapper id and created_at of the commit being applied (also for the own commit merged from its echo), so its re-delivery is not a better candidate')


def o10(tier):
    """the stored message carries the message's own epoch, the same epoch as its dedup record: a rollback that invalidates one invalidates the other, and a re-delivery stays refused"""
    from props import C02
    return _shared(lambda: C02.o2(tier), 'O10', 'shared with C02-O2: process_application_message stores the message and its processed record under the SAME epoch (the one handed in by the dispatcher), so after a rollback a re-delivered message cannot pass the gate and turn its invalidated copy valid')


def run(tier, seed, only=None):
    obs = [('O1', o1), ('O2', o2), ('O3', o3), ('O4', o4), ('O5', o5), ('O6', o6), ('O7', o7), ('O8', o8), ('O9', o9), ('O10', o10)]
    out = []
    for k, f in obs:
        if only and k not in only:
            continue
        try:
            out.append(f(tier))
        except Exception as e:                      # an engine that cannot read the tree is an inconclusive obligation, not a crash of the whole check
            from vlib.common import Result
            rr = Result(k, 'sqlsym' if type(e).__name__ == 'SqlError' else 'mirsym', f.__doc__ or f.__name__)
            rr.broken(f'{type(e).__name__}: {e}')
            out.append(rr)
    return out
