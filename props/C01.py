"""C01 — members converge on one MIP-03-selected group state (kernel level)."""
import re
import z3

from mirsym.api import (Ob, guard, StatePath, ev_is, is_write, vname, ret_shape, derived_from, uid_of, Opaque, Agg, Ref, MLS_MUTATORS)
from mirsym import contracts as C
from mirsym import models as M
from props.C05 import first, all_ev, res_ok
from mirsym import snapmodel as SM

EXPLANATION = ('Symbolic execution (z3) of the MIR of the commit paths and of the epoch-snapshot manager. E3: on every path of every mdk-core '
               'function that can merge a commit, a snapshot of the pre-merge epoch taken with the wrapper id/timestamp precedes the merge; the '
               'rollback arm of handle_processing_error performs exactly the documented sequence. E3c: the real is_better_candidate / '
               'create_snapshot / rollback_to_epoch are executed on concrete-shape queues with symbolic (timestamp, id) keys.')
TRUSTED = ['rustc nightly MIR dump', 'mirsym interpreter + std/container models', 'z3',
           'contracts K1-K3 of DESIGN.md (OpenMLS determinism, storage rollback = C09, WrongEpoch reporting)']
CORE = 'mdk-core'

GID = ('group.0', '*group.0')
SNAP = 'EpochSnapshotManager::create_snapshot'
MERGES = ('merge_pending_commit', 'merge_staged_commit')


def merging_functions(prog):
    """every mdk-core function whose MIR body calls MlsGroup::merge_pending_commit / merge_staged_commit (call graph, recomputed per run)"""
    out = []
    for f in prog.crates[CORE].funcs.values():
        for bl in f.blocks.values():
            t = bl[-1]
            if re.search(r'MlsGroup(::<.*?>)?>?::(merge_pending_commit|merge_staged_commit)', t) or re.search(r'<impl openmls::group::MlsGroup>::(merge_pending_commit|merge_staged_commit)', t):
                out.append(f); break
    return out


def mk_args(f):
    return [Opaque(f'arg{i}_{re.sub(r"[^A-Za-z]", "", t)[-12:]}', t) for i, (_, t) in enumerate(f.params)]


def check_snapshot_before_merge(ob, f, paths, tag):
    """on every path: the first MLS merge is preceded by a successful create_snapshot with the pre-merge epoch of that group and the event's id / created_at"""
    n = 0
    for p in paths:
        if p.kind == 'panic':
            continue
        merges = [(i, e) for i, e in enumerate(p.trace) if ev_is(e, *MERGES) and 'MlsGroup' in e.fn or (ev_is(e, *MERGES) and not ev_is(e, 'MDK::merge_pending_commit') and 'mls_group' in e.fn)]
        merges = [(i, e) for i, e in enumerate(p.trace) if e.short.split('::')[-1] in MERGES and ('openmls' in e.fn or 'MlsGroup' in e.fn)]
        if not merges:
            continue
        n += 1
        im, em = merges[0]
        snaps = [(i, e) for i, e in enumerate(p.trace[:im]) if ev_is(e, SNAP)]
        if not ob.require(bool(snaps), f'O6/{tag}/merge-without-snapshot', f'{f.short}: merges a commit without taking an epoch snapshot first (no rollback possible if a better commit arrives)', p):
            continue
        isn, es = snaps[-1]
        ob.require(res_ok(ob, p, es) or ob.eng.prove(p, z3.Not(es.ret.discriminant() == 1))[0], f'O6/{tag}/merge-after-failed-snapshot', f'{f.short}: merges although create_snapshot failed', p)
        u = lambda v: uid_of(ob.eng, p.st, v)
        ep = [e for e in p.trace[:isn] if ev_is(e, 'MlsGroup::epoch')]
        ob.require(bool(ep) and u(ep[-1].ret) in u(es.args[3]) and "'" not in u(es.args[3]).split('MlsGroup::epoch')[-1][:40] or bool(ep) and u(ep[-1].ret) in u(es.args[3]),
                   f'O6/{tag}/snapshot-epoch', f'{f.short}: snapshot epoch {u(es.args[3])} is not the pre-merge epoch', p)
        ob.require(u(es.args[4]).endswith('.0') and 'event' in u(es.args[4]).lower() or u(es.args[4]) == '*event.0', f'O6/{tag}/snapshot-id', f'{f.short}: snapshot id is {u(es.args[4])}, not the wrapper event id', p)
        ob.require('as_secs' in u(es.args[5]) and '.2' in u(es.args[5]), f'O6/{tag}/snapshot-ts', f'{f.short}: snapshot timestamp is {u(es.args[5])}, not the wrapper created_at', p)
    return n


@guard
def o4(tier):
    """snapshot-before-merge in process_commit and in the own-pending-commit arm of dispatch_by_content_type"""
    ob = Ob('O4', 'process_commit / dispatch_by_content_type: create_snapshot(pre-merge epoch, wrapper id, wrapper created_at) precedes the merge; a failed snapshot returns Err without merging',
            pure=C.PURE_MLS, models=C.staged_commit_models(1), loop_bound=5)
    total = 0
    for spec in ('commit::process_commit', 'process::dispatch_by_content_type'):
        f = ob.fn(CORE, spec)
        args = mk_args(f)
        # name the event argument 'event' for readable uids
        for i, (_, t) in enumerate(f.params):
            if t.endswith('nostr::Event'):
                args[i] = Opaque('event', t)
        paths = ob.explore(f, args)
        total += len(paths)
        n = check_snapshot_before_merge(ob, f, paths, f.short)
        ob.require(n >= 1, f'O4/{f.short}/vacuity', 'no merging path')
        for p in paths:
            if p.kind == 'panic':
                ob.require(False, f'O4/{f.short}/panic', p.msg, p); continue
            snaps = [(i, e) for i, e in enumerate(p.trace) if ev_is(e, SNAP)]
            if f.short == 'process_commit' and snaps:
                # a commit that is going to be rejected must not leave a snapshot entry behind (it would later be taken for the applied commit)
                vals = [(i, e) for i, e in enumerate(p.trace) if ev_is(e, 'validate_commit_authorization', 'validate_commit_identities')]
                ob.require(len(vals) == 2 and all(i < snaps[0][0] and res_ok(ob, p, e) for i, e in vals), f'O4/{f.short}/snapshot-before-validation',
                           'process_commit records a snapshot for a commit that has not passed authorization and identity validation yet', p)
            for i, e in snaps:
                if ob.eng.prove(p, e.ret.discriminant() == 1)[0]:
                    ob.require(vname(p.ret) == 'Err' and not [x for x in p.trace[i:] if x.short.split('::')[-1] in MERGES], f'O4/{f.short}/failed-snapshot-continues',
                               'snapshot creation failed but processing continued', p)
    # failures recorded under O6/... keys by the shared checker are re-keyed to O4 here
    for fl in ob.r.failures:
        fl['key'] = fl['key'].replace('O6/', 'O4/')
    ob.r.bounds = {'paths': 'all', 'pending-commit proposal list (self-update detection)': '0..1'}
    ob.r.vacuity.append(f'{total} paths')
    return ob.done(cases=total)


@guard
def o5(tier):
    """rollback arm of handle_processing_error"""
    ob = Ob('O5', 'handle_processing_error(WrongEpoch e): better candidate and rollback Ok => rollback(e); invalidate messages and processed messages after e; retry marking; callback; re-process the same event. Otherwise none of these',
            pure=C.PURE_MLS, inline={'return_own_commit', 'fail_unprocessable'}, loop_bound=5)
    M.SEQ_BOUND[0] = 2
    f = ob.fn(CORE, 'error_handling::handle_processing_error')
    msg_epoch = z3.BitVec('msg_epoch', 64)
    err = Agg('enum', 'mdk_core::error::Error', 'mdk_core::error::Error::ProcessMessageWrongEpoch', [msg_epoch])
    paths = ob.explore(f, [Opaque('self', '&MDK<Storage>'), err, Opaque('event', '&nostr::Event'), Opaque('group', '&mdk_storage_traits::groups::types::Group')])
    n_rb = n_no = 0
    ROLL = ('EpochSnapshotManager::rollback_to_epoch', 'invalidate_messages_after_epoch', 'invalidate_processed_messages_after_epoch',
            'find_failed_messages_for_retry', 'mark_processed_message_retryable', 'on_rollback', 'process_message')
    for p in paths:
        if p.kind == 'panic':
            ob.require(False, 'O5/panic', p.msg, p); continue
        u = lambda v: uid_of(ob.eng, p.st, v)
        ib = [e for e in p.trace if ev_is(e, 'EpochSnapshotManager::is_better_candidate')]
        if not ob.require(len(ib) == 1, 'O5/no-candidate-check', 'WrongEpoch handled without consulting is_better_candidate exactly once', p):
            continue
        a = ib[0].args
        ob.require(u(a[2]) in GID and str(a[3]) == 'msg_epoch' and 'as_secs' in u(a[4]) and '*event.2' in u(a[4]) and u(a[5]) == '*event.0', 'O5/candidate-args',
                   f'is_better_candidate({u(a[2])}, {a[3]}, {u(a[4])}, {u(a[5])})', p)
        rb = [e for e in p.trace if ev_is(e, 'EpochSnapshotManager::rollback_to_epoch')]
        better = ob.eng.prove(p, ib[0].ret)[0]
        if better:
            ob.require(bool(rb), 'O5/better-without-rollback', 'a better candidate is recognised but no rollback is attempted', p)
        rolled = bool(rb) and ob.eng.prove(p, rb[0].ret.discriminant() == 0)[0]
        names = [e.short.split('::')[-1] for e in p.trace if ev_is(e, *ROLL)]
        if better and rolled:
            n_rb += 1
            core = [n for n in names if n not in ('mark_processed_message_retryable', 'on_rollback')]
            ob.require(core == ['rollback_to_epoch', 'invalidate_messages_after_epoch', 'invalidate_processed_messages_after_epoch', 'find_failed_messages_for_retry', 'process_message'],
                       'O5/rollback-sequence', f'rollback sequence is {names}', p)
            for e in p.trace:
                if ev_is(e, 'EpochSnapshotManager::rollback_to_epoch'):
                    ob.require(u(e.args[2]) in GID and str(e.args[3]) == 'msg_epoch', 'O5/rollback-args', f'rollback_to_epoch({u(e.args[2])}, {e.args[3]})', p)
                if ev_is(e, 'invalidate_messages_after_epoch', 'invalidate_processed_messages_after_epoch'):
                    ob.require(u(e.args[1]) in GID and str(e.args[2]) == 'msg_epoch', 'O5/invalidate-args', f'{e.short}({u(e.args[1])}, {e.args[2]})', p)
                if ev_is(e, 'find_failed_messages_for_retry'):
                    ob.require(u(e.args[1]) in GID, 'O5/retry-args', 'retry candidates of another group', p)
                if ev_is(e, 'process_message'):
                    ob.require(u(e.args[1]) == 'event' or u(e.args[1]) == '*event', 'O5/reprocess-args', f're-processes {u(e.args[1])}', p)
                    same_ = p.ret is e.ret or u(p.ret) == u(e.ret) or (isinstance(p.ret, Agg) and p.ret.fields and u(p.ret.fields[0]).startswith(u(e.ret) + '.' + vname(p.ret) + '.'))
                    ob.require(same_, 'O5/reprocess-result', 'result of the re-processing is not returned', p)
            # every retry candidate is marked
            ff = [e for e in p.trace if ev_is(e, 'find_failed_messages_for_retry')]
            if ff and ob.eng.prove(p, ff[0].ret.discriminant() == 0)[0]:
                lenv = [c for c in p.pc if '#len' in str(c)]
                marks = [e for e in p.trace if ev_is(e, 'mark_processed_message_retryable')]
                got = None
                for k in range(M.SEQ_BOUND[0] + 1):
                    if any(str(c).replace('\n', ' ').endswith(f'#len == {k}') for c in lenv):
                        got = k
                if got is not None:
                    ob.require(len(marks) == got, 'O5/retry-marking', f'{got} retry candidates but {len(marks)} marked', p)
        else:
            n_no += 1
            bad = [n for n in names if n not in ('rollback_to_epoch',)]
            ob.require(not bad, 'O5/rollback-effects-without-rollback', f'no (successful) rollback but {bad} executed', p)
            if not better:
                ob.require(not rb, 'O5/rollback-not-better', 'rollback although the candidate is not better', p)
    ob.require(n_rb >= 1 and n_no >= 2, 'O5/vacuity', f'rollback paths {n_rb}, others {n_no}')
    ob.r.bounds = {'paths': 'all', 'retry list length': f'0..{M.SEQ_BOUND[0]}'}
    ob.r.vacuity.append(f'{len(paths)} paths: {n_rb} roll back, {n_no} do not')
    return ob.done(cases=len(paths))


@guard
def o6(tier):
    """every merging path takes a snapshot first (function set from the call graph)"""
    ob = Ob('O6', 'every mdk-core function that merges a commit into the MLS group snapshots the pre-merge epoch first (function set computed from the MIR call graph)',
            pure=C.PURE_MLS, models=C.staged_commit_models(1), loop_bound=5)
    fs = merging_functions(ob.prog)
    names = sorted(f.short for f in fs)
    ob.require(set(names) >= {'process_commit', 'dispatch_by_content_type', 'merge_pending_commit'}, 'O6/callgraph', f'merging functions found: {names}')
    total = 0
    for f in fs:
        if f.short == 'create_group':
            # epoch 0 -> 1 of a group nobody else has joined yet: no competing commit can exist; no snapshot required
            ob.r.notes.append('create_group merges the founding commit of a group that has no other member yet: exempt (no competing commit possible)')
            continue
        args = mk_args(f)
        for i, (_, t) in enumerate(f.params):
            if t.endswith('nostr::Event'):
                args[i] = Opaque('event', t)
        paths = ob.explore(f, args)
        total += len(paths)
        n = check_snapshot_before_merge(ob, f, paths, 'fn=MDK::' + f.short)
        ob.require(n >= 1, f'O6/{f.short}/vacuity', 'no merging path explored')
    ob.r.bounds = {'functions': names, 'paths': 'all'}
    ob.r.vacuity.append(f'{len(fs)} merging functions: {names}; {total} paths')
    r = ob.done(cases=total)
    from vlib import scen
    scen.confirm(r, 'O6/fn=MDK::merge_pending_commit/merge-without-snapshot', 'c01', 'c01_immediate_merge_loser_converges')
    return r


@guard
def o7(tier):
    """process_mls_message: mapping of OpenMLS verdicts to the recovery errors"""
    ob = Ob('O7', 'process_mls_message: the rollback-eligible WrongEpoch error is raised only for a Commit and carries the message epoch; OwnCommitPending only for a Commit that cannot be decrypted as own message while a pending commit exists; '
                  'group-id mismatch refused before processing', pure=C.PURE_MLS | {'MlsGroup::pending_commit'})
    f = ob.fn(CORE, 'process::process_mls_message')
    paths = ob.explore(f, [Opaque('self', '&MDK<Storage>'), Opaque('group', '&mut openmls::group::MlsGroup'), Opaque('bytes', '&[u8]')])
    ct = ob.prog.cat.discr_values('ContentType', 'openmls::framing')
    n_own = n_we = 0
    for p in paths:
        if p.kind == 'panic':
            ob.require(False, 'O7/panic', p.msg, p); continue
        sh = ret_shape(p.ret)
        pm = [e for e in p.trace if ev_is(e, 'MlsGroup::process_message') or (e.short.endswith('process_message') and 'openmls' in e.fn)]
        gid_eq = [c for c in p.pc if 'eq(' in str(c) and 'group_id' in str(c)]
        if sh == ('Err', 'ProtocolGroupIdMismatch'):
            ob.require(not pm, 'O7/mismatch-processed', 'group id mismatch detected after processing', p)
        if sh == ('Err', 'OwnCommitPending'):
            n_own += 1
            cte = [e for e in p.trace if ev_is(e, 'ProtocolMessage::content_type')]
            pc_ = [e for e in p.trace if ev_is(e, 'pending_commit')]
            ok = bool(cte) and bool(pc_) and bool(pm)
            if ob.require(ok, 'O7/own-commit-shape', 'OwnCommitPending without checking content type and pending commit', p):
                ob.prove_all(p, [(cte[0].ret.discriminant() == ct['Commit'], 'O7/own-commit-not-commit',
                                  'an own message that is not a Commit is treated as the pending own commit (its echo would merge the staged commit)'),
                                 (pc_[0].ret.discriminant() == 1, 'O7/own-commit-no-pending', 'OwnCommitPending although no commit is pending')])
        if sh == ('Err', 'ProcessMessageWrongEpoch'):
            n_we += 1
            ep = [e for e in p.trace if ev_is(e, 'ProtocolMessage::epoch')]
            v = p.ret.fields[0].fields[0]
            ob.require(bool(ep) and 'as_u64' in uid_of(ob.eng, p.st, v) and uid_of(ob.eng, p.st, ep[0].ret) in uid_of(ob.eng, p.st, v), 'O7/wrong-epoch-value',
                       f'WrongEpoch carries {uid_of(ob.eng, p.st, v)}, not the epoch of the message', p)
            # ProcessMessageWrongEpoch is the one error handle_processing_error answers with an MIP-03 comparison and possibly a rollback:
            # only a COMMIT of that epoch competes with the applied commit; a proposal / application message of a past epoch must not get there
            cte = [e for e in p.trace if ev_is(e, 'ProtocolMessage::content_type')]
            if ob.require(bool(cte), 'O7/wrong-epoch-any-content-type', 'the rollback-eligible WrongEpoch error is raised without looking at the content type: a late or re-delivered proposal / '
                          'application message of a past epoch is compared with the applied commit and can roll it back', p):
                ob.prove(p, cte[0].ret.discriminant() == ct['Commit'], 'O7/wrong-epoch-any-content-type',
                         'the rollback-eligible WrongEpoch error is raised for a message that is not a Commit: a late or re-delivered proposal / application message of a past epoch '
                         'is compared with the applied commit and can roll it back')
        if sh[0] == 'Ok':
            ob.require(bool(pm) and derived_from(ob.eng, p.st, p.ret.fields[0], pm[-1]), 'O7/ok-source', 'Ok result is not the processed message', p)
    ob.require(n_own >= 1 and n_we >= 1, 'O7/vacuity', f'own {n_own} wrongepoch {n_we}')
    ob.r.bounds = {'paths': 'all'}
    ob.r.vacuity.append(f'{len(paths)} paths; OwnCommitPending {n_own}, WrongEpoch {n_we}')
    r = ob.done(cases=len(paths))
    from vlib import scen
    scen.confirm(r, 'O7/wrong-epoch-any-content-type', 'c07', 'c07_late_proposal_of_a_past_epoch_does_not_roll_back')
    return r


@guard
def o1(tier):
    """is_better_candidate == MIP-03 strict order against the tracked snapshot of that epoch"""
    import itertools
    from props.snapharness import Harness, sequences
    from props.C20 import GID, cid
    K = 2 if tier == 'quick' else 3
    ob = Ob('O1', f'is_better_candidate(e, ts, id) <=> a snapshot for epoch e is tracked, its timestamp is known, and (ts, id) < (applied ts, applied id) lexicographically, '
                  f'after every sequence of <= {K} create/rollback steps (retention 0..3, all u64 timestamps, 256-bit ids); in particular irreflexive')
    h = Harness(ob)
    r = z3.BitVec('retention', 64)
    total = n_true = 0
    for seq in sequences(K):
        states = h.start(r, [z3.ULE(r, 3)])
        for i, step in enumerate(seq):
            nxt = []
            for st, mgr, ref in states:
                if step == 'C':
                    e, t, c = z3.BitVec(f'e{i}', 64), z3.BitVec(f't{i}', 64), cid(i)
                    for p in h.create(st, mgr, GID, e, c, t):
                        ref2 = h.ref_create(p.st, ref, r, e, c, t)
                        if ref2 is not None:
                            nxt.append((p.st, mgr, ref2))
                else:
                    e = z3.BitVec(f'target{i}', 64)
                    for p in h.rollback(st, mgr, GID, e):
                        ref2, found = h.ref_rollback(p.st, ref, e)
                        if ref2 is not None:
                            nxt.append((p.st, mgr, ref2))
            states = nxt
        ce, ct, cc = z3.BitVec('cand_epoch', 64), z3.BitVec('cand_ts', 64), z3.BitVec('cand_id', 256)
        for st, mgr, ref in states:
            for p in h.better(st, mgr, GID, ce, ct, cc):
                total += 1
                spec = h.ref_better(ref, ce, ct, cc, p.st)
                if not ob.require(spec is not None, 'O1/epoch-undecided', 'is_better_candidate does not decide which tracked snapshot has the candidate epoch', p):
                    continue
                ob.prove(p, p.ret == spec, 'O1/not-mip03-order', 'is_better_candidate differs from the MIP-03 rule (earlier timestamp, then smaller id) against the commit applied at that epoch')
                if ob.eng.prove(p, p.ret)[0]:
                    n_true += 1
                # irreflexive: the applied commit re-offered is never better than itself
                for e_ in ref:
                    ob.prove(p, z3.Implies(z3.And(ce == e_['epoch'], ct == e_['ts'], cc == e_['cid'],
                                                  z3.And([z3.Or(x is e_, x['epoch'] != e_['epoch']) for x in ref[:ref.index(e_)]]) if ref.index(e_) else z3.BoolVal(True)), z3.Not(p.ret)),
                             'O1/better-than-itself', 'the commit already applied at an epoch is reported as a better candidate than itself (re-delivery would trigger a rollback)')
    ob.require(n_true >= 2 and total >= 10, 'O1/vacuity', f'true answers {n_true} of {total}')
    ob.r.bounds = {'steps before the query': K, 'retention': '0..3', 'timestamps/epochs': 'all u64', 'ids': 'all 256-bit values'}
    ob.r.assumptions += SM_ASSUMPTIONS()
    ob.r.vacuity.append(f'{total} query paths, {n_true} answering true')
    return ob.done(cases=total)


def SM_ASSUMPTIONS():
    from mirsym import snapmodel
    return snapmodel.ASSUMPTIONS + ['a real wrapper timestamp is never 0 (0 is the marker for "unknown after restart", see C11)']


@guard
def o2(tier):
    """the applied commit is the MIP-03 minimum whatever the arrival order"""
    import itertools
    from props.snapharness import Harness
    from props.C20 import GID
    N = 2 if tier == 'quick' else 3
    ob = Ob('O2', f'driving create_snapshot / is_better_candidate / rollback_to_epoch as handle_processing_error does: for {N} competing commits of one epoch with symbolic (timestamp, id) '
                  'including ties, in every arrival order, the commit recorded as applied at the end is the lexicographic minimum and a rollback happens exactly at strict improvements')
    h = Harness(ob)
    ts = [z3.BitVec(f'ts{i}', 64) for i in range(N)]
    ids = [z3.BitVec(f'cid{i}', 256) for i in range(N)]
    e = z3.BitVec('epoch', 64)
    distinct = [ids[i] != ids[j] for i in range(N) for j in range(i + 1, N)] + [t != 0 for t in ts]
    total = 0

    def lt(i, j):
        return z3.Or(z3.ULT(ts[i], ts[j]), z3.And(ts[i] == ts[j], z3.ULT(ids[i], ids[j])))
    for order in itertools.permutations(range(N)):
        states = [(st, mgr, None, 0) for st, mgr, _ in h.start(z3.BitVecVal(5, 64), distinct)]
        for k, c in enumerate(order):
            nxt = []
            for st, mgr, applied, nrb in states:
                if applied is None:
                    for p in h.create(st, mgr, GID, e, ids[c], ts[c]):
                        nxt.append((p.st, mgr, c, 0))
                    continue
                for p in h.better(st, mgr, GID, e, ts[c], ids[c]):
                    total += 1
                    for s2, b in M.bool_cases(ob.eng, p.st, p.ret):
                        if not b:
                            nxt.append((s2, mgr, applied, nrb)); continue
                        for p2 in h.rollback(s2, mgr, GID, e):
                            if not ob.require(vname(p2.ret) == 'Ok', 'O2/rollback-fails', 'better candidate recognised but rollback_to_epoch fails', p2):
                                continue
                            for p3 in h.create(p2.st, mgr, GID, e, ids[c], ts[c]):
                                nxt.append((p3.st, mgr, c, nrb + 1))
            states = nxt
        for st, mgr, applied, nrb in states:
            total += 1
            claims = [(z3.Not(lt(c, applied)), 'O2/not-minimum', f'arrival order {order}: the commit finally applied is not the MIP-03 minimum of the commits offered') for c in range(N) if c != applied]
            ob.prove_all(StatePath(st), claims)
            q = SM.queue_of(ob.eng, st, mgr, GID)
            ob.require(len(q) == 1, 'O2/queue', f'{len(q)} snapshots tracked for one epoch after the race', None)
            if q:
                f_ = SM.snap_fields(q[0])
                ob.prove(st.pc, z3.And(SM.id_bv(f_['applied_commit_id']) == ids[applied], f_['applied_commit_ts'] == ts[applied]), 'O2/recorded-commit', 'the snapshot does not record the commit that was applied last')
    ob.r.bounds = {'competing commits': N, 'arrival orders': 'all permutations', 'timestamps': 'all non-zero u64 (ties included)', 'ids': 'all distinct 256-bit values'}
    ob.r.assumptions += SM_ASSUMPTIONS()
    ob.r.vacuity.append(f'{total} decision points over all arrival orders')
    return ob.done(cases=total)


def _shared(fn, oid, title):
    r = fn()
    r.oid = oid
    r.title = title + ' -- ' + r.title[:200]
    return r


def o8(tier):
    """a fork within the retention depth can only be resolved if the winning commit of the fork epoch can still be decrypted"""
    from props import C02
    return _shared(lambda: C02.o1(tier), 'O8', 'shared with C02-O1: the outer-layer decryption window reaches back the full configured look-back, so the winning commit of a fork that deep is not lost before the MIP-03 comparison')


def o9(tier):
    """contract K2 on SQLite"""
    from props import C09
    return _shared(lambda: C09.sqlite_restore(tier), 'O9', 'contract K2 (shared with C09-O1): on SQLite the rollback the loser performs restores exactly the pre-commit rows of the group (no stale exporter secret or MLS row of the losing branch survives)')


def o10(tier):
    """contract K2 on the memory backend"""
    from props import memobs
    return _shared(lambda: memobs.memory_rollback(tier, 'O10', 'O10'), 'O10', 'contract K2 (shared with C09-O4): on the memory backend the rollback restores exactly the pre-commit state of the group')


def o11(tier):
    """contract K2 on SQLite, column / key level"""
    from props import C09
    return _shared(lambda: C09.sqlite_columns(tier), 'O11', 'contract K2 (shared with C09-O2): the SQLite rollback writes back every snapshotted column and re-keys nothing (OpenMLS rows keep their MlsCodec keys), so the pending proposals / secrets the winning commit needs are there after the rollback')


def o12(tier):
    """snapshot bookkeeping across restarts: the manager used by the race resolution equals its reference model, hydration included"""
    from props import C20
    return _shared(lambda: C20.o1(tier), 'O12', 'shared with C20-O1: the snapshot manager (queue, storage, hydration after a restart) equals the reference model after every step, so the snapshot the MIP-03 comparison looks at is the one of the applied commit, not a timestamp-less duplicate')


def o13(tier):
    """the configured retention depth is the one in force"""
    from props import C20
    return _shared(lambda: C20.o3(tier), 'O13', 'shared with C20-O3: the snapshot manager is built with the configured epoch_snapshot_retention, so forks up to that depth keep their snapshots')


def o14(tier):
    """the rollback invalidation on SQLite does not touch records of the target epoch itself (e.g. the member's own pending commit, recorded under the pre-commit epoch)"""
    from props import C10
    return _shared(lambda: C10.o3(tier), 'O14', 'shared with C10-O3: on SQLite the rollback to epoch e invalidates exactly the records with epoch > e, so a competing committer\'s own commit (recorded under e) can still be applied after the rollback')


def run(tier, seed, only=None):
    obs = [('O1', o1), ('O2', o2), ('O4', o4), ('O5', o5), ('O6', o6), ('O7', o7), ('O8', o8), ('O9', o9), ('O10', o10), ('O11', o11), ('O12', o12), ('O13', o13), ('O14', o14)]
    out = []
    for k, f in obs:
        if only and k not in only:
            continue
        try:
            out.append(f(tier))
        except Exception as e:                      # an engine that cannot read the tree is an inconclusive obligation, not a crash of the whole check
            from vlib.common import Result
            rr = Result(k, 'sqlsym' if type(e).__name__ == 'SqlError' else 'mirsym', f.__doc__ or f.__name__)
            rr.broken(f'{type(e).__name__}: {e}')
            out.append(rr)
    return out
