"""C02 — application messages on the winning branch arrive exactly once, intact and valid (kernel level)."""
import z3

from mirsym.api import (Ob, guard, ev_is, is_write, vname, ret_shape, derived_from, uid_of, Opaque, Agg, Ref)
from mirsym import contracts as C
from mirsym import models as M
from props.C05 import first, all_ev, res_ok

EXPLANATION = ('Symbolic execution (z3) of the MIR of the past-epoch decryption window, the application-message store path and the own-echo '
               'state machine: for all 64-bit epochs and look-back values up to the stated bound the epochs tried are exactly cur-1 .. max(0,cur-lookback) in '
               'order; the stored Message carries the decoded rumor fields unchanged; own-echo transitions are the documented ones.')
TRUSTED = ['rustc nightly MIR dump', 'mirsym interpreter + std models (RangeInclusive/Rev, Option/Result)', 'z3']
CORE = 'mdk-core'


@guard
def o1(tier):
    """try_decrypt_with_past_epochs window arithmetic"""
    L = 5 if tier == "quick" else 8
    ob = Ob('O1', f'try_decrypt_with_past_epochs: epochs tried are exactly cur-1, cur-2, ..., max(0, cur-lookback), in that order (lookback <= {L}, all u64 current epochs)',
            pure=C.PURE_MLS, loop_bound=L + 3)
    f = ob.fn(CORE, 'decryption::try_decrypt_with_past_epochs')
    look = z3.BitVec('lookback', 64)
    from mirsym.engine import State
    st = State()
    st.pc.append(z3.ULE(look, L))
    args = [Opaque('self', '&MDK<Storage>'), Opaque('mls_group', '&openmls::group::MlsGroup'), Opaque('content', '&str'), look]
    paths = ob.explore(f, args, st)
    ob.r.bounds = {'max_epoch_lookback': f'0..{L} (symbolic)', 'current epoch': 'all u64', 'loop unrolling': L + 3}
    n_ok = 0; maxlen = 0
    for p in paths:
        if p.kind == 'panic':
            ob.require(False, 'O1/panic', f'window arithmetic can panic: {p.msg}', p); continue
        sh = ret_shape(p.ret)
        ce = [e for e in p.trace if ev_is(e, 'GroupEpoch::as_u64')]
        ge = [e for e in p.trace if ev_is(e, '<GroupId as Into>::into')]
        if not ob.require(len(ce) == 1 and len(ge) == 1, 'O1/shape', 'current epoch / group id not read exactly once', p):
            continue
        cur = ce[0].ret
        gets = [e for e in p.trace if ev_is(e, 'get_group_exporter_secret')]
        decs = [e for e in p.trace if ev_is(e, 'decrypt_with_exporter_secret')]
        maxlen = max(maxlen, len(gets))
        # the epochs asked for
        claims = []
        for k, e in enumerate(gets):
            ep = e.args[2]
            claims.append((ep == cur - (k + 1), 'O1/epoch-sequence', f'{k+1}-th epoch tried is not current-{k+1}'))
            claims.append((z3.And(z3.ULT(ep, cur), z3.ULE(z3.BitVecVal(k + 1, 64), look), z3.UGE(cur, k + 1)), 'O1/epoch-in-window',
                           'an epoch outside [cur-lookback, cur-1] (or >= current) is tried'))
            ob.require(derived_from(ob.eng, p.st, e.args[1], ge[0]) and 'mls_group' in uid_of(ob.eng, p.st, ge[0].ret), 'O1/group-id', 'secret looked up for another group', p)
        ob.prove_all(p, claims)
        zero = ob.eng.prove(p, z3.Or(cur == 0, look == 0))[0]
        if zero:
            ob.require(sh[0] == 'Err' and not gets, 'O1/zero-guard', 'epoch 0 / lookback 0 not refused without lookups', p)
        last_ok = decs and ob.eng.prove(p, decs[-1].ret.discriminant() == 0)[0]
        if sh[0] == 'Ok':
            n_ok += 1
            ob.require(bool(last_ok) and derived_from(ob.eng, p.st, p.ret.fields[0], decs[-1]), 'O1/ok-source', 'Ok result is not the bytes of the successful decryption', p)
            # earlier attempts all failed or had no secret
            for e in decs[:-1]:
                ob.require(ob.eng.prove(p, e.ret.discriminant() == 1)[0], 'O1/not-first-success', 'continued after a successful decryption', p)
        else:
            errs = [e for e in gets if ob.eng.prove(p, e.ret.discriminant() == 1)[0]]
            if errs:
                ob.require(errs[-1] is gets[-1], 'O1/storage-error-not-aborting', 'storage error did not abort the search', p)
            elif not zero:
                # exhausted: number of epochs tried must be min(cur, lookback)
                n = len(gets)
                ob.prove(p, z3.Or(z3.And(cur == n, z3.UGE(look, n)), z3.And(look == n, z3.UGE(cur, n))), 'O1/window-size',
                         f'gave up after {n} epochs although min(current, lookback) differs')
                ob.require(not last_ok, 'O1/exhausted-after-success', 'reports failure after a successful decryption', p)
        # each secret found is tried exactly once, with the content given
        somes = [e for e in gets if ob.eng.prove(p, z3.And(e.ret.discriminant() == 0, e.ret.child('Ok', 0, 'Option<GroupExporterSecret>').discriminant() == 1))[0]]
        ob.require(len(decs) == len(somes), 'O1/secret-not-tried', f'{len(somes)} secrets found, {len(decs)} decryption attempts', p)
    ob.require(n_ok >= L and maxlen == L, 'O1/vacuity', f'ok paths {n_ok}, longest window {maxlen}')
    ob.r.vacuity.append(f'{len(paths)} paths, {n_ok} successful decryptions, windows up to {maxlen} epochs')
    ob.sample({'function': 'try_decrypt_with_past_epochs', 'epochs_tried_on_longest_path': [str(z3.simplify(e.args[2])) for e in max((p for p in paths if p.kind == "return"), key=lambda q: len(q.trace)).trace if ev_is(e, 'get_group_exporter_secret')]})
    # the constant passed by the caller is inside the explored bound
    ob.new_engine(pure=C.PURE_MLS)
    f2 = ob.fn(CORE, 'decryption::try_decrypt_with_recent_epochs')
    paths2 = ob.explore(f2, [Opaque('self', '&MDK<Storage>'), Opaque('mls_group', '&openmls::group::MlsGroup'), Opaque('content', '&str')])
    seen = 0
    for p in paths2:
        for e in p.trace:
            if ev_is(e, 'try_decrypt_with_past_epochs'):
                seen += 1
                v = z3.simplify(e.args[3])
                ob.require(z3.is_bv_value(v) and v.as_long() <= L, 'O1/lookback-constant', f'DEFAULT_EPOCH_LOOKBACK {v} exceeds the explored bound {L}', p)
                first_dec = [x for x in p.trace if ev_is(x, 'decrypt_with_exporter_secret')]
                ob.require(bool(first_dec) and ob.eng.prove(p, first_dec[0].ret.discriminant() == 1)[0], 'O1/fallback-without-failure', 'past epochs tried although the current epoch decrypted', p)
        if vname(p.ret) == 'Ok' and not [e for e in p.trace if ev_is(e, 'try_decrypt_with_past_epochs')]:
            d = [x for x in p.trace if ev_is(x, 'decrypt_with_exporter_secret')]
            ob.require(bool(d) and derived_from(ob.eng, p.st, p.ret.fields[0], d[0]), 'O1/current-epoch-source', 'Ok without decrypting', p)
    ob.require(seen >= 1, 'O1/vacuity2', 'fallback path not found')
    return ob.done(cases=len(paths) + len(paths2))


def app_args():
    return [Opaque('self', '&MDK<Storage>'), Opaque('group', 'mdk_storage_traits::groups::types::Group'), z3.BitVec('mls_epoch', 64),
            Opaque('event', '&nostr::Event'), Opaque('app_msg', 'openmls::prelude::ApplicationMessage'), Opaque('cred', 'openmls::credentials::Credential')]


MSG_FIELDS = ['id', 'pubkey', 'kind', 'mls_group_id', 'created_at', 'processed_at', 'content', 'tags', 'event', 'wrapper_event_id', 'epoch', 'state']


def msg_field(m, name):
    names = m.names or MSG_FIELDS
    return m.fields[names.index(name)]


@guard
def o2(tier):
    """process_application_message stores exactly the decoded rumor"""
    ob = Ob('O2', 'process_application_message: the stored Message carries the decoded rumor\'s pubkey/kind/created_at/content/tags/event unchanged, wrapper id, '
                  'state Processed, epoch = the epoch handed in by the dispatcher (C04-O3: the message\'s own epoch); author verified first; message saved before its processed-record; group saved iff the pointer moved',
            pure=C.PURE_MLS, models=C.unsigned_event_models())
    f = ob.fn(CORE, 'application::process_application_message')
    paths = ob.explore(f, app_args())
    ob.r.assumptions += C.NOSTR_CONTRACT
    n_ok = 0
    for p in paths:
        if p.kind == 'panic':
            ob.require(False, 'O2/panic', f'can panic: {p.msg}', p); continue
        sh = ret_shape(p.ret)
        fj = [e for e in p.trace if ev_is(e, 'from_json')]
        va = [(i, e) for i, e in enumerate(p.trace) if ev_is(e, 'verify_rumor_author')]
        sm = [(i, e) for i, e in enumerate(p.trace) if ev_is(e, 'save_message_record')]
        sp = [(i, e) for i, e in enumerate(p.trace) if ev_is(e, 'save_processed_message_record')]
        sg = [(i, e) for i, e in enumerate(p.trace) if ev_is(e, 'save_group_record')]
        up = [(i, e) for i, e in enumerate(p.trace) if ev_is(e, 'update_last_message_if_newer')]
        writes = [(i, e) for i, e in enumerate(p.trace) if is_write(e)]
        if writes:
            ob.require(bool(va) and va[0][0] < writes[0][0] and res_ok(ob, p, va[0][1]), 'O2/write-before-author-check',
                       'a record is written before (or without) a successful author verification', p)
        if va:
            e = va[0][1]
            ob.require(bool(fj) and uid_of(ob.eng, p.st, e.args[1]) == uid_of(ob.eng, p.st, fj[0].ret) + '.Ok.0.1' and uid_of(ob.eng, p.st, e.args[2]) == 'cred',
                       'O2/author-check-args', f'author verification on {uid_of(ob.eng, p.st, e.args[1])} / {uid_of(ob.eng, p.st, e.args[2])}', p)
        if sh[0] != 'Ok':
            continue
        n_ok += 1
        if not ob.require(len(sm) == 1 and len(sp) == 1 and len(up) == 1 and sm[0][0] < sp[0][0], 'O2/save-order',
                          f'saves: {[e.short for _, e in writes]}', p):
            continue
        m = sm[0][1].args[1]
        rumor = uid_of(ob.eng, p.st, fj[0].ret) + '.Ok.0'
        u = lambda v: uid_of(ob.eng, p.st, v)
        exp = {'pubkey': rumor + '.1', 'created_at': rumor + '.2', 'kind': rumor + '.3', 'tags': rumor + '.4', 'content': rumor + '.5',
               'wrapper_event_id': '*event.0', 'mls_group_id': 'group.0'}
        for k, want in exp.items():
            ob.require(u(msg_field(m, k)) == want, f'O2/field-{k}', f'stored {k} is {u(msg_field(m, k))}, expected {want}', p)
        ev = msg_field(m, 'event')
        ob.require(isinstance(ev, Opaque) and ev.uid == rumor and set(ev.over) <= {(None, 0)}, 'O2/field-event', f'stored rumor is {u(ev)} (modified fields {list(getattr(ev, "over", {}))})', p)
        ob.require(vname(msg_field(m, 'state')) == 'Processed', 'O2/field-state', 'stored state is not Processed', p)
        ep = msg_field(m, 'epoch')
        ob.require(vname(ep) == 'Some' and str(ep.fields[0]) == 'mls_epoch', 'O2/field-epoch', f'stored epoch {ep!r}', p)
        ide = [e for e in p.trace if ev_is(e, 'UnsignedEvent::id')]
        ob.require(bool(ide) and M.val_eq(ob.eng, msg_field(m, 'id'), ide[-1].ret) is not None and u(msg_field(m, 'id')) == u(ide[-1].ret), 'O2/field-id', 'stored id is not rumor.id()', p)
        # returned message == stored message
        ob.require(u(p.ret.fields[0]) == u(m) or repr(p.ret.fields[0]) == repr(m), 'O2/returned', 'returned message differs from the stored one', p)
        # processed record
        rec = [e for e in p.trace if ev_is(e, 'create_processed_message_record')]
        if ob.require(len(rec) == 1, 'O2/record', 'no processed record built', p):
            a = rec[0].args
            ob.require(u(a[0]) == '*event.0' and vname(a[1]) == 'Some' and u(a[1].fields[0]) == u(msg_field(m, 'id')) and vname(a[2]) == 'Some'
                       and str(a[2].fields[0]) == 'mls_epoch' and vname(a[4]) == 'Processed' and vname(a[5]) == 'None', 'O2/record-fields',
                       f'processed record fields {[vrepr_(x) for x in a]}', p)
            ob.require(u(sp[0][1].args[1]) == u(rec[0].ret), 'O2/record-saved', 'the record saved is not the one built', p)
        moved = up[0][1].ret
        if ob.eng.prove(p, moved)[0]:
            ob.require(len(sg) == 1 and sg[0][0] > up[0][0], 'O2/group-not-saved', 'pointer moved but group record not saved', p)
        elif ob.eng.prove(p, z3.Not(moved))[0]:
            ob.require(not sg, 'O2/group-saved-unmoved', 'group record saved although the pointer did not move', p)
    ob.require(n_ok >= 2, 'O2/vacuity', f'Ok paths {n_ok}')
    ob.r.vacuity.append(f'{len(paths)} paths, {n_ok} Ok')
    ob.r.bounds = {'paths': 'all'}
    ob.sample({'function': 'process_application_message', 'ok_path_calls': [e.short for e in [p for p in paths if vname(p.ret) == 'Ok'][0].trace]})
    return ob.done(cases=len(paths))


def vrepr_(x):
    from mirsym.values import vrepr
    return vrepr(x)[:60]


@guard
def o3(tier):
    """own-echo state machine in handle_processing_error (CannotDecryptOwnMessage arm)"""
    ob = Ob('O3', 'own echo: Created -> message and record become Processed; Retryable -> Processed only with the cached message; Processed/Failed/EpochInvalidated -> Unprocessable with no write; ProcessedCommit -> metadata sync only',
            pure=C.PURE_MLS, inline={'return_own_commit'})
    f = ob.fn(CORE, 'error_handling::handle_processing_error')
    err = Agg('enum', 'mdk_core::error::Error', 'mdk_core::error::Error::CannotDecryptOwnMessage', [])
    paths = ob.explore(f, [Opaque('self', '&MDK<Storage>'), err, Opaque('event', '&nostr::Event'), Opaque('group', '&mdk_storage_traits::groups::types::Group')])
    states = ob.prog.cat.variants('ProcessedMessageState', 'mdk_storage_traits::messages::types')
    seen = set()
    for p in paths:
        if p.kind == 'panic':
            ob.require(False, 'O3/panic', f'can panic: {p.msg}', p); continue
        sh = ret_shape(p.ret)
        fp = [e for e in p.trace if ev_is(e, 'find_processed_message_by_event_id')]
        writes = [e for e in p.trace if is_write(e)]
        wn = [e.short.split('::')[-1] for e in writes]
        if not fp:
            ob.require(False, 'O3/no-lookup', 'own echo handled without looking up the processed record', p); continue
        ob.require(uid_of(ob.eng, p.st, fp[0].args[1]) == '*event.0', 'O3/lookup-key', 'processed record looked up under another id', p)
        found = ob.eng.prove(p, z3.And(fp[0].ret.discriminant() == 0, fp[0].ret.child('Ok', 0, 'Option<ProcessedMessage>').discriminant() == 1))[0]
        if not found:
            ob.require(sh[0] == 'Err' and not writes, 'O3/missing-record', f'no record: {sh} writes {wn}', p)
            continue
        rec = fp[0].ret.child('Ok', 0, 'Option<ProcessedMessage>').child('Some', 0, 'ProcessedMessage')
        sd = rec.child(None, 5, 'ProcessedMessageState').discriminant()
        which = [s for i, s in enumerate(states) if ob.eng.prove(p, sd == i)[0]]
        if not ob.require(len(which) == 1, 'O3/state-undecided', f'path does not decide the record state: {which}', p):
            continue
        stt = which[0]
        seen.add(stt)
        if stt in ('Processed', 'Failed', 'EpochInvalidated'):
            ob.require(sh == ('Ok', 'Unprocessable') and not writes, f'O3/{stt}', f'{stt} echo: result {sh}, writes {wn}', p)
        elif stt == 'ProcessedCommit':
            ob.require(set(wn) <= {'sync_group_metadata_from_mls'} and (sh == ('Ok', 'Commit') or sh[0] == 'Err'), 'O3/ProcessedCommit', f'own commit echo: {sh} writes {wn}', p)
        elif stt in ('Created', 'Retryable'):
            if sh == ('Ok', 'ApplicationMessage'):
                ob.require(wn == ['save_message', 'save_processed_message'], f'O3/{stt}-writes', f'{stt} echo confirmed with writes {wn}', p)
                sm = [e for e in writes if ev_is(e, 'save_message')][0]
                m = sm.args[1]
                gm = [e for e in p.trace if ev_is(e, 'get_message')]
                ob.require(bool(gm) and isinstance(m, Opaque) and m.uid.startswith(uid_of(ob.eng, p.st, gm[0].ret)) and set(m.over) == {(None, 11)}
                           and vname(m.over[(None, 11)]) == 'Processed', f'O3/{stt}-message', f'message saved is not the cached one with only state=Processed ({m!r}, {getattr(m, "over", None)})', p)
                sr = [e for e in writes if ev_is(e, 'save_processed_message')][0].args[1]
                ob.require(isinstance(sr, Opaque) and sr.uid == rec.uid and vname(sr.over.get((None, 5))) == 'Processed'
                           and set(sr.over) <= {(None, 5), (None, 6), (None, 2)}, f'O3/{stt}-record', f'record saved: {sr!r} {getattr(sr, "over", None)}', p)
                ob.require(uid_of(ob.eng, p.st, gm[0].args[2]) == rec.uid + '.1.Some.0', f'O3/{stt}-lookup', 'cached message looked up under another id', p)
            else:
                ob.require(not writes or sh[0] == 'Err', f'O3/{stt}-partial', f'{stt} echo: {sh} with writes {wn}', p)
                if stt == 'Retryable' and sh == ('Ok', 'Unprocessable'):
                    ob.require(not writes, 'O3/Retryable-unprocessable-writes', f'writes {wn}', p)
    ob.require(seen == set(states), 'O3/totality', f'record states handled: {sorted(seen)} of {states}')
    ob.r.vacuity.append(f'{len(paths)} paths; every ProcessedMessageState variant reached: {sorted(seen)}')
    ob.r.bounds = {'paths': 'all', 'record state': 'all 6 variants (symbolic discriminant)'}
    return ob.done(cases=len(paths))


def o4(tier):
    from props import memobs
    return memobs.invalidation(tier, 'O4', 'O4')


def _shared(fn, oid, title):
    r = fn()
    r.oid = oid
    r.title = title + ' -- ' + r.title[:200]
    return r


def o5(tier):
    from props import C01
    return _shared(lambda: C01.o7(tier), 'O5', 'shared with C01-O7: the echo of an own APPLICATION message is never taken for the pending own commit (it is confirmed as a message)')


def o6(tier):
    from props import C10
    return _shared(lambda: C10.o4(tier), 'O6', 'shared with C10-O4: on SQLite re-saving a message (the own-copy confirmation) writes every column from its own field')


def o9(tier):
    from props import C09
    return _shared(lambda: C09.sqlite_columns(tier), 'O9', 'shared with C09-O2: on SQLite the snapshot carries the exporter secrets of ALL epochs of the group, so a message of an earlier epoch that arrives after a rollback is still decryptable')


def o8(tier):
    from props import C04
    return _shared(lambda: C04.o3(tier), 'O8', 'shared with C04-O3: a received message is recorded under the epoch it was created in, so a rollback invalidates exactly the messages of the abandoned epochs (a late message from before the fork stays valid)')


def o7(tier):
    from props import C10
    return _shared(lambda: C10.o8(tier), 'O7', 'shared with C10-O8: on SQLite a saved message is read back with the timestamp / kind / epoch it was saved with')


@guard
def o10(tier):
    """the configured reordering windows reach OpenMLS unswapped, on the creator's side and on the joiner's side"""
    ob = Ob('O10', 'create_group and the welcome path build the OpenMLS group with SenderRatchetConfiguration::new(config.out_of_order_tolerance, config.maximum_forward_distance) '
                   '(in that order: it is OpenMLS\' parameter order) and max_past_epochs(config.max_past_epochs): the tolerated reordering is the configured one for every member',
            pure=C.PURE_MLS, loop_bound=4, max_paths=40000)
    ob.eng.model_maps = False
    cfg = ob.prog.cat.fields('MdkConfig', 'mdk_core')
    mdk = ob.prog.cat.fields('MDK', 'mdk_core')
    want = {k: f'*self.{mdk.index("config")}.{cfg.index(k)}' for k in ('out_of_order_tolerance', 'maximum_forward_distance', 'max_past_epochs')}
    total = hits = 0
    for spec, args in (('welcomes::parse_serialized_welcome', [Opaque('self', '&MDK<Storage>'), Opaque('bytes', '&[u8]')]),
                       ('groups::create_group', [Opaque('self', '&MDK<Storage>'), Opaque('creator', '&nostr::key::PublicKey'), Opaque('kps', 'Vec<nostr::Event>'), Opaque('cfg', 'NostrGroupConfigData')])):
        f = ob.fn(CORE, spec)
        seen = False
        for p in ob.explore(f, args):
            total += 1
            u = lambda v: uid_of(ob.eng, p.st, v)
            for e in p.trace:
                if ev_is(e, 'SenderRatchetConfiguration::new'):
                    seen = True
                    hits += 1
                    ob.require(u(e.args[0]) == want['out_of_order_tolerance'] and u(e.args[1]) == want['maximum_forward_distance'], f'O10/{f.short}/ratchet-window-arguments',
                               f'{f.short}: SenderRatchetConfiguration::new(out_of_order_tolerance, maximum_forward_distance) receives ({u(e.args[0])}, {u(e.args[1])}), expected '
                               f'({want["out_of_order_tolerance"]}, {want["maximum_forward_distance"]}): the out-of-order and forward-distance windows are not the configured ones', p)
                if ev_is(e, 'max_past_epochs') and len(e.args) >= 2:
                    ob.require(u(e.args[1]) == want['max_past_epochs'], f'O10/{f.short}/max-past-epochs', f'{f.short}: max_past_epochs receives {u(e.args[1])}', p)
        ob.require(seen, f'O10/{f.short}/no-ratchet-configuration', f'{f.short} builds the group without a sender-ratchet configuration (OpenMLS defaults apply instead of MdkConfig)')
    ob.require(hits >= 2, 'O10/vacuity', f'configuration sites seen: {hits}')
    ob.r.bounds = {'paths': 'all', 'loops over key packages': 'unrolled to the engine bound'}
    ob.r.assumptions.append('OpenMLS 0.8: SenderRatchetConfiguration::new(out_of_order_tolerance, maximum_forward_distance) (parameter order read from the vendored source)')
    return ob.done(cases=total)


@guard
def o12(tier):
    """the acceptance window of validate_created_at is the documented closed interval"""
    ob = Ob('O12', 'validate_created_at(event) == Ok  <=>  now - max_event_age_secs <= created_at <= now + max_future_skew_secs (both ends inclusive, saturating arithmetic), for every '
                   'clock value, event timestamp and configuration (64-bit): an event stamped exactly at the edge of the window is delivered, not failed for good', pure=C.PURE_MLS)
    f = ob.fn(CORE, 'validation::validate_created_at')
    paths = ob.explore(f, [Opaque('self', '&MDK<Storage>'), Opaque('event', '&nostr::Event')])
    mdk = ob.prog.cat.fields('MDK', 'mdk_core')
    cfg = ob.prog.cat.fields('MdkConfig', 'mdk_core')
    ev = ob.prog.cat.fields('Event', 'nostr')
    ci = mdk.index('config')
    t = z3.BitVec(f'Timestamp::as_secs(*event.{ev.index("created_at")})', 64)
    n = z3.BitVec('Timestamp::as_secs(Timestamp::now)', 64)
    k = z3.BitVec(f'*self.{ci}.{cfg.index("max_future_skew_secs")}', 64)
    a = z3.BitVec(f'*self.{ci}.{cfg.index("max_event_age_secs")}', 64)
    hi = z3.If(z3.ULT(n + k, n), z3.BitVecVal(2 ** 64 - 1, 64), n + k)
    lo = z3.If(z3.ULT(n, a), z3.BitVecVal(0, 64), n - a)
    spec = z3.And(z3.ULE(t, hi), z3.UGE(t, lo))
    n_ok = n_err = 0
    used = set()
    for p in paths:
        if p.kind == 'panic':
            ob.require(False, 'O12/panic', p.msg, p); continue
        ok = vname(p.ret) == 'Ok'
        n_ok += ok; n_err += (not ok)
        for c in p.pc:
            used |= {str(d) for d in z3util_vars(c)}
        ob.prove(p, spec if ok else z3.Not(spec), 'O12/window-ok' if ok else 'O12/window-err',
                 ('an event outside the documented window is accepted' if ok else 'an event inside the documented window [now - max_event_age_secs, now + max_future_skew_secs] is refused '
                  '(it gets a permanent Failed record and is never stored, however often it is offered again)'))
    ob.require(n_ok >= 1 and n_err >= 2, 'O12/vacuity', f'Ok paths {n_ok}, Err paths {n_err}')
    ob.require({str(t), str(n), str(k), str(a)} <= used, 'O12/vacuity-names', f'the path conditions do not mention all of {[str(t), str(n), str(k), str(a)]}: {sorted(used)[:8]}')
    ob.r.bounds = {'clock / timestamp / skew / age': 'all u64', 'paths': 'all'}
    ob.r.assumptions.append('Timestamp::now() is an arbitrary u64 (environment)')
    return ob.done(cases=len(paths))


def z3util_vars(e):
    seen, out, todo = set(), [], [e]
    while todo:
        x = todo.pop()
        if x.get_id() in seen:
            continue
        seen.add(x.get_id())
        if z3.is_const(x) and x.decl().kind() == z3.Z3_OP_UNINTERPRETED:
            out.append(x)
        todo.extend(x.children())
    return out


def o11(tier):
    from props import C10
    r = C10.o3(tier)
    r.oid = 'O11'
    r.title = 'SQLite (shared with C10-O3): the rollback invalidation UPDATE flags exactly the rows its SELECT reports -- group g, epoch > e, whatever their state (an own, not yet confirmed message of the losing branch included)'
    return r


def run(tier, seed, only=None):
    obs = [('O1', o1), ('O2', o2), ('O3', o3), ('O4', o4), ('O5', o5), ('O6', o6), ('O7', o7), ('O8', o8), ('O9', o9), ('O10', o10), ('O11', o11), ('O12', o12)]
    out = []
    for k, f in obs:
        if only and k not in only:
            continue
        try:
            out.append(f(tier))
        except Exception as e:                      # an engine that cannot read the tree is an inconclusive obligation, not a crash of the whole check
            from vlib.common import Result
            rr = Result(k, 'sqlsym' if type(e).__name__ == 'SqlError' else 'mirsym', f.__doc__ or f.__name__)
            rr.broken(f'{type(e).__name__}: {e}')
            out.append(rr)
    return out
