"""C15 — wire formats round-trip and parsers accept nothing ambiguous."""
import z3

from mirsym.api import Ob, guard, StatePath, ev_is, is_write, vname, ret_shape, uid_of, derived_from, Opaque, Agg, Ref
from mirsym.engine import State
from mirsym.values import Tok, SeqV, MapV, StrV, FnItem
from mirsym import models as M
from mirsym import codecmodel as CM
from mirsym import contracts as C
from vlib import kani

EXPLANATION = ('Engine E3: the MIR of NostrGroupDataExtension::{as_raw, from_raw, deserialize_bytes}, of the key-package tag validation and of the welcome-rumor '
               'validation is executed symbolically with library contracts for byte/string conversions (mirsym/codecmodel.py): from_raw(as_raw(x)) == x for every '
               'presence pattern of the optional fields, admin/relay sets of bounded size and every version; from_raw accepts an image field only with length 0 or its '
               'fixed length (symbolic u64 lengths), refuses version 0, and trailing bytes are refused. Engine E1 (thorough tier): the same round trip on the compiled code under Kani.')
TRUSTED = ['rustc nightly MIR dump', 'mirsym interpreter + container models', 'library contracts of mirsym/codecmodel.py (to_vec/try_into/from_utf8/PublicKey/RelayUrl inverses)', 'z3', 'Kani/CBMC (thorough tier)']
CORE = 'mdk-core'
EXT = ['version', 'nostr_group_id', 'name', 'description', 'admins', 'relays', 'image_hash', 'image_key', 'image_nonce', 'image_upload_key']
RAW = ['version', 'nostr_group_id', 'name', 'description', 'admin_pubkeys', 'relays', 'image_hash', 'image_key', 'image_nonce', 'image_upload_key']


def opt_arr(tag, n):
    return Opaque(tag, f'std::option::Option<[u8; {n}]>')


@guard
def o1(tier):
    """extension: from_raw(as_raw(x)) == x"""
    NA = 2 if tier == 'quick' else 3
    ob = Ob('O1', f'NostrGroupDataExtension: from_raw(as_raw(x)) == Ok(x) for every version >= 1, every presence pattern of the four optional image fields, 0..{NA} admins, 0..2 relays, any name/description',
            models=CM.codec_models(), loop_bound=8, inline={'as_raw', 'from_raw'})
    f_as = ob.fn(CORE, 'extension::types::NostrGroupDataExtension::as_raw')
    f_from = ob.fn(CORE, 'extension::types::NostrGroupDataExtension::from_raw')
    total = n_ok = 0
    for na in range(NA + 1):
        for nr in range(3):
            st = State()
            version = z3.BitVec('version', 16)
            st.pc.append(version != 0)
            admins = MapV([[Opaque(f'admin{i}', 'nostr::key::PublicKey'), M.UNIT()] for i in range(na)], 'BTreeSet', True)
            relays = MapV([[Opaque(f'relay{i}', 'nostr::types::RelayUrl'), M.UNIT()] for i in range(nr)], 'BTreeSet', True)
            for i in range(na):
                for j in range(i + 1, na):
                    st.pc.append(z3.Not(M.val_eq(ob.eng, admins.entries[i][0], admins.entries[j][0])))
            for i in range(nr):
                for j in range(i + 1, nr):
                    st.pc.append(z3.Not(M.val_eq(ob.eng, relays.entries[i][0], relays.entries[j][0])))
            x = Agg('struct', 'mdk_core::extension::types::NostrGroupDataExtension', None,
                    [version, Opaque('gid', '[u8; 32]'), StrV(sym='name'), StrV(sym='description'), admins, relays,
                     opt_arr('image_hash', 32), opt_arr('image_key', 32), opt_arr('image_nonce', 12), opt_arr('image_upload_key', 32)], list(EXT))
            xr = Ref(st.temp(x), ())
            for p1 in ob.explore(f_as, [xr], st):
                if p1.kind != 'return':
                    ob.require(False, 'O1/as_raw-panic', f'as_raw: {p1.kind} {p1.msg}', p1); continue
                for p2 in ob.explore(f_from, [p1.ret], p1.st):
                    total += 1
                    if p2.kind == 'panic':
                        ob.require(False, 'O1/from_raw-panic', p2.msg, p2); continue
                    if not ob.require(vname(p2.ret) == 'Ok', 'O1/roundtrip-refused', f'from_raw(as_raw(x)) is {ret_shape(p2.ret)} for a valid extension value', p2):
                        continue
                    n_ok += 1
                    y = p2.ret.fields[0]
                    x0 = ob.eng.read(p2.st, xr.loc, xr.path)
                    for k, nm in enumerate(EXT):
                        a, b = x0.fields[k], y.fields[k]
                        if nm in ('admins', 'relays'):
                            same = isinstance(b, MapV) and len(a.entries) == len(b.entries) and all(any(z3.is_true(z3.simplify(M.val_eq(ob.eng, ka, kb))) for kb, _ in b.entries) for ka, _ in a.entries)
                            ob.require(same, f'O1/field-{nm}', f'{nm} after the round trip: {b!r} vs {a!r}', p2)
                        else:
                            e = M.val_eq(ob.eng, a, b)
                            ob.prove(p2, e, f'O1/field-{nm}', f'field {nm} does not survive as_raw -> from_raw (e.g. dropped or replaced for some version / presence pattern)')
    ob.require(n_ok >= 16, 'O1/vacuity', f'round trips {n_ok}')
    ob.r.bounds = {'admins': f'0..{NA}', 'relays': '0..2', 'version': 'all u16 >= 1', 'optional fields': 'all 16 presence patterns, arbitrary content'}
    ob.r.assumptions += CM.CONTRACTS
    ob.r.vacuity.append(f'{total} (as_raw path, from_raw path) pairs, {n_ok} successful round trips')
    return ob.done(cases=total)


@guard
def o2(tier):
    """from_raw / deserialize_bytes strictness"""
    ob = Ob('O2', 'from_raw accepts version != 0 only, and an image field only when its length is 0 or exactly 32 / 12 bytes (symbolic u64 lengths); deserialize_bytes refuses any trailing byte',
            models=CM.codec_models(), loop_bound=6)
    f_from = ob.fn(CORE, 'extension::types::NostrGroupDataExtension::from_raw')
    st = State()
    version = z3.BitVec('version', 16)
    flds = {'image_hash': 32, 'image_key': 32, 'image_nonce': 12, 'image_upload_key': 32}
    raw = Agg('struct', 'mdk_core::extension::types::TlsNostrGroupDataExtension', None,
              [version, Opaque('gid', '[u8; 32]'), Opaque('name', 'Vec<u8>'), Opaque('description', 'Vec<u8>'), SeqV([], 'Vec'), SeqV([], 'Vec')] +
              [Opaque(n, 'Vec<u8>') for n in flds], list(RAW))
    paths = ob.explore(f_from, [raw], st)
    n_ok = 0
    for p in paths:
        if p.kind == 'panic':
            ob.require(False, 'O2/from_raw-panic', p.msg, p); continue
        ok = vname(p.ret) == 'Ok'
        lens = {n: z3.BitVec(n + '#len', 64) for n in flds}
        good = z3.And(version != 0, *[z3.Or(lens[n] == 0, lens[n] == k) for n, k in flds.items()])
        if ok:
            n_ok += 1
            ob.prove(p, good, 'O2/lenient', 'from_raw accepts version 0 or an image field whose length is neither 0 nor the fixed length')
            y = p.ret.fields[0]
            for k, (n, _) in enumerate(flds.items()):
                v = y.fields[6 + k]
                none = ob.eng.prove(p, lens[n] == 0)[0]
                ob.require((vname(v) == 'None') == none, f'O2/presence-{n}', f'{n}: length-0 <-> None mapping broken', p)
        else:
            utf8 = [e for e in p.trace if ev_is(e, 'from_utf8')]
            if not any(ob.eng.prove(p, e.ret.discriminant() == 1)[0] for e in utf8):
                ob.prove(p, z3.Not(good), 'O2/strict-reject', 'from_raw refuses a well-formed raw extension')
    ob.require(n_ok >= 16, 'O2/vacuity', f'accepting paths {n_ok}')
    # trailing bytes
    ob.new_engine(models=CM.codec_models())
    f_de = ob.fn(CORE, 'extension::types::NostrGroupDataExtension::deserialize_bytes')
    paths2 = ob.explore(f_de, [Opaque('bytes', '&[u8]')])
    seen = 0
    for p in paths2:
        if p.kind == 'panic':
            ob.require(False, 'O2/deserialize-panic', p.msg, p); continue
        de = [e for e in p.trace if ev_is(e, 'tls_deserialize_bytes')]
        fr = [e for e in p.trace if ev_is(e, 'from_raw')]
        if fr:
            seen += 1
            rem = z3.BitVec(uid_of(ob.eng, p.st, de[0].ret) + '.Ok.0.1#len', 64) if de else None
            ob.require(bool(de) and ob.eng.prove(p, de[0].ret.discriminant() == 0)[0], 'O2/parse-order', 'from_raw reached without a successful TLS parse', p)
            lens = [c for c in p.pc if '#len' in str(c)]
            ob.require(any(str(c).replace('\n', ' ').endswith('#len == 0') for c in lens), 'O2/trailing-bytes', 'deserialize_bytes proceeds without checking that no bytes remain after the TLS value', p)
            ob.require(derived_from(ob.eng, p.st, fr[0].args[0], de[0]), 'O2/parsed-value', 'from_raw is applied to something else than the parsed value', p)
    ob.require(seen >= 1, 'O2/vacuity2', 'no path reaches from_raw')
    ob.r.bounds = {'field lengths': 'all u64', 'version': 'all u16'}
    ob.r.assumptions += CM.CONTRACTS
    ob.r.vacuity.append(f'{len(paths)} from_raw paths ({n_ok} accepting), {len(paths2)} deserialize_bytes paths')
    return ob.done(cases=len(paths) + len(paths2))


@guard
def o3(tier):
    """key-package tag validation binds the i tag to the package"""
    ob = Ob('O3', 'validate_key_package_tags: all five tag validators must succeed; with a parsed key package the decoded i tag must EQUAL the computed KeyPackageRef; parse_key_package checks credential identity == event author',
            pure=C.PURE_MLS, loop_bound=6)
    f = ob.fn(CORE, 'key_packages::validate_key_package_tags')
    paths = ob.explore(f, [Opaque('self', '&MDK<Storage>'), Opaque('event', '&nostr::Event'), M.SOME(Opaque('kp', '&openmls::prelude::KeyPackage'))])
    n_ok = 0
    vals = ['validate_protocol_version_tag', 'validate_ciphersuite_tag', 'validate_extensions_tag', 'validate_relays_tag', 'validate_key_package_ref_tag']
    for p in paths:
        if p.kind == 'panic':
            ob.require(False, 'O3/panic', p.msg, p); continue
        if vname(p.ret) != 'Ok':
            continue
        n_ok += 1
        for v in vals:
            e = [x for x in p.trace if ev_is(x, v)]
            ob.require(len(e) == 1 and ob.eng.prove(p, e[0].ret.discriminant() == 0)[0], f'O3/{v}', f'accepted without a successful {v}', p)
        hr = [x for x in p.trace if ev_is(x, 'hash_ref')]
        dec = [x for x in p.trace if ev_is(x, 'decode')]
        sl = [x for x in p.trace if ev_is(x, 'as_slice') and 'HashReference' in x.fn or ev_is(x, 'HashReference::as_slice')]
        if not ob.require(bool(hr) and bool(dec), 'O3/ref-not-computed', 'accepted without computing the KeyPackageRef and decoding the i tag', p):
            continue
        eqs = [c for c in p.pc if str(c).startswith('eq(') and 'decode' in str(c)]
        ob.require(len(eqs) >= 1, 'O3/i-tag-not-compared', 'accepted although the decoded i tag was not compared for equality with the computed KeyPackageRef (e.g. prefix / partial comparison)', p)
        ob.require(uid_of(ob.eng, p.st, hr[0].args[0]) in ('kp', '*kp'), 'O3/ref-of-other-package', 'KeyPackageRef computed for another package', p)
    ob.require(n_ok >= 1, 'O3/vacuity', 'no accepting path')
    ob.r.bounds = {'paths': 'all', 'tags': 'symbolic (found/not found per required kind)'}
    ob.r.vacuity.append(f'{len(paths)} paths, {n_ok} accepting')
    return ob.done(cases=len(paths))


def o4(tier):
    """thorough tier: the round trip on the compiled code (Kani)"""
    return kani.obligation('O4', 'Kani: from_raw(as_raw(x)) == x on the compiled code for all versions, ids and the 16 presence patterns (empty strings, no admins/relays)',
                           ['c15_o1_ext_roundtrip_optionals'], ['mdk_core::extension::types::NostrGroupDataExtension::{as_raw, from_raw}'],
                           {'unwind': 4, 'memcmp unwind': 34, 'name/description': 'empty', 'admins/relays': 'none'}, jobs=2, timeout=1500,
                           cbmc_args=['--unwindset', 'memcmp.0:34'])


@guard
def o5(tier):
    """welcome rumor validation is strict: every encoding tag must say base64, the required tags must be present"""
    old = M.SEQ_BOUND[0]
    M.SEQ_BOUND[0] = 3
    try:
        ob = Ob('O5', 'validate_welcome_event accepts a rumor only if it is kind 444 with >= 3 tags, EVERY encoding tag has the value "base64" (no second, conflicting encoding tag), at least one '
                      'encoding tag exists, some e tag is non-empty and some relays tag lists a relay (tag lists of exactly 3 tags, arbitrary kinds and values)',
                models=CM.codec_models(), loop_bound=12, pure=C.PURE_MLS | {'Tag::kind', 'Tag::content', 'Tag::as_slice', 'TagKind::e'}, max_paths=200000)
        ob.eng.model_maps = False
        f = ob.fn(CORE, 'welcomes::validate_welcome_event')
        paths = ob.explore(f, [Opaque('arg0', '&nostr::UnsignedEvent')])
    finally:
        M.SEQ_BOUND[0] = old
    tk = ob.prog.cat.discr_values('TagKind', 'nostr::event::tag::kind')
    n_ok = 0
    for p in paths:
        if p.kind == 'panic':
            ob.require(False, 'O5/panic', p.msg, p); continue
        if p.kind != 'return' or vname(p.ret) != 'Ok':
            continue
        n_ok += 1
        kinds = {}
        for e in p.trace:
            if ev_is(e, 'Tag::kind'):
                kinds[uid_of(ob.eng, p.st, e.args[0])] = e.ret
        tags = sorted(kinds)
        ob.require(len(tags) >= 3, 'O5/fewer-than-three-tags', f'accepted with {len(tags)} tag(s) inspected', p)

        def content(t):
            return Opaque(f'Tag::content({t})', 'std::option::Option<&str>')

        def is_enc(t):
            k = kinds[t]
            return z3.And(k.discriminant() == tk['Custom'], M.val_eq(ob.eng, k.child('Custom', 0, 'std::borrow::Cow<str>'), StrV(text='encoding')))

        def says(t, txt):
            c = content(t)
            return z3.And(c.discriminant() == 1, M.val_eq(ob.eng, c.child('Some', 0, '&str'), StrV(text=txt)))
        claims = []
        for t in tags:
            claims.append((z3.Implies(is_enc(t), says(t, 'base64')), 'O5/conflicting-encoding-tag-accepted',
                           'a welcome rumor is accepted although one of its encoding tags does not say base64 (a second, conflicting or valueless encoding tag slips through)'))
        claims.append((z3.Or([is_enc(t) for t in tags]), 'O5/no-encoding-tag', 'accepted without any encoding tag'))
        e_kind = Opaque('TagKind::e()', 'nostr::event::tag::kind::TagKind')
        # facts about nostr's TagKind the uninterpreted equality does not know: TagKind::e() is the SingleLetter variant, equal kinds have equal variants
        ax = [e_kind.discriminant() == tk['SingleLetter']] + [z3.Implies(M.val_eq(ob.eng, kinds[t], e_kind), kinds[t].discriminant() == e_kind.discriminant()) for t in tags]
        claims = [(z3.Implies(z3.And(ax), c), k, w) for c, k, w in claims]
        claims.append((z3.Or([z3.And(M.val_eq(ob.eng, kinds[t], e_kind), content(t).discriminant() == 1, z3.Not(says(t, ''))) for t in tags]), 'O5/no-event-reference', 'accepted without a non-empty e tag'))
        claims.append((z3.Or([kinds[t].discriminant() == tk['Relays'] for t in tags]), 'O5/no-relays-tag', 'accepted without a relays tag'))
        claims = [(c if i < len(tags) + 1 else z3.Implies(z3.And(ax), c), k, w) for i, (c, k, w) in enumerate(claims)]
        ob.prove_all(p, claims)
    ob.require(n_ok >= 6, 'O5/vacuity', f'accepting paths: {n_ok}')
    ob.r.bounds = {'tags': 'exactly 3 (fewer are refused by the length check; the loop body is the same for more)', 'tag kinds / values': 'symbolic'}
    ob.r.assumptions += ['Tag::kind / Tag::content / Tag::as_slice are pure accessors of the tag', 'nostr: TagKind::e() is the SingleLetter variant; equal TagKinds have equal variants']
    return ob.done(cases=len(paths))


def o6(tier):
    """strictness does not depend on what the store already holds: the rumor is validated before the dedup lookup"""
    from props import C16
    r = C16.o1(tier)
    r.oid = 'O6'
    r.title = 'process_welcome (shared with C16-O1): validate_welcome_event is the first thing that happens, so a malformed rumor is refused also under an already known wrapper id'
    return r

def o7(tier):
    """media tags round-trip: what the sender may publish, the receiver parses back verbatim"""
    from props import C17
    r = C17.o4(tier)
    r.oid = 'O7'
    r.title = 'parse_imeta_tag (shared with C17-O4): the receiver applies the same validators as the sender and nothing more, and takes the values verbatim -- a tag produced by create_imeta_tag parses back to the same reference'
    return r

@guard
def o8(tier):
    """every parse path is strict: key-package events need an explicit encoding tag; the group-data extension is only ever parsed through deserialize_bytes"""
    import re
    ob = Ob('O8', 'parse_key_package returns a key package only when ContentEncoding::from_tags found an explicit (base64) encoding tag; every mdk-core function that turns bytes into a '
                  'NostrGroupDataExtension does so through deserialize_bytes, the one place that refuses trailing bytes (call graph from the MIR: from_raw / tls_deserialize_bytes have no other caller)',
            pure=C.PURE_MLS)
    f = ob.fn(CORE, 'key_packages::parse_key_package')
    paths = ob.explore(f, [Opaque('self', '&MDK<Storage>'), Opaque('event', '&nostr::Event')])
    n_ok = 0
    for p in paths:
        if p.kind == 'panic':
            ob.require(False, 'O8/panic', p.msg, p); continue
        if vname(p.ret) != 'Ok':
            continue
        n_ok += 1
        ft = [e for e in p.trace if ev_is(e, 'from_tags')]
        ob.require(len(ft) >= 1 and ob.eng.prove(p, ft[0].ret.discriminant() == 1)[0], 'O8/key-package-encoding-not-required',
                   'parse_key_package accepts an event although no (valid) encoding tag was found: a missing or non-base64 encoding tag is silently read as base64', p)
        ob.require(len(ft) >= 1 and uid_of(ob.eng, p.st, ft[0].args[0]).startswith('Tags::iter') and any(ev_is(e, 'Tags::iter') and uid_of(ob.eng, p.st, e.args[0]).startswith('*event') for e in p.trace),
                   'O8/key-package-encoding-source', 'the encoding is not read from the tags of the event being parsed', p)
    ob.require(n_ok >= 1, 'O8/vacuity', 'no accepting path of parse_key_package')
    # call graph: who parses the raw extension
    allowed = ('deserialize_bytes', 'ext_from_raw', 'raw_ext_from_bytes')           # the strict parser and the two cfg(verif-hooks) shims
    n_sites = 0
    for g in ob.prog.crates[CORE].funcs.values():
        for bl in g.blocks.values():
            t = bl[-1]
            if re.search(r'NostrGroupDataExtension::from_raw\(|<TlsNostrGroupDataExtension as (tls_codec::)?Deserialize(Bytes)?>::tls_deserialize', t):
                n_sites += 1
                short = g.name.split('::')[-1]
                ob.require(short in allowed, f'O8/extension-parsed-outside-deserialize_bytes/{short}',
                           f'{g.name[-80:]} parses the raw group-data extension itself ({t.strip()[:100]}): the trailing-bytes check of deserialize_bytes is bypassed on this path')
    ob.require(n_sites >= 2, 'O8/vacuity-callgraph', f'only {n_sites} parse sites found')
    ob.r.bounds = {'paths': 'all', 'call graph': 'all mdk-core functions in the MIR dump (features verif-hooks, mip04)'}
    ob.r.vacuity.append(f'{len(paths)} paths of parse_key_package ({n_ok} accepting); {n_sites} raw-extension parse sites')
    return ob.done(cases=len(paths) + n_sites)


@guard
def o9(tier):
    """the protocol-version tag of a key-package event must be exactly "1.0" (MIP-00): no prefix / major-version / trimmed comparison"""
    ob = Ob('O9', 'validate_protocol_version_tag accepts a tag only on a path whose condition contains the equality of the tag VALUE (element 1 of the tag) with the literal "1.0"; '
                  'every other value ("1.1", "1", "1.0.1", "1.", " 1.0") is refused (tag of 0..2 elements symbolic, value an arbitrary string)', pure=C.PURE_MLS, loop_bound=6)
    f = ob.fn(CORE, 'key_packages::validate_protocol_version_tag')
    paths = ob.explore(f, [Opaque('self', '&MDK<Storage>'), Opaque('tag', '&nostr::Tag')])
    n_ok = n_err = 0
    for p in paths:
        if p.kind == 'panic':
            ob.require(False, 'O9/panic', p.msg, p); continue
        if vname(p.ret) != 'Ok':
            n_err += 1
            continue
        n_ok += 1
        eqs = [str(c) for c in p.pc if str(c).startswith('eq(') and "str:'1.0'" in str(c)]
        ob.require(bool(eqs), 'O9/version-not-compared-exactly',
                   'a protocol-version tag is accepted on a path that never established value == "1.0" (path condition: ' + '; '.join(str(c)[:80] for c in p.pc[-3:]) + ')', p)
        gets = [e for e in p.trace if ev_is(e, 'get')]
        if gets and eqs:
            ob.require(any(str(g.args[1]) == '1' for g in gets), 'O9/wrong-element', 'the element compared with "1.0" is not element 1 (the value) of the tag', p)
    ob.require(n_ok >= 1 and n_err >= 2, 'O9/vacuity', f'{n_ok} accepting, {n_err} refusing paths')
    ob.r.bounds = {'paths': 'all', 'tag elements': '0..2 (symbolic strings)'}
    ob.r.vacuity.append(f'{len(paths)} paths, {n_ok} accepting, {n_err} refusing')
    return ob.done(cases=len(paths))


def run(tier, seed, only=None):
    obs = [('O1', o1), ('O2', o2), ('O3', o3), ('O5', o5), ('O6', o6), ('O7', o7), ('O8', o8), ('O9', o9)] + ([('O4', o4)] if tier == 'thorough' else [])
    out = []
    for k, f in obs:
        if only and k not in only:
            continue
        out.append(f(tier))
    return out
