"""C10 — memory and SQLite backends are observably the same store (partial: the places where one function was written twice)."""
import os, re, time
import z3

from vlib.common import Result
from vlib import scen
from sqlsym import engine as S

EXPLANATION = ('Engine E4: ORDER BY clauses, LIMIT/OFFSET parameter casts, WHERE predicates and upsert column lists are extracted from the SQLite backend sources '
               'and compared by z3, for all 64-bit values, with the reference model of the storage contract (the documented total orders, slice pagination, '
               'selection predicates); engine E3c compares the memory backend kernels with the same reference model (see obligation list).')
TRUSTED = ['SQL subset semantics in sqlsym (ORDER BY with SQLite type ordering for INTEGER/BLOB, LIMIT/OFFSET with negative values, three-valued WHERE)',
           'reference model of the storage contract written in props/C10.py from the trait documentation', 'z3',
           'C18-O1 (Kani): the Rust comparators equal the documented lexicographic order']

I63 = 1 << 63


def sort_queries(fn):
    """{sort mode: SQL} for the two-armed `match sort_order` in groups.rs::<fn>"""
    body = S.fn_body(S.source('groups.rs'), fn)
    out = {}
    for m in re.finditer(r'MessageSortOrder::(\w+)\s*=>\s*\{?\s*"((?:[^"\\]|\\.)*)"', body, re.S):
        lit = re.sub(r'\\\n\s*', '', m.group(2))
        out[m.group(1)] = re.sub(r'\s+', ' ', lit).strip()
    if set(out) != {'CreatedAtFirst', 'ProcessedAtFirst'}:
        raise S.SqlError(f'{fn}: cannot find the per-sort-mode queries ({sorted(out)})')
    return out


def sql_before(order, a, b):
    """a is listed before b under ORDER BY `order` (columns: created_at/processed_at INTEGER (signed 64), id BLOB (memcmp))"""
    clauses = []
    eqs = []
    for col, d in order:
        x, y = a[col], b[col]
        if col == 'id':
            gt, lt = z3.UGT(x, y), z3.ULT(x, y)
        else:
            gt, lt = x > y, x < y         # signed: SQLite INTEGER
        first = gt if d == 'DESC' else lt
        clauses.append(z3.And(*eqs, first) if eqs else first)
        eqs.append(x == y)
    return z3.Or(clauses)


def ref_before(mode, a, b):
    """documented newest-first order: CreatedAtFirst = (created_at, processed_at, id) descending; ProcessedAtFirst = (processed_at, created_at, id) descending;
    timestamps compare as unsigned 64-bit, ids as 32 bytes lexicographically"""
    keys = ['created_at', 'processed_at', 'id'] if mode == 'CreatedAtFirst' else ['processed_at', 'created_at', 'id']
    clauses, eqs = [], []
    for k in keys:
        gt = z3.UGT(a[k], b[k])
        clauses.append(z3.And(*eqs, gt) if eqs else gt)
        eqs.append(a[k] == b[k])
    return z3.Or(clauses)


def o1(tier):
    r = Result('O1', 'sqlsym', 'SQLite ORDER BY of messages()/last_message() == the documented total order for each sort mode, for all rows (timestamps < 2^63); last_message is LIMIT 1 of the same order')
    t0 = time.time()
    sol = S.Solver()
    def row(n):
        return {'created_at': z3.BitVec(n + '_c', 64), 'processed_at': z3.BitVec(n + '_p', 64), 'id': z3.BitVec(n + '_id', 256)}
    a, b = row('a'), row('b')
    dom = [z3.ULT(x[k], z3.BitVecVal(I63, 64)) for x in (a, b) for k in ('created_at', 'processed_at')]
    cases = 0
    for fn in ('messages', 'last_message'):
        qs = sort_queries(fn)
        for mode, sql in qs.items():
            st = S.parse_stmt(sql)
            cases += 1
            if st.table != 'messages' or not st.order:
                r.fail(f'O1/{fn}/{mode}/shape', f'{fn}({mode}) is not an ordered SELECT on messages: {sql[:80]}'); continue
            if not (len(st.where) == 1 and st.where[0][0] == 'mls_group_id' and st.where[0][1] == '='):
                r.fail(f'O1/{fn}/{mode}/filter', f'{fn}({mode}) is not filtered by exactly the group id: {sql[:100]}')
            unknown = [c for c, _ in st.order if c not in a]
            if unknown:
                r.fail(f'O1/{fn}/{mode}/order-columns', f'ORDER BY uses {unknown}'); continue
            sat, m = sol.check(dom + [sql_before(st.order, a, b) != ref_before(mode, a, b)])
            if sat:
                ex = {k: (m.eval(a[k], True).as_long(), m.eval(b[k], True).as_long()) for k in ('created_at', 'processed_at')}
                ex['id'] = (hex(m.eval(a['id'], True).as_long())[:12], hex(m.eval(b['id'], True).as_long())[:12])
                r.fail(f'O1/{fn}/{mode}/order-differs', f'SQLite {fn}() in mode {mode} orders by "{", ".join(c + " " + d for c, d in st.order)}", which differs from the documented order '
                       f'(e.g. rows (created_at, processed_at, id) a/b = {ex})', detail={'sql': sql})
            if fn == 'last_message' and (st.limit or '').strip() != '1':
                r.fail(f'O1/last_message/{mode}/limit', f'last_message does not take LIMIT 1: {sql[:100]}')
    r.cases = cases
    r.queries, r.solver_s = sol.queries, sol.time
    r.functions = ['mdk_sqlite_storage groups.rs::messages (2 queries)', 'mdk_sqlite_storage groups.rs::last_message (2 queries)']
    r.bounds = {'timestamps': 'all values < 2^63 (stored as SQLite INTEGER; above that rusqlite refuses the u64)', 'ids': 'all 256-bit values'}
    r.samples.append({k: sort_queries('messages')[k] for k in sort_queries('messages')})
    r.wall_s = time.time() - t0
    return r


def cast_kind(expr, var):
    e = expr.replace(' ', '')
    if re.fullmatch(re.escape(var) + r'asi64', e):
        return 'wrap'
    if re.fullmatch(r'i64::try_from\(' + re.escape(var) + r'\)\.unwrap_or\(i64::MAX\)', e):
        return 'saturate'
    return None


def o2(tier):
    r = Result('O2', 'sqlsym', 'SQLite pagination: LIMIT/OFFSET with the parameter casts of messages() and pending_welcomes() equals the slice sorted[min(o,n) .. min(o+l,n)] for all limits 1..=MAX and all usize offsets')
    t0 = time.time()
    sol = S.Solver()
    cases = 0
    for rel, fn in (('groups.rs', 'messages'), ('welcomes.rs', 'pending_welcomes')):
        body = S.fn_body_deep(S.source(rel), fn)
        m = re.search(r'params!\[([^\]]*?limit[^\]]*?offset[^\]]*?)\]', body, re.S)
        if not m:
            raise S.SqlError(f'{fn}: LIMIT/OFFSET parameters not found')
        parts = [p.strip() for p in S.split_top(m.group(1))]
        lim_e = [p for p in parts if re.search(r'\blimit\b', p)][0]
        off_e = [p for p in parts if re.search(r'\boffset\b', p)][0]
        lk, ok_ = cast_kind(lim_e, 'limit'), cast_kind(off_e, 'offset')
        from sqlsym import writes as W
        generic = {}
        for nm_, ex_, k_ in (('limit', lim_e, lk), ('offset', off_e, ok_)):
            if k_ is None:
                try:
                    cv = W.conversion(re.sub(r'\b' + nm_ + r'\b', nm_ + '.len()', ex_.lstrip('&').strip()), 'usize')     # `.len()` only tells the translator the operand is a usize
                except W.OptionFlattened:
                    cv = None
                if cv is None or W.INT_BITS.get(cv.out_ty) != 64:
                    raise S.SqlError(f'{fn}: parameter conversion not understood: {ex_}')
                generic[nm_] = cv
        l, o, n = z3.BitVec('limit', 64), z3.BitVec('offset', 64), z3.BitVec('n', 64)
        maxl = 10000
        dom = [z3.UGE(l, 1), z3.ULE(l, maxl), z3.ULE(n, 1 << 40)]

        def conv(v, kind, nm_=None):
            if kind is None:
                return generic[nm_].fn(v)                   # bit-vector model of the Rust-side conversion (sqlsym/writes.py)
            if kind == 'wrap':
                return v                                    # same bits, read as signed by SQLite
            return z3.If(z3.ULT(v, I63), v, z3.BitVecVal(I63 - 1, 64))
        li, oi = conv(l, lk, 'limit'), conv(o, ok_, 'offset')
        # SQLite: negative OFFSET counts as 0; negative LIMIT means no limit
        start_sql = z3.If(oi < 0, z3.BitVecVal(0, 64), z3.If(oi > n, n, oi))
        avail = n - start_sql
        cnt_sql = z3.If(li < 0, avail, z3.If(li > avail, avail, li))
        # reference: slice of the full listing
        start_ref = z3.If(z3.ULT(o, n), o, n)
        end_sat = z3.If(z3.BVAddNoOverflow(o, l, False), o + l, z3.BitVecVal(-1, 64))
        end_ref = z3.If(z3.ULT(end_sat, n), end_sat, n)
        cnt_ref = end_ref - start_ref
        cases += 1
        sat, mdl = sol.check(dom + [z3.Or(start_sql != start_ref, cnt_sql != cnt_ref)])
        if sat:
            r.fail(f'O2/{fn}/offset-cast', f'SQLite {fn}(): `{off_e}` / `{lim_e}` makes LIMIT/OFFSET differ from the slice semantics, e.g. limit={mdl.eval(l, True)}, offset={mdl.eval(o, True)}, '
                   f'{mdl.eval(n, True)} rows: SQLite returns {mdl.eval(cnt_sql, True)} row(s) from index {mdl.eval(start_sql, True)}, the contract says {mdl.eval(cnt_ref, True)} from {mdl.eval(start_ref, True)} '
                   '(a negative OFFSET is treated as 0 by SQLite)', detail={'limit_param': lim_e, 'offset_param': off_e})
        r.samples.append({'function': fn, 'limit_param': lim_e, 'offset_param': off_e})
        # the Rust-side limit guard: accepted(limit) <=> 1 <= limit <= MAX (the documented range, same as the memory backend)
        g = re.search(r'if\s*!\s*\(\s*(\w+)\s*\.\.(=?)\s*(\w+)\s*\)\s*\.contains\(\s*&\s*limit\s*\)', body)
        if not g:
            raise S.SqlError(f'{fn}: limit guard not found / not understood')
        consts = {}
        for cf in ('groups/mod.rs', 'welcomes/mod.rs'):
            for cm in re.finditer(r'pub const (\w+)\s*:\s*usize\s*=\s*([\d_]+)\s*;', open(os.path.join(S.REPO, 'crates', 'mdk-storage-traits', 'src', cf)).read()):
                consts[cm.group(1)] = int(cm.group(2).replace('_', ''))
        def cval(t):
            if re.fullmatch(r'\d+', t):
                return int(t)
            if t not in consts:
                raise S.SqlError(f'{fn}: constant {t} of the limit guard not found')
            return consts[t]
        lo, hi = cval(g.group(1)), cval(g.group(3))
        maxdoc = consts['MAX_MESSAGE_LIMIT' if fn == 'messages' else 'MAX_PENDING_WELCOMES_LIMIT']
        accepted = z3.And(z3.UGE(l, lo), z3.ULE(l, hi) if g.group(2) else z3.ULT(l, hi))
        cases += 1
        sat, mdl = sol.check([accepted != z3.And(z3.UGE(l, 1), z3.ULE(l, maxdoc))])
        if sat:
            r.fail(f'O2/{fn}/limit-range', f'SQLite {fn}(): the limit guard `{g.group(0)[3:].strip()}` does not accept exactly 1..={maxdoc}: e.g. limit={mdl.eval(l, True)} is '
                   f'{"accepted" if z3.is_true(mdl.eval(accepted, True)) else "refused"} (the memory backend and the documented contract say otherwise)')
    r.cases = cases
    r.queries, r.solver_s = sol.queries, sol.time
    r.functions = ['mdk_sqlite_storage groups.rs::messages', 'mdk_sqlite_storage welcomes.rs::pending_welcomes']
    r.bounds = {'limit': '1..=10000', 'offset': 'all usize', 'rows': '0..2^40'}
    r.wall_s = time.time() - t0
    scen.confirm(r, 'O2/messages/offset-cast', 'c10', 'c10_sqlite_messages_huge_offset')
    return r


def pred_z3(where, row, params):
    """SQL WHERE (three-valued: NULL comparisons are not true) as a z3 Bool over a symbolic row"""
    conj = []
    for c in where:
        if c[0] == 'or':
            conj.append(z3.Or([pred_z3([a], row, params) for a in c[1]])); continue
        col, op, rhs = c
        if col not in row:
            # a column the contract does not speak about: arbitrary value (the predicate then cannot equal the contract unless it is redundant)
            row[col] = (z3.BitVec(f'r_{col}', 64), z3.Bool(f'r_{col}_null'))
        v, isnull = row[col]
        if op == 'in' and isinstance(rhs, list) and len(rhs) == 1 and rhs[0].upper().startswith('SELECT'):
            # col IN (SELECT c2 FROM t WHERE P): true iff some row r2 of t satisfies P and r2.c2 = col.  Encoded with the row itself and one more
            # symbolic row as the candidate witnesses (every model is a table of at most two rows, so a difference from the contract is a real one)
            sub = S.parse_stmt(rhs[0])
            if len(sub.select) != 1:
                raise S.SqlError('IN sub-select with several columns: ' + rhs[0])
            c2 = sub.select[0]
            pcopy = list(params)
            p_self = pred_z3(sub.where or [], row, params)
            nrow = row.setdefault('@n2', [0]); nrow[0] += 1
            r2 = {k: ((z3.BitVec(f'r2_{nrow[0]}_{k}', val[0].size()) if val[0] is not None and z3.is_bv(val[0]) else val[0]), z3.Bool(f'r2_{nrow[0]}_{k}_null')) for k, val in row.items() if not k.startswith('@')}
            lits2 = {}
            r2['@lit'] = lambda col_, s_, lits2=lits2, k=nrow[0]: lits2.setdefault((col_, s_), z3.Bool(f'r2_{k}_{col_}_is_{s_}'))
            if '@assume' in row:
                r2['@assume'] = row['@assume']
            p_other = pred_z3(sub.where or [], r2, pcopy)
            for cc in (c2, col):
                if cc not in r2:
                    r2[cc] = (z3.BitVec(f'r2_{nrow[0]}_{cc}', 64), z3.Bool(f'r2_{nrow[0]}_{cc}_null'))
                if cc not in row:
                    row[cc] = (z3.BitVec(f'r_{cc}', 64), z3.Bool(f'r_{cc}_null'))
            same_tbl = z3.And(z3.Not(row[c2][1]), row[c2][0] == v, z3.Not(isnull)) if c2 in row else z3.BoolVal(False)
            conj.append(z3.Or(z3.And(p_self, same_tbl), z3.And(p_other, z3.Not(r2[c2][1]), z3.Not(isnull), r2[c2][0] == v)))
            continue
        if op == 'isnull':
            conj.append(isnull); continue
        if op == 'notnull':
            conj.append(z3.Not(isnull)); continue
        if '@bind' in row and re.fullmatch(r'\?\d+', rhs or ''):
            p = row['@bind'](int(rhs[1:]))             # the value bound at that position, resolved from the Rust-side parameter list
            if isinstance(p, str) and p == 'unresolved':
                p = ('lit', row['@assume'](col)) if (v is None and '@assume' in row) else None
            if v is None and not isinstance(p, tuple):
                raise S.SqlError(f'predicate compares the enumeration column {col} with a parameter the encoder cannot resolve')
            if not isinstance(p, tuple) and (p is None or (z3.is_bv(p) and v is not None and z3.is_bv(v) and p.size() != v.size())):
                p = z3.BitVec(f'param_{col}_{rhs[1:]}', v.size() if v is not None and z3.is_bv(v) else 64)
        elif rhs == '?' or re.fullmatch(r'\?\d+', rhs or ''):
            p = params.pop(0) if params else None
            if v is None and not isinstance(p, tuple):
                # an enumeration column compared with a bound parameter: the value bound is one of the literals, which one is taken from the '@assume' table
                # (the caller enumerates every candidate literal)
                p = ('lit', row['@assume'](col)) if '@assume' in row else None
                if p is None:
                    raise S.SqlError(f'predicate compares the enumeration column {col} with a bound parameter')
            elif p is None or (z3.is_bv(p) and v is not None and z3.is_bv(v) and p.size() != v.size()):
                p = z3.BitVec(f'param_{col}_{len(conj)}', v.size() if v is not None and z3.is_bv(v) else 64)   # a parameter the contract knows nothing about
        else:
            mm = re.match(r"^'(.*)'$", rhs)
            p = ('lit', mm.group(1)) if mm else None
            if p is None:
                raise S.SqlError('predicate rhs: ' + rhs)
        if isinstance(p, tuple):
            cmpv = row['@lit'](col, p[1])
            e = cmpv if op == '=' else z3.Not(cmpv)
        else:
            e = {'=': v == p, '!=': v != p, '>': v > p, '>=': v >= p, '<': v < p, '<=': v <= p}[op]
        conj.append(z3.And(z3.Not(isnull), e))
    return z3.And(conj) if conj else z3.BoolVal(True)


STATE_LITERALS = ['created', 'processed', 'processed_commit', 'failed', 'epoch_invalidated', 'retryable', 'pending', 'accepted', 'declined', 'another']


def numbered(sql):
    """every bare `?` becomes `?k` (k = its 1-based position among the placeholders, SQLite's own numbering rule); explicit `?N` is kept"""
    k = [0]

    def f(m):
        if m.group(1):
            k[0] = max(k[0], int(m.group(1)))
            return m.group(0)
        k[0] += 1
        return f'?{k[0]}'
    return re.sub(r'\?(\d*)', f, sql)


def bound_exprs(rel, fn, sql):
    """the Rust expressions bound to the statement's placeholders (params![..] or a plain array after the SQL literal); None if not found"""
    from sqlsym import writes as W
    body = S.fn_body_deep(S.source(rel), fn)
    try:
        return W.params_after(body, sql)
    except S.SqlError:
        pass
    flat = re.sub(r'\s+', ' ', re.sub(r'//[^\n]*', '', re.sub(r'\\\n\s*', '', body)))
    i = flat.find(re.sub(r'\s+', ' ', sql)[:40])
    if i < 0:
        return None
    m = re.search(r'"\s*,?\s*\)?\s*(?:\.\w+\()?\s*\[([^\]]*)\]', flat[i:])
    return [x.strip() for x in S.split_top(m.group(1))] if m else None


def decide_pred(sol, rel, fn, stmt, row, contract, roles, dom=()):
    """'equal' | 'differs' | 'unresolved' (+ model): the statement's WHERE, with every placeholder resolved to the value the Rust code binds there
    (a role variable of the contract, a string literal, or -- for an enumeration column whose bound value is not a literal in the source -- each candidate literal in turn)"""
    text = numbered(stmt.text)
    st2 = S.parse_stmt(text)
    exprs = bound_exprs(rel, fn, stmt.text)
    unresolved_enum = [False]

    def bind(n):
        if exprs is None or n - 1 >= len(exprs):
            # binding list not found: positional fallback over the contract's parameters (first placeholder = first role ...)
            vals = list(roles.values())
            return vals[n - 1] if n - 1 < len(vals) else None
        x = exprs[n - 1].strip().lstrip('&').strip()
        m = re.fullmatch(r'"([^"]*)"(?:\.to_string\(\)|\.to_owned\(\))?', x)
        if m:
            return ('lit', m.group(1))
        for key, pat in (('g', r'group_id'), ('w', r'event_id|wrapper'), ('e', r'\bepoch\b')):
            if key in roles and re.search(pat, x):
                return roles[key]
        if re.search(r'as_str\(\)|state|State', x):
            unresolved_enum[0] = True
            return 'unresolved'
        return None
    row['@bind'] = bind
    out = []
    try:
        for cand in STATE_LITERALS:
            row['@assume'] = lambda col, cand=cand: cand
            pz = pred_z3(st2.where or [], row, [])
            sat, m = sol.check(list(dom) + [pz != contract])
            out.append((sat, m))
            if not unresolved_enum[0]:
                break
    finally:
        row.pop('@bind', None); row.pop('@assume', None)
    if all(x[0] for x in out):
        return 'differs', out[0][1]
    if len(out) == 1 or not any(x[0] for x in out):
        return 'equal', None
    return 'unresolved', None


def o3(tier):
    r = Result('O3', 'sqlsym', 'SQLite selection predicates == the storage contract: invalidation (group g, epoch NOT NULL and > e; SELECT and UPDATE select the same rows), retry candidates '
                              '(group g, state failed, epoch NULL), retry marking (that event, state failed), pending welcomes (state pending)')
    t0 = time.time()
    sol = S.Solver()
    states = {}

    def lit(col, s):
        return states.setdefault((col, s), z3.Bool(f'{col}_is_{s}'))
    # a symbolic row: value + NULL flag per column
    def mkrow():
        return {'mls_group_id': (z3.BitVec('r_gid', 8), z3.Bool('r_gid_null')), 'epoch': (z3.BitVec('r_epoch', 64), z3.Bool('r_epoch_null')),
                'state': (None, z3.BoolVal(False)), 'wrapper_event_id': (z3.BitVec('r_wid', 16), z3.BoolVal(False)), '@lit': lit}
    g, e, w = z3.BitVec('g', 8), z3.BitVec('e', 64), z3.BitVec('w', 16)
    dom = [z3.ULT(e, I63), z3.Or(mkrow()['epoch'][1], z3.ULT(mkrow()['epoch'][0], I63))]
    # exclusive state literals
    cases = 0
    specs = []
    row = mkrow()
    contract_inval = z3.And(z3.Not(row['mls_group_id'][1]), row['mls_group_id'][0] == g, z3.Not(row['epoch'][1]), z3.UGT(row['epoch'][0], e))
    for fn, table in (('invalidate_messages_after_epoch', 'messages'), ('invalidate_processed_messages_after_epoch', 'processed_messages')):
        prog = [S.parse_stmt(x) for x in S.program('messages.rs', fn)]
        sel = [s for s in prog if s.kind == 'SELECT']
        upd = [s for s in prog if s.kind == 'UPDATE']
        if len(sel) != 1 or len(upd) != 1 or sel[0].table != table or upd[0].table != table:
            r.fail(f'O3/{fn}/shape', f'{fn}: expected one SELECT and one UPDATE on {table}'); continue
        for nm, stmt_ in (('select', sel[0]), ('update', upd[0])):
            cases += 1
            verdict_, m = decide_pred(sol, 'messages.rs', fn, stmt_, row, contract_inval, {'g': g, 'e': e}, dom)
            if verdict_ == 'unresolved':
                r.broken(f'{fn}: a bound parameter of the {nm.upper()} is not resolved by the encoder')
            if verdict_ == 'differs':
                r.fail(f'O3/{fn}/{nm}-predicate', f'SQLite {fn}: the {nm.upper()} selects "{(sel[0] if nm == "select" else upd[0]).text.split("WHERE")[1].strip()}", not exactly the rows of the group with epoch > e '
                       f'(differs at row epoch={"NULL" if z3.is_true(m.eval(row["epoch"][1], True)) else m.eval(row["epoch"][0], True)}, e={m.eval(e, True)})')
        if upd[0].sets.get('state', '').strip("'") != 'epoch_invalidated' or set(upd[0].sets) != {'state'}:
            r.fail(f'O3/{fn}/update-sets', f'{fn} sets {upd[0].sets}')
    # retry candidates
    prog = [S.parse_stmt(x) for x in S.program('messages.rs', 'find_failed_messages_for_retry')]
    sel = [s for s in prog if s.kind == 'SELECT']
    if len(sel) == 1:
        contract = z3.And(z3.Not(row['mls_group_id'][1]), row['mls_group_id'][0] == g, lit('state', 'failed'), row['epoch'][1])
        cases += 1
        verdict_, m = decide_pred(sol, 'messages.rs', 'find_failed_messages_for_retry', sel[0], row, contract, {'g': g})
        if verdict_ == 'differs':
            r.fail('O3/find_failed_messages_for_retry/predicate', f'retry candidates are selected by "{sel[0].text.split("WHERE")[1].strip()}", not (group, state failed, epoch NULL) '
                   '(a comparison `epoch = ?` is never true for a NULL epoch, whatever is bound)')
        elif verdict_ == 'unresolved':
            r.broken('find_failed_messages_for_retry binds the state as a parameter; the bound value is not resolved by the encoder')
    else:
        r.fail('O3/find_failed_messages_for_retry/shape', 'expected one SELECT')
    prog = [S.parse_stmt(x) for x in S.program('messages.rs', 'mark_processed_message_retryable')]
    upd = [s for s in prog if s.kind == 'UPDATE']
    if len(upd) == 1:
        contract = z3.And(row['wrapper_event_id'][0] == w, lit('state', 'failed'))
        cases += 1
        verdict_, m = decide_pred(sol, 'messages.rs', 'mark_processed_message_retryable', upd[0], row, contract, {'w': w})
        if verdict_ == 'unresolved':
            r.broken('mark_processed_message_retryable: a bound parameter is not resolved by the encoder')
        sat = verdict_ == 'differs'
        set_state = upd[0].sets.get('state', '').strip()
        if re.fullmatch(r'\?\d*', set_state):
            ex_ = bound_exprs('messages.rs', 'mark_processed_message_retryable', upd[0].text) or []
            k_ = int(set_state[1:]) if len(set_state) > 1 else 1
            mm_ = re.fullmatch(r'"([^"]*)"', ex_[k_ - 1].strip()) if k_ - 1 < len(ex_) else None
            set_state = "'" + mm_.group(1) + "'" if mm_ else set_state
        if sat or set_state.strip("'") != 'retryable':
            r.fail('O3/mark_processed_message_retryable/predicate', f'retry marking updates "{upd[0].text}"')
    else:
        r.fail('O3/mark_processed_message_retryable/shape', 'expected one UPDATE')
    prog = [S.parse_stmt(x) for x in S.program('welcomes.rs', 'pending_welcomes')]
    sel = [s for s in prog if s.kind == 'SELECT']
    if len(sel) == 1:
        cases += 1
        verdict_, m = decide_pred(sol, 'welcomes.rs', 'pending_welcomes', sel[0], row, lit('state', 'pending'), {})
        if verdict_ == 'unresolved':
            r.broken('pending_welcomes binds the state as a parameter; the bound value is not resolved by the encoder')
        if verdict_ == 'differs':
            r.fail('O3/pending_welcomes/predicate', f'pending welcomes are selected by "{sel[0].text}"')
    # epoch hint lookup (used to find the epoch a media file was announced in): scoped to the group, epoch NOT NULL
    prog = [S.parse_stmt(x) for x in S.program('messages.rs', 'find_message_epoch_by_tag_content')]
    sel = [s for s in prog if s.kind == 'SELECT']
    cases += 1
    if len(sel) != 1 or sel[0].table != 'messages':
        r.fail('O3/find_message_epoch_by_tag_content/shape', 'expected one SELECT on messages')
    else:
        cols = {c[0]: c for c in sel[0].where if c[0] != 'or'}
        if not ('mls_group_id' in cols and cols['mls_group_id'][1] == '=' and str(cols['mls_group_id'][2]).startswith('?')):
            r.fail('O3/find_message_epoch_by_tag_content/not-group-scoped', f'the epoch-hint lookup is not restricted to the asking group ("{sel[0].text.split("WHERE")[1].strip()[:90]}"): '
                   'a message of ANOTHER group with the same tag content decides the epoch (wrong media key after the group advances)')
        if not ('epoch' in cols and cols['epoch'][1] == 'notnull'):
            r.fail('O3/find_message_epoch_by_tag_content/null-epoch', 'the epoch-hint lookup may return a row without epoch')
        if not ('tags' in cols and cols['tags'][1] == 'like'):
            r.fail('O3/find_message_epoch_by_tag_content/no-tag-filter', 'the epoch-hint lookup does not filter on the tag content')
    # look-ups by key return whatever is stored under the key (the memory backend is a map get): exactly `key column = ?`, nothing else narrows the result
    KEY_LOOKUPS = [('welcomes.rs', 'find_welcome_by_event_id', 'welcomes', ['id']), ('welcomes.rs', 'find_processed_welcome_by_event_id', 'processed_welcomes', ['wrapper_event_id']),
                   ('groups.rs', 'find_group_by_mls_group_id', 'groups', ['mls_group_id']), ('groups.rs', 'find_group_by_nostr_group_id', 'groups', ['nostr_group_id']),
                   ('groups.rs', 'group_relays', 'group_relays', ['mls_group_id']), ('groups.rs', 'get_group_exporter_secret', 'group_exporter_secrets', ['epoch', 'mls_group_id']),
                   ('messages.rs', 'find_message_by_event_id', 'messages', ['id', 'mls_group_id']), ('messages.rs', 'find_processed_message_by_event_id', 'processed_messages', ['wrapper_event_id']),
                   ('groups.rs', 'all_groups', 'groups', [])]
    for rel, fn, table, keys in KEY_LOOKUPS:
        cases += 1
        sel = [x for x in (S.parse_stmt(y) for y in S.program(rel, fn)) if x.kind == 'SELECT' and x.table == table]
        if len(sel) != 1:
            r.fail(f'O3/{fn}/shape', f'{fn}: expected exactly one SELECT on {table}, found {len(sel)}'); continue
        q = sel[0]
        conj = [c for c in (q.where or [])]
        good = all(isinstance(c, tuple) and len(c) == 3 and c[1] == '=' and str(c[2]).strip().startswith('?') for c in conj) and sorted(c[0] for c in conj) == sorted(keys)
        if not good or re.search(r'\bJOIN\b', q.text, re.I) or (q.limit is not None and keys == []):
            r.fail(f'O3/{fn}/key-lookup-narrowed', f'SQLite {fn} selects "{q.text.split("FROM", 1)[1].strip()[:110]}" instead of exactly {" AND ".join(k + " = ?" for k in keys) or "every row"}: '
                   'a stored row is not found under its key (the memory backend returns it), e.g. a welcome that was already accepted or declined')
    r.cases = cases
    r.queries, r.solver_s = sol.queries, sol.time
    r.functions = ['messages.rs::find_message_epoch_by_tag_content', 'messages.rs::invalidate_messages_after_epoch', 'messages.rs::invalidate_processed_messages_after_epoch', 'messages.rs::find_failed_messages_for_retry',
                   'messages.rs::mark_processed_message_retryable', 'welcomes.rs::pending_welcomes']
    r.bounds = {'epochs': 'all values < 2^63, NULL included', 'group / event ids': 'symbolic'}
    r.wall_s = time.time() - t0
    return r


def _sql_expr(txt, old, new):
    """evaluate a DO UPDATE SET right-hand side over symbolic rows: returns (is_null, value); grammar: col | excluded.col | COALESCE/IFNULL(a, b) | NULL | integer"""
    t = txt.strip()
    m = re.fullmatch(r'(?i)(COALESCE|IFNULL)\s*\((.*)\)', t)
    if m:
        args = S.split_top(m.group(2))
        vals = [_sql_expr(a, old, new) for a in args]
        n_, v_ = vals[-1]
        for an, av in reversed(vals[:-1]):
            n_, v_ = z3.And(an, n_), z3.If(an, v_, av)
        return n_, v_
    m = re.fullmatch(r'(?i)(MAX|MIN)\s*\((.*)\)', t)
    if m and len(S.split_top(m.group(2))) >= 2:
        # scalar MAX / MIN: NULL if any argument is NULL, else the signed maximum / minimum
        vals = [_sql_expr(a, old, new) for a in S.split_top(m.group(2))]
        n_, v_ = vals[0]
        for an, av in vals[1:]:
            pick = (av > v_) if m.group(1).upper() == 'MAX' else (av < v_)
            n_, v_ = z3.Or(n_, an), z3.If(pick, av, v_)
        return n_, v_
    m = re.fullmatch(r'(?i)(\w+)\s*\((.*)\)', t)
    if m and m.group(1).upper() not in ('COALESCE', 'IFNULL'):
        # a function the encoding does not know: uninterpreted (its result is not provably the new value)
        args = [_sql_expr(a, old, new) for a in S.split_top(m.group(2))] if m.group(2).strip() else []
        f = z3.Function('sqlfn_' + m.group(1).lower(), *([z3.BitVecSort(64)] * len(args) + [z3.BitVecSort(64)]))
        fn_ = z3.Function('sqlfn_null_' + m.group(1).lower(), *([z3.BitVecSort(64)] * len(args) + [z3.BoolSort()]))
        return (fn_(*[a[1] for a in args]) if args else z3.Bool('sqlfn_null_' + m.group(1).lower())), (f(*[a[1] for a in args]) if args else z3.BitVec('sqlfn_' + m.group(1).lower(), 64))
    m = re.fullmatch(r'(?i)excluded\s*\.\s*"?(\w+)"?', t)
    if m:
        if m.group(1) not in new:
            raise S.SqlError(f'excluded.{m.group(1)}: no such inserted column')
        return new[m.group(1)]
    if re.fullmatch(r'(?i)NULL', t):
        return z3.BoolVal(True), z3.BitVecVal(0, 64)
    if re.fullmatch(r'-?\d+', t):
        return z3.BoolVal(False), z3.BitVecVal(int(t), 64)
    m = re.fullmatch(r'(?:"?\w+"?\s*\.\s*)?"?(\w+)"?', t)
    if m:
        return old.setdefault(m.group(1), (z3.Bool(f'old_{m.group(1)}_null'), z3.BitVec(f'old_{m.group(1)}', 64)))
    raise S.SqlError(f'DO UPDATE SET expression not understood: {txt}')


def _set_is_new_value(sol, cols, c, rhs):
    """z3: after `SET c = rhs` the column holds the newly inserted value, whatever the old and new values (NULL included)"""
    new = {k: (z3.Bool(f'new_{k}_null'), z3.BitVec(f'new_{k}', 64)) for k in cols}
    old = {}
    rn, rv = _sql_expr(rhs, old, new)
    nn, nv = new[c]
    sat, _ = sol.check([z3.Not(z3.And(rn == nn, z3.Or(nn, rv == nv)))])
    return not sat


def o4(tier):
    r = Result('O4', 'sqlsym', 'SQLite upserts are last-write-wins on every column: each INSERT ... ON CONFLICT lists every non-key column of its table in DO UPDATE SET (checked against the migrations)')
    t0 = time.time()
    tables = S.load_catalogue()
    sol = S.Solver()
    n = 0
    for rel, fns in (('groups.rs', ['save_group', 'save_group_exporter_secret']), ('messages.rs', ['save_message', 'save_processed_message']),
                     ('welcomes.rs', ['save_welcome', 'save_processed_welcome'])):
        for fn in fns:
            for s in [S.parse_stmt(x) for x in S.program(rel, fn)]:
                if s.kind != 'INSERT':
                    continue
                n += 1
                t = tables[s.table]
                auto = {'id'} if t.pk == ['id'] and 'id' not in s.cols else set()
                missing = [c for c in t.colnames() if c not in s.cols and c not in auto and c != 'provider_version']
                if missing:
                    r.fail(f'O4/{fn}/column-not-written', f'{fn}: column(s) {missing} of {s.table} are never written (a saved record cannot carry them)')
                if getattr(s, 'or_clause', None) == 'REPLACE':
                    kids = S.cascade_children(tables, s.table)
                    nuniq = len(t.uniques) + (1 if t.pk else 0)
                    if kids or nuniq > 1:
                        r.fail(f'O4/{fn}/replace-deletes-rows', f'{fn}: INSERT OR REPLACE INTO {s.table} resolves a conflict on ANY uniqueness constraint ({[t.pk] + t.uniques}) by deleting the '
                               f'conflicting row' + (f', which cascades into {[k for k, _ in kids]}' if kids else '') + ': saving one record can silently destroy another one (e.g. a colliding nostr_group_id)')
                if isinstance(s.conflict, tuple):
                    tgt, sets, nothing = s.conflict
                    if sorted(tgt) != sorted(t.pk):
                        r.fail(f'O4/{fn}/conflict-target', f'{fn}: ON CONFLICT({tgt}) is not the primary key {t.pk}')
                    stale = [c for c in s.cols if c not in tgt and (c not in sets or not _set_is_new_value(sol, s.cols, c, sets[c]))]
                    if nothing or stale:
                        r.fail(f'O4/{fn}/stale-column', f'{fn}: on overwrite column(s) {stale or "all"} keep their old value (lookup would not return the last value saved)')
                elif s.conflict == 'REPLACE':
                    pass
                elif s.conflict == 'IGNORE':
                    r.fail(f'O4/{fn}/ignore', f'{fn}: INSERT OR IGNORE keeps the first value saved')
                else:
                    if t.pk and all(k in s.cols for k in t.pk) and fn.startswith('save_'):
                        r.notes.append(f'{fn}: plain INSERT into {s.table}: a second save under the same key fails instead of overwriting (checked separately where the contract requires overwrite)')
    r.cases = n
    r.queries = sol.queries
    r.solver_s = sol.time
    r.functions = ['save_group', 'save_group_exporter_secret', 'save_message', 'save_processed_message', 'save_welcome', 'save_processed_welcome']
    r.bounds = {'tables': 'all columns per migrations V001..', 'DO UPDATE SET expressions': 'z3: value after the upsert == the new value, for all old/new values incl. NULL'}
    r.wall_s = time.time() - t0
    return r


SAVE_FNS = (('groups.rs', 'save_group', 'row_to_group'), ('groups.rs', 'replace_group_relays', 'row_to_group_relay'), ('groups.rs', 'save_group_exporter_secret', 'row_to_group_exporter_secret'),
            ('messages.rs', 'save_message', 'row_to_message'), ('messages.rs', 'save_processed_message', 'row_to_processed_message'),
            ('welcomes.rs', 'save_welcome', 'row_to_welcome'), ('welcomes.rs', 'save_processed_welcome', 'row_to_processed_welcome'))


def _struct_fields(tyname):
    """{field: type text} of `pub struct tyname` in mdk-storage-traits (current source)"""
    import glob
    for f in glob.glob(os.path.join(S.REPO, 'crates', 'mdk-storage-traits', 'src', '**', '*.rs'), recursive=True):
        src = open(f).read()
        m = re.search(r'pub struct ' + re.escape(tyname) + r'\s*\{', src)
        if m:
            body = src[m.end(): src.index('\n}', m.end())]
            body = re.sub(r'//[^\n]*', '', body)
            return {a: b.strip() for a, b in re.findall(r'pub\s+(\w+)\s*:\s*([^,\n]+)', body)}
    return {}


def o8(tier):
    """write-side fidelity: what a save_* binds is read back as what was given (z3 over the Rust-side parameter conversions)"""
    from sqlsym import writes as W
    r = Result('O8', 'sqlsym', 'SQLite save_*: every INSERT parameter is bound to the column of its own field, and for INTEGER columns the Rust-side conversion composed with '
                              'rusqlite ToSql / the db.rs decoder is the identity on every accepted value (all values of the field type; epochs < 2^63)')
    t0 = time.time()
    sol = S.Solver()
    tables = S.load_catalogue()
    dbsrc = S.source('db.rs')
    for rel, fn, decoder in SAVE_FNS:
        src = S.source(rel)
        body = S.fn_body_deep(src, fn)
        sig = re.search(r'\bfn ' + fn + r'\s*\(\s*&self\s*,\s*(\w+)\s*:\s*&?\s*([\w:]+)', src)
        if not sig:
            raise S.SqlError(f'{fn}: cannot read the signature')
        record, rtype = sig.group(1), sig.group(2).split('::')[-1]
        ftypes = _struct_fields(rtype)
        lets = S.let_bindings(rel, fn)
        for sql in S.program(rel, fn):
            st = S.parse_stmt(sql)
            if st.kind != 'INSERT' or st.table not in tables:
                continue
            params = W.params_after(body, sql)
            if len(params) != len(st.cols):
                raise S.SqlError(f'{fn}: {len(params)} parameters for {len(st.cols)} columns')
            t = tables[st.table]
            ctype = {c[0]: c[1] for c in t.cols}
            for col, raw in zip(st.cols, params):
                r.cases += 1
                e = W.expand(raw, lets)
                fld = W.field_of(e, record)
                if fld and fld != col and fld in ctype and fld in st.cols:
                    r.fail(f'O8/{fn}/{col}/wrong-field', f'{fn}: column {col} is bound to {record}.{fld} (parameter `{raw}`), the field of another column: the stored record is not the one given')
                    continue
                if ctype.get(col) not in ('INTEGER', 'INT', 'BIGINT'):
                    # TEXT / BLOB columns: the value goes through library accessors. Each accessor is a contract: LOSSLESS ones have an inverse the decoder applies
                    # (as_str / parse, as_bytes / from_slice, as_json / from_json, serde_json::to_string / from_str, ...); LOSSY ones are documented as dropping information.
                    meths = [m_ for m_ in re.findall(r'\.\s*(\w+)\s*\(', re.sub(r'\.map_err\(.*', '', e)) if m_ not in ('map', 'as_ref', 'clone', 'map_err', 'iter', 'collect', 'cloned', 'copied')]
                    lossy = [m_ for m_ in meths if m_ in W.LOSSY_ACCESSORS]
                    unknown = [m_ for m_ in meths if m_ not in W.LOSSLESS_ACCESSORS and m_ not in W.LOSSY_ACCESSORS]
                    if lossy:
                        r.fail(f'O8/{fn}/{col}/altered-on-write', f'{fn}: column {col} stores `{e[:80]}`: {lossy[0]}() drops information, so the value read back is not the value saved '
                               '(e.g. a relay URL whose path ends in "/" comes back as a different URL)')
                    elif unknown:
                        raise S.SqlError(f'{fn}.{col}: accessor {unknown[0]}() in `{e[:60]}` has no codec contract (add it to sqlsym/writes.py as lossless or lossy)')
                    continue
                if e.startswith('match:'):
                    continue                      # enum-to-integer encodings are checked by the state-machine obligations, not here
                try:
                    conv = W.conversion(e, ftypes.get(fld or '', ''))
                except W.OptionFlattened as of:
                    r.fail(f'O8/{fn}/{col}/altered-on-write', f'{fn}: {record}.{fld or col} is an Option stored through `{e[:60]}`: None is written as the default value and read back as Some(default) '
                           '(queries that look for NULL, e.g. the retry selection "epoch IS NULL", no longer find the record)')
                    continue
                rty = W.read_type(dbsrc, decoder, col)
                if conv is None:
                    continue                      # plain accessor: bound as is, ToSql accepts or refuses, nothing is altered
                x = z3.BitVec(f'{fn}_{col}_x', W.INT_BITS[conv.src_ty])
                y = conv.fn(x)
                acc, stored = W.stored_of(y, conv.out_ty)
                rb = W.read_back(stored, rty)
                if rb is None:
                    raise S.SqlError(f'{fn}.{col}: cannot find the integer type the column is decoded into (db.rs::{decoder})')
                defined, val = rb
                x64 = z3.SignExt(64 - x.size(), x) if conv.src_ty[0] == 'i' and x.size() < 64 else (z3.ZeroExt(64 - x.size(), x) if x.size() < 64 else x)
                dom = z3.ULT(x64, z3.BitVecVal(2 ** 63, 64)) if col == 'epoch' else z3.BoolVal(True)
                sat, model = sol.check([dom, acc, z3.Not(z3.And(defined, val == x64))])
                if sat:
                    xv = model.eval(x, model_completion=True).as_long()
                    sv = model.eval(stored, model_completion=True).as_signed_long()
                    r.fail(f'O8/{fn}/{col}/altered-on-write', f'{fn}: {record}.{fld or col} = {xv} is accepted but stored as {sv} via `{conv.text}` and is not read back as given '
                           f'(decoder type {rty}): the stored record differs from the one saved', detail={'x': xv, 'stored': sv, 'conversion': conv.text})
                r.samples.append(f'{fn}.{col}: forall x: accepted(x) => read({conv.text}) == x  [{ "violated" if sat else "unsat-negation = holds"}]')
    # read side: each decoder reads every column its table's save_* writes exactly once (a column read twice stands in for one that is never read back)
    for rel, fn, decoder in SAVE_FNS:
        if decoder is None:
            continue
        try:
            dbody = re.sub(r'//[^\n]*', '', S.fn_body(dbsrc, decoder))
        except S.SqlError:
            continue
        reads = re.findall(r'row\s*\.\s*get(?:_ref)?(?:::<[^>]*(?:<[^>]*>)?[^>]*>)?\(\s*"(\w+)"\s*\)', dbody)
        ins = [S.parse_stmt(x) for x in S.program(rel, fn)]
        ins = [x for x in ins if x.kind == 'INSERT' and x.table in tables]
        if not ins or not reads:
            continue
        written = [c for c in ins[0].cols]
        r.cases += 1
        dup = sorted({c for c in reads if reads.count(c) > 1})
        never = [c for c in written if c not in reads and c not in ('id',) or (c == 'id' and c in written and c not in reads and tables[ins[0].table].pk != ['id'])]
        never = [c for c in never if c != 'provider_version']
        if dup and never:
            r.fail(f'O8/{decoder}/column-read-twice', f'db::{decoder} reads column(s) {dup} more than once and never reads {never}: a field of the decoded record is filled from another field\'s column '
                   '(e.g. an image key that is really the image hash)')
        elif never:
            r.fail(f'O8/{decoder}/column-never-read', f'db::{decoder} never reads column(s) {never} that {fn} writes: the stored value cannot come back')
    r.queries = sol.queries
    r.solver_s = sol.time
    r.functions = [f'mdk_sqlite_storage::{fn} (params![..] + SQL) / db::{d}' for _, fn, d in SAVE_FNS]
    r.bounds = {'integers': 'all values of the field machine type (64-bit bit-vectors)', 'epoch columns': '< 2^63 (one commit per epoch)'}
    r.assumptions += ['rusqlite ToSql: u64/usize are refused above i64::MAX, other integer types are bound as is; FromSql refuses out-of-range values',
                      'parameters without a numeric conversion are bound unaltered']
    r.wall_s = time.time() - t0
    return r


def o5(tier):
    from props import memobs
    return memobs.messages_listing(tier, 'O5', 'O5')


def o6(tier):
    from props import memobs
    return memobs.invalidation(tier, 'O6', 'O6')


def o7(tier):
    from props import memobs
    return memobs.memory_rollback(tier, 'O7', 'O7')


def o9(tier):
    from props import memobs
    return memobs.save_group_refusal(tier, 'O9', 'O9')


def o10(tier):
    from props import memobs
    return memobs.pending_welcomes_listing(tier, 'O10', 'O10')

def o11(tier):
    from props import memobs
    return memobs.save_message_upsert(tier, 'O11', 'O11')


def o12(tier):
    """the snapshot API behaves alike on both backends: re-taking a snapshot under an existing name REPLACES it (memory replaces the map entry)"""
    from props import C09
    r = C09.sqlite_snapshot_ops(tier)
    r.oid = 'O12'
    r.title = 'SQLite (shared with C09-O3): re-taking a snapshot under an existing name replaces it (delete-first inside the transaction), like the memory backend; snapshot maintenance touches only the snapshot table'
    return r


def o13(tier):
    from props import memobs
    return memobs.find_message_scoped(tier, 'O13', 'O13')


def o14(tier):
    from props import memobs
    return memobs.last_message_head(tier, 'O14', 'O14')


def o15(tier):
    from props import memobs
    return memobs.epoch_hint_lookup(tier, 'O15', 'O15')


def o16(tier):
    """a rollback gives back the record as it was saved, on SQLite as on the memory backend (which keeps the record itself)"""
    from props import C09
    r = C09.sqlite_columns(tier)
    r.oid = 'O16'
    r.title = 'SQLite (shared with C09-O2): the snapshot of a group row carries every column and the restore binds each decoded value to the column it was read from (writer / reader tuple positions agree), so a rolled-back record equals the saved one field for field, as on the memory backend'
    return r


def run(tier, seed, only=None):
    obs = [('O1', o1), ('O2', o2), ('O3', o3), ('O4', o4), ('O5', o5), ('O6', o6), ('O7', o7), ('O8', o8), ('O9', o9), ('O10', o10), ('O11', o11), ('O12', o12), ('O13', o13), ('O14', o14), ('O15', o15), ('O16', o16)]
    out = []
    for k, f in obs:
        if only and k not in only:
            continue
        try:
            out.append(f(tier))
        except S.SqlError as e:
            rr = Result(k, 'sqlsym', f.__name__)
            rr.broken(f'SQL engine: {e}')
            out.append(rr)
    return out
