"""C04 — stored messages are bound to their authenticated sender and to their own content (kernel level)."""
import z3

from mirsym.api import (Ob, guard, ev_is, is_write, vname, ret_shape, derived_from, uid_of, Opaque, Agg, Ref)
from mirsym import contracts as C
from mirsym import models as M
from props.C05 import first, all_ev, res_ok
from props.C02 import app_args, msg_field

EXPLANATION = ('Symbolic execution (z3) of the MIR of verify_rumor_author, process_application_message and create_message with the nostr '
               'UnsignedEvent id contract: on every accepting path the author check compares the rumor pubkey with the 32-byte identity of the '
               'MLS credential, and the id that becomes Message.id / storage key equals the NIP-01 hash (uninterpreted function) of the stored fields.')
TRUSTED = ['rustc nightly MIR dump', 'mirsym interpreter + std models', 'nostr UnsignedEvent id contract (mirsym/contracts.py, read from nostr 0.44 sources)', 'z3']
CORE = 'mdk-core'


@guard
def o1(tier):
    """verify_rumor_author truth table"""
    ob = Ob('O1', 'verify_rumor_author: Ok <=> Basic credential, identity of exactly 32 bytes that parses, equal to the rumor pubkey',
            pure=C.PURE_MLS, inline={'parse_credential_identity'})
    f = ob.fn(CORE, 'validation::verify_rumor_author')
    paths = ob.explore(f, [Opaque('self', '&MDK<Storage>'), Opaque('rumor_pubkey', '&nostr::key::PublicKey'), Opaque('cred', 'openmls::credentials::Credential')])
    n_ok = 0
    for p in paths:
        if p.kind == 'panic':
            ob.require(False, 'O1/panic', f'can panic: {p.msg}', p); continue
        sh = ret_shape(p.ret)
        tf = [e for e in p.trace if ev_is(e, 'try_from')]
        idn = [e for e in p.trace if ev_is(e, 'BasicCredential::identity')]
        fs = [e for e in p.trace if ev_is(e, 'from_slice')]
        if sh[0] == 'Ok':
            n_ok += 1
            if not ob.require(len(tf) == 1 and len(idn) == 1 and len(fs) == 1, 'O1/ok-shape', f'accepted with calls {[e.short for e in p.trace]}', p):
                continue
            ob.require(uid_of(ob.eng, p.st, tf[0].args[0]) == 'cred' and derived_from(ob.eng, p.st, idn[0].args[0], tf[0]) and derived_from(ob.eng, p.st, fs[0].args[0], idn[0]),
                       'O1/identity-source', 'identity is not taken from the sender credential', p)
            ln = z3.BitVec(uid_of(ob.eng, p.st, idn[0].ret) + '#len', 64)
            claims = [(tf[0].ret.discriminant() == 0, 'O1/nonbasic-accepted', 'accepted although the credential is not Basic'),
                      (fs[0].ret.discriminant() == 0, 'O1/unparsable-accepted', 'accepted although the identity does not parse'),
                      (ln == 32, 'O1/length-not-32', 'accepted with an identity whose length is not 32'),
                      (M.val_eq(ob.eng, Opaque('rumor_pubkey', '&nostr::key::PublicKey'), fs[0].ret.child('Ok', 0, 'nostr::key::PublicKey')), 'O1/mismatch-accepted',
                       'accepted although rumor pubkey differs from the credential identity')]
            ob.prove_all(p, claims)
        else:
            if fs and ob.eng.prove(p, fs[0].ret.discriminant() == 0)[0]:
                eq = M.val_eq(ob.eng, Opaque('rumor_pubkey', '&nostr::key::PublicKey'), fs[0].ret.child('Ok', 0, 'nostr::key::PublicKey'))
                ob.prove(p, z3.Not(eq), 'O1/match-rejected', 'rejected although the pubkey matches the credential identity')
                ob.require(sh == ('Err', 'AuthorMismatch'), 'O1/err-kind', f'mismatch yields {sh}', p)
        ob.require(not [e for e in p.trace if is_write(e)], 'O1/effects', 'validator has side effects', p)
    ob.require(n_ok == 1, 'O1/vacuity', f'accepting paths: {n_ok}')
    ob.r.vacuity.append(f'{len(paths)} paths, {n_ok} accepting')
    ob.r.bounds = {'identity length': 'symbolic u64', 'paths': 'all'}
    return ob.done(cases=len(paths))


def id_claim(ob, p, m):
    u = lambda v: uid_of(ob.eng, p.st, v)
    h = C.nip01_of_fields(ob.eng, p.st, msg_field(m, 'pubkey'), msg_field(m, 'created_at'), msg_field(m, 'kind'), msg_field(m, 'tags'), msg_field(m, 'content'))
    return M.val_eq(ob.eng, msg_field(m, 'id'), h)


@guard
def o2(tier):
    """the stored id is the NIP-01 hash of the stored fields (receive and send side)"""
    ob = Ob('O2', 'process_application_message / create_message: Message.id (the storage key) equals the NIP-01 hash of the stored pubkey, created_at, kind, tags, content on every accepting path',
            pure=C.PURE_MLS, models=C.unsigned_event_models(), inline={'create_mls_message_payload'})
    ob.r.assumptions += C.NOSTR_CONTRACT
    total = 0
    for spec, args, key in [('application::process_application_message', app_args(), 'receive'),
                            ('create::create_message', [Opaque('self', '&MDK<Storage>'), Opaque('mls_group_id', '&mdk_storage_traits::GroupId'), Opaque('rumor', 'nostr::UnsignedEvent')], 'send')]:
        f = ob.fn(CORE, spec)
        paths = ob.explore(f, args)
        total += len(paths)
        n = 0
        for p in paths:
            if p.kind == 'panic':
                ob.require(False, f'O2/{key}/panic', f'can panic: {p.msg}', p); continue
            sm = [e for e in p.trace if ev_is(e, 'save_message_record')]
            for e in sm:
                n += 1
                m = e.args[1]
                ob.prove(p, id_claim(ob, p, m), f'O2/{key}/preset-id',
                         f'{spec.split("::")[-1]}: a rumor whose pre-set id is not the hash of its content becomes a stored message under that id')
                rec = [x for x in p.trace if ev_is(x, 'create_processed_message_record')]
                if rec:
                    ob.require(vname(rec[0].args[1]) == 'Some' and uid_of(ob.eng, p.st, rec[0].args[1].fields[0]) == uid_of(ob.eng, p.st, msg_field(m, 'id')),
                               f'O2/{key}/record-id', 'processed record refers to another message id', p)
        ob.require(n >= 1, f'O2/{key}/vacuity', 'no storing path')
    ob.r.vacuity.append(f'{total} paths over receive and send side')
    ob.r.bounds = {'paths': 'all', 'rumor id': 'symbolic Option<EventId> (None / arbitrary pre-set value)'}
    r = ob.done(cases=total)
    from vlib import scen
    scen.confirm(r, 'O2/receive/preset-id', 'c04', 'c04_preset_id_receive')
    scen.confirm(r, 'O2/send/preset-id', 'c04', 'c04_preset_id_send')
    return r


@guard
def o3(tier):
    """the identity checked is the one OpenMLS authenticated for this very message"""
    ob = Ob('O3', 'dispatch_by_content_type: the credential handed to the author check (and the sender handed to commit validation) are those of the processed MLS message itself, '
                  'the content stored is that message\'s content, the epoch recorded is that message\'s own epoch', pure=C.PURE_MLS)
    f = ob.fn(CORE, 'process::dispatch_by_content_type')
    args = [Opaque('self', '&MDK<Storage>'), Opaque('group', 'mdk_storage_traits::groups::types::Group'), Opaque('mls_group', '&mut openmls::group::MlsGroup'),
            Opaque('bytes', '&[u8]'), Opaque('event', '&nostr::Event')]
    paths = ob.explore(f, args)
    n_app = n_commit = 0
    for p in paths:
        if p.kind == 'panic':
            ob.require(False, 'O3/panic', p.msg, p); continue
        u = lambda v: uid_of(ob.eng, p.st, v)
        pmm = [e for e in p.trace if ev_is(e, 'process_mls_message')]
        if not pmm:
            continue
        proc = u(pmm[0].ret) + '.Ok.0'
        cred = [e for e in p.trace if ev_is(e, 'ProcessedMessage::credential')]
        snd = [e for e in p.trace if ev_is(e, 'ProcessedMessage::sender')]
        ic = [e for e in p.trace if ev_is(e, 'ProcessedMessage::into_content')]
        for e in p.trace:
            if ev_is(e, 'process_application_message'):
                n_app += 1
                ok = bool(cred) and u(cred[0].args[0]).startswith(proc) and u(e.args[5]) == u(cred[0].ret) or bool(cred) and u(e.args[5]).startswith('*' + u(cred[0].ret)) or bool(cred) and u(cred[0].ret) in u(e.args[5])
                ob.require(ok and u(cred[0].args[0]).startswith(proc), 'O3/credential-source',
                           f'author check receives {u(e.args[5])}, not the credential of the processed MLS message', p)
                ob.require(bool(ic) and u(ic[0].args[0]).startswith(proc) and u(ic[0].ret) in u(e.args[4]), 'O3/content-source', f'content processed is {u(e.args[4])}', p)
                # the epoch recorded with the message is the epoch the MESSAGE was created in (OpenMLS also decrypts application messages of recent past
                # epochs: stamping them with the receiver's current epoch makes a rollback invalidate messages that belong to the common history)
                mep = [x for x in p.trace if ev_is(x, 'ProcessedMessage::epoch')]
                ob.require(bool(mep) and u(mep[0].args[0]).startswith(proc) and 'as_u64' in u(e.args[2]) and u(mep[0].ret) in u(e.args[2]), 'O3/epoch-source',
                           f'epoch recorded with the message is {u(e.args[2])}, not the epoch of the processed MLS message (ProcessedMessage::epoch): a late message of an earlier epoch '
                           'is stamped with the receiver\'s current epoch and is invalidated by a rollback although it was created before the fork', p)
                ob.require(u(e.args[1]) == 'group' and u(e.args[3]) in ('event', '*event'), 'O3/group-event', f'group/event passed: {u(e.args[1])} {u(e.args[3])}', p)
            if ev_is(e, 'process_commit'):
                n_commit += 1
                ob.require(bool(snd) and u(snd[0].args[0]).startswith(proc) and u(snd[0].ret) in u(e.args[4]), 'O3/sender-source',
                           f'commit validated against sender {u(e.args[4])}, not the sender of the processed MLS message', p)
                ob.require(bool(ic) and u(ic[0].ret) in u(e.args[3]), 'O3/commit-source', f'staged commit is {u(e.args[3])}', p)
    ob.require(n_app >= 1 and n_commit >= 1, 'O3/vacuity', f'app {n_app} commit {n_commit}')
    ob.r.bounds = {'paths': 'all'}
    ob.r.vacuity.append(f'{len(paths)} paths; {n_app} application, {n_commit} commit dispatches')
    r = ob.done(cases=len(paths))
    from vlib import scen
    scen.confirm(r, 'O3/epoch-source', 'c02', 'c02_pre_fork_message_received_on_losing_branch_stays_valid')
    return r


def _shared(fn, oid, title):
    r = fn()
    r.oid = oid
    r.title = title + ' -- ' + r.title[:200]
    return r


def o4(tier):
    from props import C02
    return _shared(lambda: C02.o2(tier), 'O4', 'shared with C02-O2: the author check succeeds BEFORE the message is written, and the stored fields are the decoded rumor\'s')


def o5(tier):
    from props import C10
    return _shared(lambda: C10.o8(tier), 'O5', 'shared with C10-O8: on SQLite the stored created_at / kind are the ones that were hashed into the id (no clamping or truncation on write)')


def o6(tier):
    from props import C10
    return _shared(lambda: C10.o4(tier), 'O6', 'shared with C10-O4: on SQLite re-saving a message writes every column from its own field (the timestamp the id commits to is not replaced by another column)')


def o7(tier):
    """stored messages of one group are not reachable / replaceable through another group that shares an event id"""
    from props import memobs
    return memobs.find_message_scoped(tier, 'O7', 'O7')


@guard
def o8(tier):
    """the storage wrappers of mdk-core hand their argument to the backend unchanged"""
    ob = Ob('O8', 'MDK::save_message_record / save_processed_message_record / save_group_record: the record given to the storage backend is the argument itself, no field re-written on the way '
                  '(every send and receive path stores messages through save_message_record: a clamp or normalisation there makes the stored created_at / content differ from what the id commits to)',
            pure=C.PURE_MLS)
    n = 0
    for fn, write, ty in (('save_message_record', 'save_message', 'mdk_storage_traits::messages::types::Message'),
                          ('save_processed_message_record', 'save_processed_message', 'mdk_storage_traits::messages::types::ProcessedMessage'),
                          ('save_group_record', 'save_group', 'mdk_storage_traits::groups::types::Group')):
        f = ob.fn(CORE, 'messages::<impl MDK<Storage>>::' + fn) if False else ob.fn(CORE, fn)
        paths = ob.explore(f, [Opaque('self', '&MDK<Storage>'), Opaque('record', ty)])
        for p in paths:
            if p.kind == 'panic':
                ob.require(False, f'O8/{fn}/panic', p.msg, p); continue
            n += 1
            ws = [e for e in p.trace if e.short.split('::')[-1] == write]
            if not ob.require(len(ws) == 1, f'O8/{fn}/writes', f'{fn} performs {len(ws)} {write} calls', p):
                continue
            a = ws[0].args[1]
            same = isinstance(a, Opaque) and a.uid == 'record' and not a.over
            ob.require(same, f'O8/{fn}/record-rewritten', f'{fn} stores {a!r} with re-written fields {sorted(getattr(a, "over", {}) or {})} instead of the record it was given', p)
            okret = ob.eng.prove(p, (p.ret.discriminant() == 0) == (ws[0].ret.discriminant() == 0))[0] if hasattr(p.ret, 'discriminant') and hasattr(ws[0].ret, 'discriminant') else True
            ob.require(okret, f'O8/{fn}/result', f'{fn} does not report the outcome of the storage write', p)
    ob.require(n >= 6, 'O8/vacuity', f'{n} paths')
    ob.r.bounds = {'paths': 'all', 'record': 'arbitrary (opaque)'}
    return ob.done(cases=n)


def run(tier, seed, only=None):
    obs = [('O1', o1), ('O2', o2), ('O3', o3), ('O4', o4), ('O5', o5), ('O6', o6), ('O7', o7), ('O8', o8)]
    out = []
    for k, f in obs:
        if only and k not in only:
            continue
        try:
            out.append(f(tier))
        except Exception as e:                      # an engine that cannot read the tree is an inconclusive obligation, not a crash of the whole check
            from vlib.common import Result
            rr = Result(k, 'sqlsym' if type(e).__name__ == 'SqlError' else 'mirsym', f.__doc__ or f.__name__)
            rr.broken(f'{type(e).__name__}: {e}')
            out.append(rr)
    return out
