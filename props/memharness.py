"""E3c harness for crates/mdk-memory-storage: a concrete-shape MdkMemoryStorage value (RwLock'd inner with LRU caches as association
lists; capacity is not modelled = caches never evict within the explored bounds) holding symbolic records."""
import z3

from mirsym.api import Ob, Opaque, Agg, Ref, vname
from mirsym.engine import State
from mirsym.values import copy_val, Tok, SeqV, MapV, StrV
from mirsym import models as M

MEM = 'mdk-memory-storage'
CRATES = ('mdk-core', 'mdk-storage-traits', 'mdk-memory-storage')
INNER_FIELDS = ['mls_group_data', 'mls_own_leaf_nodes', 'mls_proposals', 'mls_key_packages', 'mls_psks', 'mls_signature_keys', 'mls_encryption_keys', 'mls_epoch_key_pairs',
                'groups_cache', 'groups_by_nostr_id_cache', 'group_relays_cache', 'welcomes_cache', 'processed_welcomes_cache', 'messages_cache', 'messages_by_group_cache',
                'processed_messages_cache', 'group_exporter_secrets_cache']
MSG_FIELDS = ['id', 'pubkey', 'kind', 'mls_group_id', 'created_at', 'processed_at', 'content', 'tags', 'event', 'wrapper_event_id', 'epoch', 'state']
GROUP_FIELDS = ['mls_group_id', 'nostr_group_id', 'name', 'description', 'image_hash', 'image_key', 'image_nonce', 'admin_pubkeys', 'last_message_id', 'last_message_at',
                'last_message_processed_at', 'epoch', 'state', 'self_update_state']
ASSUMPTIONS = ['LRU caches are modelled as association lists without eviction (capacities are far above the explored sizes)',
               'parking_lot RwLock = direct access (single thread)', 'record payload fields not named in the obligation are opaque symbolic values']


def ts(bv):
    return Agg('struct', 'nostr::Timestamp', None, [bv])


def eid(bv):
    return Agg('struct', 'nostr::event::EventId', None, [bv])


def msg_state(ob, name):
    return Agg('enum', 'mdk_storage_traits::messages::types::MessageState', 'mdk_storage_traits::messages::types::MessageState::' + name, [])


def message(tag, gid, state=None, epoch=None):
    """Message with symbolic sort keys, id, epoch and state"""
    f = {'id': eid(z3.BitVec(f'{tag}_id', 256)), 'pubkey': Opaque(f'{tag}_pk', 'nostr::PublicKey'), 'kind': Opaque(f'{tag}_kind', 'nostr::Kind'), 'mls_group_id': gid,
         'created_at': ts(z3.BitVec(f'{tag}_c', 64)), 'processed_at': ts(z3.BitVec(f'{tag}_p', 64)), 'content': StrV(sym=f'{tag}_content'), 'tags': Opaque(f'{tag}_tags', 'nostr::Tags'),
         'event': Opaque(f'{tag}_event', 'nostr::UnsignedEvent'), 'wrapper_event_id': eid(z3.BitVec(f'{tag}_w', 256)),
         'epoch': epoch if epoch is not None else Opaque(f'{tag}_epoch', 'std::option::Option<u64>'),
         'state': state if state is not None else Opaque(f'{tag}_state', 'mdk_storage_traits::messages::types::MessageState')}
    return Agg('struct', 'mdk_storage_traits::messages::types::Message', None, [f[n] for n in MSG_FIELDS], list(MSG_FIELDS))


def mfield(m, name):
    return m.fields[(m.names or MSG_FIELDS).index(name)]


def key_of(m):
    return mfield(m, 'created_at').fields[0], mfield(m, 'processed_at').fields[0], mfield(m, 'id').fields[0]


def group(tag, gid, nostr_id=None):
    f = {n: Opaque(f'{tag}_{n}', '?') for n in GROUP_FIELDS}
    f['mls_group_id'] = gid
    f['nostr_group_id'] = nostr_id if nostr_id is not None else Opaque(f'{tag}_nid', '[u8; 32]')
    f['epoch'] = z3.BitVec(f'{tag}_epoch', 64)
    f['state'] = Opaque(f'{tag}_state', 'mdk_storage_traits::groups::types::GroupState')
    return Agg('struct', 'mdk_storage_traits::groups::types::Group', None, [f[n] for n in GROUP_FIELDS], list(GROUP_FIELDS))


def storage(st, caches, limits=None):
    """caches: {inner field name: MapV}; everything else is an empty map / opaque MLS store"""
    inner = []
    for n in INNER_FIELDS:
        if n in caches:
            inner.append(copy_val(caches[n]))          # the store holds copies: the harness' own records stay the reference values, whichever path mutates the store
        elif n.startswith('mls_'):
            inner.append(Opaque(n, n))
        else:
            inner.append(MapV([], 'LruCache'))
    LIM = ['cache_size', 'max_relays_per_group', 'max_messages_per_group', 'max_group_name_length', 'max_group_description_length', 'max_admins_per_group', 'max_relays_per_welcome',
           'max_admins_per_welcome', 'max_relay_url_length']
    lv = dict(zip(LIM, (z3.BitVecVal(x, 64) for x in (1000, 100, 10000, 256, 4096, 100, 100, 100, 512))))
    lv.update(limits or {})
    limits = Agg('struct', 'ValidationLimits', None, [lv[k] for k in LIM], list(LIM))
    s = Agg('struct', 'MdkMemoryStorage', None, [limits, Agg('struct', 'RwLock', None, [Agg('struct', 'MdkMemoryStorageInner', None, inner, list(INNER_FIELDS))]),
                                                Agg('struct', 'RwLock', None, [MapV([], 'HashMap')])])
    return Ref(st.temp(s), ())


def inner_of(eng, st, sref):
    s = eng.read(st, sref.loc, sref.path)
    return s.fields[1].fields[0]


def cache(eng, st, sref, name):
    return inner_of(eng, st, sref).fields[INNER_FIELDS.index(name)]
