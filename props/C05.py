"""C05 — only admins change roster or group data; identities never change (kernel level, engine E3)."""
import z3

from mirsym.api import (Ob, guard, ev_is, is_write, vname, ret_shape, derived_from, uid_of, deref, describe_path, Opaque, Agg, Ref,
                        STORAGE_WRITES, MLS_MUTATORS)
from mirsym import contracts as C
from mirsym import models as M

EXPLANATION = ('Symbolic execution (z3) of the MIR of the commit/proposal validators and processors in mdk-core, regenerated from the '
               'working tree. Every feasible path through each function is enumerated (OpenMLS and storage calls are '
               'nondeterministic environment stubs returning any value of their type; proposal lists are bounded symbolic sequences) and '
               'the authorisation truth table, the self-update whitelist, validate-before-apply ordering, proposal handling and identity '
               'checks are asserted on every path.')
TRUSTED = ['rustc nightly MIR dump (-Zunpretty=mir) of the working tree', 'mirsym MIR interpreter + std models (mirsym/models.py)',
           'OpenMLS contracts in mirsym/contracts.py', 'z3 4.x']

VALID = 'mdk-core'


def args_vca():
    return [Opaque('self', '&MDK<Storage>'), Opaque('mls_group', '&openmls::group::MlsGroup'), Opaque('staged', '&StagedCommit'),
            Opaque('sender', '&openmls::framing::Sender')]


@guard
def o1(tier):
    """validate_commit_authorization truth table"""
    ob = Ob('O1', 'validate_commit_authorization: Ok <=> member sender, known member, parsable identity, (admin in the CURRENT MLS extension or pure self-update)',
            inline={'parse_credential_identity'}, pure=C.PURE_MLS)
    f = ob.fn(VALID, 'validation::validate_commit_authorization')
    paths = ob.explore(f, args_vca())
    ob.r.bounds = {'paths': 'all', 'callee results': 'arbitrary (uninterpreted)', 'credential identity length': 'symbolic u64'}
    ob.r.assumptions += ['environment: member_at, BasicCredential::try_from, from_group, BTreeSet::contains, is_pure_self_update_commit return arbitrary values']
    n_ok = n_admin = n_pure = 0
    for p in paths:
        sh = ret_shape(p.ret)
        st = p.st
        if p.kind == 'panic':
            ob.require(False, 'O1/panic', f'validate_commit_authorization can panic: {p.msg}', p)
            continue
        sender_d = z3.BitVec('*sender#d', 64)
        ev = {e.short.split('::')[-1]: e for e in p.trace}
        if sh[0] == 'Ok':
            n_ok += 1
            # sender is Member
            ob.prove(p, sender_d == 0, 'O1/ok-nonmember-sender', 'returns Ok for a sender that is not Sender::Member')
            need = ['member_at', 'from_group', 'contains', 'is_pure_self_update_commit']
            miss = [n for n in need if n not in ev]
            if not ob.require(not miss, 'O1/ok-missing-check', f'Ok path without {miss}', p):
                continue
            ob.prove(p, ev['member_at'].ret.discriminant() == 1, 'O1/ok-unknown-member', 'returns Ok although member_at() is None')
            c, pu = ev['contains'].ret, ev['is_pure_self_update_commit'].ret
            ob.prove(p, z3.Or(c, pu), 'O1/ok-non-admin-non-pure', 'returns Ok although the sender is not an admin and the commit is not a pure self-update')
            if ob.eng.prove(p, c)[0]:
                n_admin += 1
            else:
                n_pure += 1
            # the admin set consulted is the one parsed from the MLS group passed in (current epoch), not a stored record
            fg = ev['from_group']
            ob.require(uid_of(ob.eng, st, fg.args[0]) == 'mls_group', 'O1/ext-source', 'admin set is not read from the current MLS group state', p)
            ob.require(derived_from(ob.eng, st, ev['contains'].args[0], fg), 'O1/admin-set-source',
                       'the set searched for the sender is not the admins of the extension parsed from the MLS group', p)
            # the key looked up is the identity parsed from the credential of the member at the sender's leaf
            ob.require(derived_from(ob.eng, st, ev['contains'].args[1], ev.get('from_slice', ev['member_at'])), 'O1/admin-key-source',
                       'the key looked up in the admin set is not the public key parsed from the sender credential', p)
            tf = ev.get('try_from')
            ob.require(tf is not None and derived_from(ob.eng, st, tf.args[0], ev['member_at']), 'O1/credential-source',
                       'the credential checked is not the one of member_at(sender leaf)', p)
            ob.require(uid_of(ob.eng, st, ev['member_at'].args[1]).startswith('*sender'), 'O1/leaf-source',
                       'member_at is not called with the leaf index of the commit sender', p)
            ob.require(uid_of(ob.eng, st, ev['is_pure_self_update_commit'].args[1]) == 'staged'
                       and uid_of(ob.eng, st, ev['is_pure_self_update_commit'].args[2]).startswith('*sender'),
                       'O1/pure-args', 'is_pure_self_update_commit is not applied to this staged commit and this sender', p)
        else:
            # Err paths: classify
            if 'contains' in ev and 'is_pure_self_update_commit' in ev:
                c, pu = ev['contains'].ret, ev['is_pure_self_update_commit'].ret
                ob.prove(p, z3.And(z3.Not(c), z3.Not(pu)), 'O1/err-although-authorised', 'returns Err although admin or pure self-update')
                ob.require(sh == ('Err', 'CommitFromNonAdmin'), 'O1/err-kind', f'non-admin non-pure commit yields {sh} instead of CommitFromNonAdmin', p)
            holds, _ = ob.eng.prove(p, sender_d != 0)
            if holds:
                ob.require(sh == ('Err', 'MessageFromNonMember') and not p.trace, 'O1/nonmember-kind',
                           f'non-member sender yields {sh} with calls {[e.short for e in p.trace]}', p)
        for e in p.trace:
            ob.require(not is_write(e), 'O1/side-effect', f'validator performs a state-changing call {e.short}', p)
    ob.require(n_admin >= 1 and n_pure >= 1, 'O1/vacuity', f'expected both an admin and a pure-self-update Ok path (admin={n_admin}, pure={n_pure})')
    ob.r.vacuity.append(f'{len(paths)} feasible paths, {n_ok} Ok ({n_admin} via admin, {n_pure} via pure self-update)')
    ob.sample({'function': 'validate_commit_authorization', 'paths': [dict(result=str(ret_shape(p.ret)), calls=[e.short for e in p.trace]) for p in paths[:6]]})
    return ob.done(cases=len(paths))


@guard
def o2(tier):
    """is_pure_self_update_commit over bounded symbolic proposal lists"""
    K = 3 if tier == 'quick' else 4
    ob = Ob('O2', f'is_pure_self_update_commit == (path or some Update) and all proposals are Update and every Update is sent by the committer, lists <= {K}',
            models=C.staged_commit_models(K), pure=C.PURE_MLS, loop_bound=K + 3)
    f = ob.fn(VALID, 'validation::is_pure_self_update_commit')
    args = [Opaque('self', '&MDK<Storage>'), Opaque('staged', '&StagedCommit'), Opaque('committer', '&openmls::prelude::LeafNodeIndex')]
    paths = ob.explore(f, args)
    ob.r.bounds = {'proposal list length': f'0..{K}', 'proposal kinds': 'all 9 openmls::Proposal variants (symbolic discriminant)',
                   'senders': 'symbolic Sender (4 variants), symbolic leaf index (u32)'}
    ob.r.assumptions += C.CONTRACT_TEXT[:2]
    upd = ob.prog.cat.variants('Proposal', 'openmls::messages::proposals').index('Update')
    n_true = 0
    lens = set()
    committer = Opaque('committer', '&openmls::prelude::LeafNodeIndex')
    for p in paths:
        if p.kind == 'panic':
            ob.require(False, 'O2/panic', f'can panic: {p.msg}', p); continue
        st = p.st
        lst = st.ext.get('props', {}).get('staged')
        path_leaf = [e for e in p.trace if ev_is(e, 'update_path_leaf_node')]
        has_path = (path_leaf[0].ret.discriminant() == 1) if path_leaf else None
        ret = p.ret
        if lst is None or has_path is None:
            ob.prove(p, z3.Not(ret), 'O2/true-without-looking', 'returns true without inspecting the update path and the proposal list')
            continue
        lens.add(len(lst))
        kinds = [q['kind'] for q in lst]
        own = []
        for q in lst:
            s = st.heap[f'staged.qp[{q["j"]}].sender']
            li = s.child('Member', 0, 'openmls::prelude::LeafNodeIndex')
            own.append(z3.And(s.discriminant() == 0, M.val_eq(ob.eng, li, committer)))
        some_upd = z3.Or([k == upd for k in kinds]) if kinds else z3.BoolVal(False)
        spec = z3.And(z3.Or(has_path, some_upd), *[z3.And(k == upd, o) for k, o in zip(kinds, own)])
        ob.prove(p, z3.Implies(ret, spec), 'O2/true-too-permissive',
                 'returns true for a commit that is not (update path or Update) with only Update proposals all sent by the committer')
        ob.prove(p, z3.Implies(spec, ret), 'O2/false-too-strict', 'returns false for a commit that satisfies the pure self-update specification')
        if ob.eng.prove(p, ret)[0]:
            n_true += 1
    ob.require(n_true >= 2, 'O2/vacuity', f'expected true paths (got {n_true})')
    ob.require(lens >= set(range(K + 1)), 'O2/vacuity-lengths', f'list lengths explored {sorted(lens)}')
    ob.r.vacuity.append(f'{len(paths)} paths, {n_true} returning true, list lengths {sorted(lens)}')
    ob.sample({'function': 'is_pure_self_update_commit', 'example_paths': [dict(pc=[str(c)[:80] for c in p.pc[:8]], ret=str(p.ret)) for p in paths[:4]]})
    return ob.done(cases=len(paths))


def field_uid(base, *idx):
    return base + ''.join(f'.{i}' for i in idx)


def ev_index(p, e):
    for i, x in enumerate(p.trace):
        if x is e:
            return i
    return -1


def first(p, *names):
    for i, e in enumerate(p.trace):
        if ev_is(e, *names):
            return i, e
    return None, None


def all_ev(p, *names):
    return [(i, e) for i, e in enumerate(p.trace) if ev_is(e, *names)]


def res_ok(ob, p, e):
    """pc => e returned Ok"""
    if e is None:
        return False
    return ob.eng.prove(p, e.ret.discriminant() == 0)[0]


@guard
def o3(tier):
    """process_commit: validate before snapshot before merge; rejection leaves nothing behind"""
    ob = Ob('O3', 'process_commit: both validators and the snapshot precede the merge; any of them failing returns Err with no state-changing call; eviction path only deactivates',
            pure=C.PURE_MLS)
    f = ob.fn(VALID, 'commit::process_commit')
    args = [Opaque('self', '&MDK<Storage>'), Opaque('mls_group', '&mut openmls::group::MlsGroup'), Opaque('event', '&nostr::Event'),
            Opaque('staged_commit', 'StagedCommit'), Opaque('sender', '&openmls::framing::Sender')]
    paths = ob.explore(f, args)
    ob.r.bounds = {'paths': 'all', 'callees': 'uninterpreted, any result'}
    n_merge = n_evict = n_full = 0
    for p in paths:
        if p.kind == 'panic':
            ob.require(False, 'O3/panic', f'process_commit can panic: {p.msg}', p); continue
        sh = ret_shape(p.ret)
        ia, ea = first(p, 'validate_commit_authorization')
        ii, ei = first(p, 'validate_commit_identities')
        isn, es = first(p, 'EpochSnapshotManager::create_snapshot')
        im, em = first(p, 'merge_staged_commit')
        writes = [(i, e) for i, e in enumerate(p.trace) if is_write(e)]
        if im is not None:
            n_merge += 1
            ok = ob.require(None not in (ia, ii, isn) and ia < im and ii < im and isn < im and ia < isn and ii < isn, 'O3/order',
                            f'merge not preceded by authorization, identity validation and snapshot: {[e.short for e in p.trace]}', p)
            if ok:
                ob.require(res_ok(ob, p, ea) and res_ok(ob, p, ei), 'O3/merge-after-failed-validation', 'merge reached although a validator returned Err', p)
                ob.require(res_ok(ob, p, es), 'O3/merge-after-failed-snapshot', 'merge reached although create_snapshot returned Err', p)
                # arguments of the snapshot: pre-merge epoch of this group, wrapper id and created_at
                ep = [e for e in p.trace[:isn] if ev_is(e, 'MlsGroup::epoch')]
                ob.require(bool(ep) and 'as_u64' in uid_of(ob.eng, p.st, es.args[3]) and uid_of(ob.eng, p.st, ep[-1].ret) in uid_of(ob.eng, p.st, es.args[3]),
                           'O3/snapshot-epoch', 'snapshot epoch is not the epoch read from the MLS group before the merge', p)
                ob.require(uid_of(ob.eng, p.st, es.args[4]) == '*event.0', 'O3/snapshot-id', f'snapshot commit id is not the wrapper event id ({uid_of(ob.eng, p.st, es.args[4])})', p)
                ob.require('*event.2' in uid_of(ob.eng, p.st, es.args[5]), 'O3/snapshot-ts', f'snapshot timestamp is not the wrapper created_at ({uid_of(ob.eng, p.st, es.args[5])})', p)
                ob.require(uid_of(ob.eng, p.st, ea.args[2]) == uid_of(ob.eng, p.st, em.args[2]) and uid_of(ob.eng, p.st, ei.args[2]) == uid_of(ob.eng, p.st, em.args[2]),
                           'O3/validated-other-commit', 'the staged commit validated is not the one merged', p)
            # after the merge
            io, eo = first(p, 'own_leaf')
            if res_ok(ob, p, em) and io is not None:
                evicted = ob.eng.prove(p, eo.ret.discriminant() == 0)[0]
                post = [e for i, e in writes if i > im]
                if evicted:
                    n_evict += 1
                    ob.require([e.short.split('::')[-1] for e in post] == ['handle_local_member_eviction'], 'O3/eviction-path',
                               f'after own removal expected only handle_local_member_eviction, got {[e.short for e in post]}', p)
                    ob.require(not [e for e in p.trace[im:] if ev_is(e, 'exporter_secret')], 'O3/evicted-exports-secret', 'exporter secret requested after own eviction', p)
                elif sh[0] == 'Ok':
                    n_full += 1
                    names = [e.short.split('::')[-1] for e in p.trace[im + 1:] if ev_is(e, 'exporter_secret', 'sync_group_metadata_from_mls', 'save_processed_message_record')]
                    ob.require(names == ['exporter_secret', 'sync_group_metadata_from_mls', 'save_processed_message_record'], 'O3/post-merge-sequence',
                               f'post-merge bookkeeping is {names}', p)
                    rec = [e for e in p.trace if ev_is(e, 'create_processed_message_record')]
                    ob.require(bool(rec) and vname(rec[-1].args[4]) == 'ProcessedCommit', 'O3/record-state', 'commit is not recorded as ProcessedCommit', p)
        else:
            ob.require(sh[0] == 'Err', 'O3/ok-without-merge', f'returns {sh} without merging', p)
            allowed = [e for i, e in writes if not ev_is(e, 'EpochSnapshotManager::create_snapshot')]
            ob.require(not allowed, 'O3/reject-with-effects', f'rejected commit performed {[e.short for e in allowed]}', p)
            if ia is not None and not res_ok(ob, p, ea):
                ob.require(isn is None and ii is None, 'O3/continue-after-authz-failure', 'processing continues after authorization failed', p)
            if isn is not None:
                ob.require(res_ok(ob, p, ea) and ii is not None and res_ok(ob, p, ei), 'O3/snapshot-before-validation', 'snapshot taken before validation succeeded', p)
    ob.require(n_merge and n_evict and n_full, 'O3/vacuity', f'merge={n_merge} evict={n_evict} full={n_full}')
    ob.r.vacuity.append(f'{len(paths)} paths: {n_merge} reach the merge, {n_evict} eviction, {n_full} complete')
    ob.sample({'function': 'process_commit', 'paths': [dict(result=str(ret_shape(p.ret)), calls=[e.short for e in p.trace if not ev_is(e, 'MDK::storage')]) for p in paths[:5]]})
    return ob.done(cases=len(paths))


@guard
def o4(tier):
    """process_proposal: proposals never take effect by themselves"""
    ob = Ob('O4', 'process_proposal: nothing is committed except an admin receiver auto-committing a member\'s own leave; Add/Remove are only queued; others ignored; non-members refused',
            pure=C.PURE_MLS | {'QueuedProposal::sender', 'QueuedProposal::proposal'}, inline={'store_pending_proposal', 'mark_processed', 'auto_commit_proposal'})
    f = ob.fn(VALID, 'proposal::process_proposal')
    args = [Opaque('self', '&MDK<Storage>'), Opaque('mls_group', '&mut openmls::group::MlsGroup'), Opaque('event', '&nostr::Event'),
            Opaque('staged_proposal', 'openmls::group::QueuedProposal')]
    paths = ob.explore(f, args)
    kinds = ob.prog.cat.variants('Proposal', 'openmls::messages::proposals')
    n_auto = n_pending = n_ignored = 0
    for p in paths:
        if p.kind == 'panic':
            ob.require(False, 'O4/panic', f'process_proposal can panic: {p.msg}', p); continue
        sh = ret_shape(p.ret)
        st = p.st
        sender_d = z3.BitVec('*QueuedProposal::sender(staged_proposal)#d', 64)
        kind_d = z3.BitVec('*QueuedProposal::proposal(staged_proposal)#d', 64)
        commits = all_ev(p, 'commit_to_pending_proposals', 'merge_pending_commit', 'merge_staged_commit')
        stores = all_ev(p, 'store_pending_proposal')
        mls_mut = [e for e in p.trace if ev_is(e, *MLS_MUTATORS)]
        adm = [e for e in p.trace if ev_is(e, 'is_leaf_node_admin')]
        if commits:
            n_auto += 1
            ob.prove(p, z3.And(sender_d == 0, kind_d == kinds.index('Remove')), 'O4/autocommit-kind', 'a proposal other than a member Remove is auto-committed')
            ob.require(bool(adm) and ob.eng.prove(p, z3.And(adm[0].ret.discriminant() == 0, adm[0].ret.child('Ok', 0, 'bool')))[0], 'O4/autocommit-nonadmin',
                       'auto-commit by a receiver that is not an admin', p)
            # remover == removed
            eqs = [c for c in p.pc if 'RemoveProposal::removed' in str(c) and 'eq(' in str(c)]
            ob.require(any(not str(c).startswith('Not(') for c in eqs), 'O4/autocommit-not-self-remove', 'auto-commit of a Remove proposal that is not the sender removing itself', p)
            ob.require(sh == ('Ok', 'Proposal') or sh[0] == 'Err', 'O4/autocommit-result', f'auto-commit returns {sh}', p)
        if stores:
            ob.prove(p, z3.And(sender_d == 0, z3.Or(kind_d == kinds.index('Add'), kind_d == kinds.index('Remove'))), 'O4/stored-kind',
                     'a proposal other than Add/Remove from a member is stored as pending')
            mem = [e for e in p.trace if ev_is(e, 'member_at')]
            ob.require(bool(mem) and ob.eng.prove(p, mem[0].ret.discriminant() == 1)[0], 'O4/stored-from-nonmember', 'proposal stored although the sender leaf is not a member', p)
        if sh == ('Ok', 'PendingProposal'):
            n_pending += 1
            ob.require(bool(stores) and not commits, 'O4/pending-shape', 'PendingProposal result without storing / with a commit', p)
        if sh == ('Ok', 'IgnoredProposal'):
            n_ignored += 1
            ob.require(not mls_mut, 'O4/ignored-with-effects', f'ignored proposal performed {[e.short for e in mls_mut]}', p)
            w = [e.short.split('::')[-1] for e in p.trace if is_write(e)]
            ob.require(set(w) <= {'save_processed_message_record'}, 'O4/ignored-writes', f'ignored proposal wrote {w}', p)
        if sh[0] == 'Err':
            holds_nm = ob.eng.prove(p, sender_d != 0)[0]
            if holds_nm:
                ob.require(not [e for e in p.trace if is_write(e)], 'O4/nonmember-effects', 'non-member proposal had effects', p)
        if ob.eng.prove(p, sender_d != 0)[0]:
            ob.require(sh[0] == 'Err', 'O4/nonmember-accepted', f'proposal from a non-member sender yields {sh}', p)
        mem = [e for e in p.trace if ev_is(e, 'member_at')]
        if mem and ob.eng.prove(p, mem[0].ret.discriminant() == 0)[0]:
            ob.require(sh == ('Err', 'MessageFromNonMember') and not [e for e in p.trace if is_write(e)], 'O4/unknown-member', f'unknown member yields {sh}', p)
    ob.require(n_auto and n_pending and n_ignored, 'O4/vacuity', f'auto={n_auto} pending={n_pending} ignored={n_ignored}')
    ob.r.vacuity.append(f'{len(paths)} paths: auto-commit {n_auto}, pending {n_pending}, ignored {n_ignored}')
    ob.r.bounds = {'paths': 'all', 'proposal kind / sender': 'symbolic discriminants'}
    ob.sample({'function': 'process_proposal', 'paths': [dict(result=str(ret_shape(p.ret)), calls=[e.short for e in p.trace if is_write(e)]) for p in paths[:8]]})
    return ob.done(cases=len(paths))


@guard
def o5(tier):
    """identity of an existing member never changes"""
    K = 2 if tier == 'quick' else 3
    ob = Ob('O5', 'validate_identity_unchanged is Ok iff identities are equal; validate_proposal_identity / validate_commit_identities apply it to every Update proposal and to the update path',
            pure=C.PURE_MLS | {'QueuedProposal::sender', 'QueuedProposal::proposal'}, inline={'parse_credential_identity'})
    # (a) the kernel
    f = ob.fn(VALID, 'validation::validate_identity_unchanged')
    a, b = Opaque('cur', 'nostr::key::PublicKey'), Opaque('new', 'nostr::key::PublicKey')
    paths = ob.explore(f, [a, b])
    eq = M.val_eq(ob.eng, a, b)
    for p in paths:
        ok = (vname(p.ret) == 'Ok')
        ob.prove(p, eq if ok else z3.Not(eq), 'O5/kernel', 'validate_identity_unchanged result does not match identity equality')
        if not ok:
            ob.require(ret_shape(p.ret) == ('Err', 'IdentityChangeNotAllowed'), 'O5/kernel-kind', f'{ret_shape(p.ret)}', p)
    total = len(paths)
    # (b) validate_proposal_identity
    ob.new_engine(pure=C.PURE_MLS, inline={'parse_credential_identity'})
    f = ob.fn(VALID, 'validation::validate_proposal_identity')
    args = [Opaque('self', '&MDK<Storage>'), Opaque('mls_group', '&openmls::group::MlsGroup'), Opaque('proposal', '&openmls::prelude::Proposal'),
            Opaque('sender', '&openmls::framing::Sender')]
    paths = ob.explore(f, args)
    total += len(paths)
    upd = ob.prog.cat.variants('Proposal', 'openmls::messages::proposals').index('Update')
    kind_d, sender_d = z3.BitVec('*proposal#d', 64), z3.BitVec('*sender#d', 64)
    n_checked = 0
    for p in paths:
        sh = ret_shape(p.ret)
        mem = [e for e in p.trace if ev_is(e, 'member_at')]
        viu = [e for e in p.trace if ev_is(e, 'validate_identity_unchanged')]
        is_upd_member = ob.eng.prove(p, z3.And(kind_d == upd, sender_d == 0))[0]
        if sh[0] == 'Ok' and is_upd_member and mem and ob.eng.prove(p, mem[0].ret.discriminant() == 1)[0]:
            n_checked += 1
            if ob.require(len(viu) == 1, 'O5/proposal-unchecked', 'an Update proposal from a known member is accepted without the identity comparison', p):
                ob.require(res_ok(ob, p, viu[0]), 'O5/proposal-check-ignored', 'identity comparison failed but the proposal is accepted', p)
                ua, ub = uid_of(ob.eng, p.st, viu[0].args[0]), uid_of(ob.eng, p.st, viu[0].args[1])
                ob.require('from_slice' in ua and 'from_slice' in ub and ua != ub, 'O5/proposal-compare-args', f'compares {ua} with {ub}', p)
                ids = [e for e in p.trace if ev_is(e, 'BasicCredential::identity')]
                srcs = [uid_of(ob.eng, p.st, e.args[0]) for e in ids]
                ob.require(len(ids) == 2, 'O5/proposal-identities', f'identities read: {srcs}', p)
                tf = [e for e in p.trace if ev_is(e, 'try_from')]
                s0 = [uid_of(ob.eng, p.st, e.args[0]) for e in tf]
                ob.require(len(tf) == 2 and 'member_at' in s0[0] and ('leaf_node' in s0[1] or 'LeafNode' in s0[1]), 'O5/proposal-sources',
                           f'credentials compared come from {s0}', p)
        if viu and not res_ok(ob, p, viu[0]):
            ob.require(sh[0] == 'Err', 'O5/proposal-err-swallowed', 'identity change detected but Ok returned', p)
    ob.require(n_checked >= 1, 'O5/vacuity-proposal', 'no accepted Update path')
    # (c) validate_commit_identities over bounded lists
    ob.new_engine(pure=C.PURE_MLS, inline={'parse_credential_identity'}, models=C.staged_commit_models(K), loop_bound=K + 3)
    f = ob.fn(VALID, 'validation::validate_commit_identities')
    args = [Opaque('self', '&MDK<Storage>'), Opaque('mls_group', '&openmls::group::MlsGroup'), Opaque('staged', '&StagedCommit'),
            Opaque('sender', '&openmls::framing::Sender')]
    paths = ob.explore(f, args)
    total += len(paths)
    n_ok = 0
    for p in paths:
        if p.kind == 'panic':
            ob.require(False, 'O5/panic', p.msg, p); continue
        sh = ret_shape(p.ret)
        lst = p.st.ext.get('props', {}).get('staged')
        vpi = [e for e in p.trace if ev_is(e, 'validate_proposal_identity')]
        viu = [e for e in p.trace if ev_is(e, 'validate_identity_unchanged')]
        pl = [e for e in p.trace if ev_is(e, 'update_path_leaf_node')]
        if sh[0] == 'Ok':
            n_ok += 1
            if not ob.require(lst is not None and pl, 'O5/commit-not-inspected', 'Ok without inspecting proposals and update path', p):
                continue
            n_upd = sum(1 for q in lst if ob.eng.prove(p, q['kind'] == upd)[0])
            n_maybe = sum(1 for q in lst if not ob.eng.prove(p, q['kind'] != upd)[0])
            ob.require(n_upd == n_maybe and len(vpi) == n_upd, 'O5/commit-update-unchecked', f'{n_upd} Update proposals but {len(vpi)} identity validations', p)
            for e in vpi:
                ob.require(res_ok(ob, p, e), 'O5/commit-proposal-err-ignored', 'an Update proposal failed identity validation but the commit is accepted', p)
            has_path = ob.eng.prove(p, pl[0].ret.discriminant() == 1)[0]
            mem = [e for e in p.trace if ev_is(e, 'member_at')]
            if has_path and ob.eng.prove(p, z3.BitVec('*sender#d', 64) == 0)[0] and mem and ob.eng.prove(p, mem[0].ret.discriminant() == 1)[0]:
                if ob.require(len(viu) == 1, 'O5/path-unchecked', 'update path accepted without identity comparison', p):
                    ob.require(res_ok(ob, p, viu[0]), 'O5/path-check-ignored', 'update path identity comparison failed but accepted', p)
                    ua, ub = uid_of(ob.eng, p.st, viu[0].args[0]), uid_of(ob.eng, p.st, viu[0].args[1])
                    ob.require(ua != ub and 'from_slice' in ua and 'from_slice' in ub, 'O5/path-compare-args', f'{ua} vs {ub}', p)
        for e in vpi + viu:
            if not res_ok(ob, p, e) and ob.eng.prove(p, e.ret.discriminant() == 1)[0]:
                ob.require(sh[0] == 'Err', 'O5/commit-err-swallowed', 'identity validation failed but Ok returned', p)
    ob.require(n_ok >= 2, 'O5/vacuity-commit', f'ok paths {n_ok}')
    ob.r.bounds = {'update proposals per commit': f'0..{K}', 'paths': 'all'}
    ob.r.assumptions += C.CONTRACT_TEXT
    ob.r.vacuity.append(f'{total} paths over three functions; {n_checked} accepted Update proposals, {n_ok} accepted commits')
    return ob.done(cases=total)


@guard
def o6(tier):
    """sender side: the admin check dominates every roster / group-data mutation"""
    ob = Ob('O6', 'add_members / remove_members / update_group_data_extension: is_leaf_node_admin(own leaf) == Ok(true) precedes the OpenMLS mutation; is_leaf_node_admin reads the current MLS extension',
            pure=C.PURE_MLS, loop_bound=4)
    total = 0
    specs = [('groups::add_members', ['&MDK<Storage>', '&mdk_storage_traits::GroupId', '&[nostr::Event]'], 'add_members'),
             ('groups::remove_members', ['&MDK<Storage>', '&mdk_storage_traits::GroupId', '&[nostr::key::PublicKey]'], 'remove_members'),
             ('groups::update_group_data_extension', ['&MDK<Storage>', '&mut openmls::group::MlsGroup', '&mdk_storage_traits::GroupId', '&NostrGroupDataExtension'], 'update_group_context_extensions')]
    hits = 0
    for spec, tys, mut in specs:
        f = ob.fn(VALID, spec)
        args = [Opaque(f'a{i}', t) for i, t in enumerate(tys)]
        paths = ob.explore(f, args)
        total += len(paths)
        for p in paths:
            if p.kind == 'panic':
                continue
            muts = [(i, e) for i, e in enumerate(p.trace) if ev_is(e, mut)]
            if not muts:
                continue
            hits += 1
            i0 = muts[0][0]
            adm = [(i, e) for i, e in enumerate(p.trace[:i0]) if ev_is(e, 'is_leaf_node_admin')]
            if not ob.require(bool(adm), f'O6/{mut}/no-admin-check', f'{mut} reached without is_leaf_node_admin', p):
                continue
            e = adm[-1][1]
            ob.require(ob.eng.prove(p, z3.And(e.ret.discriminant() == 0, e.ret.child('Ok', 0, 'bool')))[0], f'O6/{mut}/check-ignored',
                       f'{mut} reached although is_leaf_node_admin did not return Ok(true)', p)
            ob.require('own_leaf' in uid_of(ob.eng, p.st, e.args[2]), f'O6/{mut}/wrong-leaf', f'admin check on {uid_of(ob.eng, p.st, e.args[2])}, not the own leaf', p)
    ob.require(hits >= 3, 'O6/vacuity', f'mutating paths found: {hits}')
    # is_leaf_node_admin itself
    ob.new_engine(pure=C.PURE_MLS)
    f = ob.fn(VALID, 'groups::is_leaf_node_admin')
    paths = ob.explore(f, [Opaque('self', '&MDK<Storage>'), Opaque('group_id', '&mdk_storage_traits::GroupId'), Opaque('leaf', '&openmls::treesync::LeafNode')])
    total += len(paths)
    n = 0
    for p in paths:
        if vname(p.ret) != 'Ok':
            continue
        n += 1
        c = [e for e in p.trace if ev_is(e, 'contains')]
        fg = [e for e in p.trace if ev_is(e, 'from_group')]
        lg = [e for e in p.trace if ev_is(e, 'load_mls_group')]
        pk = [e for e in p.trace if ev_is(e, 'pubkey_for_leaf_node')]
        if ob.require(len(c) == 1 and len(fg) == 1 and len(lg) == 1 and len(pk) == 1, 'O6/admin-shape', f'{[e.short for e in p.trace]}', p):
            ob.prove(p, p.ret.fields[0] == c[0].ret, 'O6/admin-result', 'is_leaf_node_admin result is not the membership test')
            ob.require(derived_from(ob.eng, p.st, fg[0].args[0], lg[0]), 'O6/admin-ext-source', 'extension not parsed from the loaded MLS group', p)
            ob.require(derived_from(ob.eng, p.st, c[0].args[0], fg[0]) and derived_from(ob.eng, p.st, c[0].args[1], pk[0]), 'O6/admin-args', 'membership test on wrong set/key', p)
            ob.require(uid_of(ob.eng, p.st, lg[0].args[1]) == 'group_id' and uid_of(ob.eng, p.st, pk[0].args[1]) == 'leaf', 'O6/admin-inputs', 'wrong group / leaf', p)
    ob.require(n >= 1, 'O6/vacuity2', 'no Ok path in is_leaf_node_admin')
    ob.r.bounds = {'paths': 'all', 'loops over key packages / members': 'unrolled to 2 elements'}
    ob.r.vacuity.append(f'{total} paths, {hits} reach an OpenMLS roster/data mutation')
    return ob.done(cases=total)


SWEEP_CONTRACT = ('OpenMLS 0.8: MlsGroup::{add_members, remove_members, update_group_context_extensions, self_update, self_update_with_new_signer, '
                  'commit_to_pending_proposals} build their commit with CommitBuilder::consume_proposal_store(true) (the default): every proposal '
                  'in the group\'s proposal store is committed together with the operation (read from openmls-0.8.1 src/group/mls_group/{updates,processing,commit_builder}.rs)')


@guard
def o7(tier):
    """an admin's own operation changes exactly what it names: it must not carry out roster changes merely proposed by someone else"""
    ob = Ob('O7', 'sender side: no add_members / remove_members / update_group_data / self_update commits roster changes that another member merely proposed: either process_proposal never '
                  'puts a foreign Add/Remove proposal into the OpenMLS proposal store, or the operation empties the store (clear_pending_proposals) before it builds its commit',
            pure=C.PURE_MLS | {'QueuedProposal::sender', 'QueuedProposal::proposal'}, inline={'store_pending_proposal', 'mark_processed', 'auto_commit_proposal'}, loop_bound=4)
    ob.r.assumptions.append(SWEEP_CONTRACT)
    # (a) does the receive side queue roster changes proposed by somebody else?
    f = ob.fn(VALID, 'proposal::process_proposal')
    args = [Opaque('self', '&MDK<Storage>'), Opaque('mls_group', '&mut openmls::group::MlsGroup'), Opaque('event', '&nostr::Event'),
            Opaque('staged_proposal', 'openmls::group::QueuedProposal')]
    kinds = ob.prog.cat.variants('Proposal', 'openmls::messages::proposals')
    kind_d = z3.BitVec('*QueuedProposal::proposal(staged_proposal)#d', 64)
    foreign = []
    total = 0
    for p in ob.explore(f, args):
        total += 1
        if p.kind != 'return' or not [e for e in p.trace if ev_is(e, 'MlsGroup::store_pending_proposal') or (ev_is(e, 'store_pending_proposal') and 'openmls' in e.fn)]:
            continue
        if ob.eng.prove(p, kind_d == kinds.index('Add'))[0]:
            foreign.append('Add')
        elif ob.eng.prove(p, kind_d == kinds.index('Remove'))[0]:
            eqs = [c for c in p.pc if 'RemoveProposal::removed' in str(c) and 'eq(' in str(c)]
            if any(str(c).startswith('Not(') for c in eqs):
                foreign.append('Remove of another member')
    ob.r.vacuity.append(f'process_proposal queues into the OpenMLS proposal store: {sorted(set(foreign)) or "nothing foreign"}')
    # the one automatic case (an admin committing a member's own leave) commits the whole store as well
    for p in ob.explore(f, args):
        if p.kind != 'return':
            continue
        cm = [(i, e) for i, e in enumerate(p.trace) if ev_is(e, 'commit_to_pending_proposals')]
        if cm:
            cleared = [e for e in p.trace[:cm[0][0]] if ev_is(e, 'clear_pending_proposals')]
            ob.require(bool(cleared) or not foreign, 'O7/fn=auto_commit_proposal/sweeps-pending-proposals',
                       f'auto-commit of a member\'s leave uses commit_to_pending_proposals while the store may hold {sorted(set(foreign))} proposals of OTHER members queued earlier: they are committed with it', p)
    # (b) every sender-side operation whose OpenMLS call consumes the proposal store
    ob.new_engine(pure=C.PURE_MLS, loop_bound=4)
    specs = [('groups::add_members', ['&MDK<Storage>', '&mdk_storage_traits::GroupId', '&[nostr::Event]'], ('add_members',)),
             ('groups::remove_members', ['&MDK<Storage>', '&mdk_storage_traits::GroupId', '&[nostr::key::PublicKey]'], ('remove_members',)),
             ('groups::update_group_data_extension', ['&MDK<Storage>', '&mut openmls::group::MlsGroup', '&mdk_storage_traits::GroupId', '&NostrGroupDataExtension'], ('update_group_context_extensions',)),
             ('groups::self_update', ['&MDK<Storage>', '&mdk_storage_traits::GroupId'], ('MlsGroup::self_update', 'self_update_with_new_signer'))]
    hits = 0
    for spec, tys, muts in specs:
        fn = ob.fn(VALID, spec)
        for p in ob.explore(fn, [Opaque(f'a{i}', t) for i, t in enumerate(tys)]):
            total += 1
            if p.kind == 'panic':
                continue
            ms = [(i, e) for i, e in enumerate(p.trace) if ev_is(e, *muts) and 'openmls' in e.fn]
            if not ms:
                continue
            hits += 1
            i0 = ms[0][0]
            cleared = [e for e in p.trace[:i0] if ev_is(e, 'clear_pending_proposals')]
            ob.require(bool(cleared) or not foreign, f'O7/fn={fn.short}/sweeps-pending-proposals',
                       f'{fn.short}: builds its commit with {ms[0][1].short} while the proposal store may hold {sorted(set(foreign))} proposals queued by process_proposal from OTHER members '
                       '("pending for admin approval"): OpenMLS commits them together with the operation, so the admin carries out roster changes it did not name', p)
    ob.require(hits >= 4, 'O7/vacuity', f'operations reaching their OpenMLS commit call: {hits}')
    ob.r.bounds = {'paths': 'all', 'loops over key packages / members': 'unrolled to 2 elements'}
    r = ob.done(cases=total)
    from vlib import scen
    scen.confirm(r, 'O7/fn=update_group_data_extension/sweeps-pending-proposals', 'c05', 'c05_admin_rename_does_not_carry_out_a_foreign_remove_proposal')
    return r


@guard
def o8(tier):
    """every commit of ANOTHER member is merged only after both validators accepted it, whatever function performs the merge"""
    from props.C01 import merging_functions, mk_args
    ob = Ob('O8', 'every mdk-core function that merges a staged commit received from the network (merge_staged_commit; function set computed from the MIR call graph): on every path the merge is '
                  'preceded by validate_commit_authorization == Ok and validate_commit_identities == Ok for that commit (no branch merges a foreign commit unvalidated, e.g. the one that removes the receiver)',
            pure=C.PURE_MLS, models=C.staged_commit_models(1), loop_bound=5, inline={'process_commit'})
    ob.eng.model_maps = False
    fs = [f for f in merging_functions(ob.prog) if any('merge_staged_commit' in bl[-1] for bl in f.blocks.values())]
    total = n = 0
    for f in fs:
        for p in ob.explore(f, mk_args(f)):
            total += 1
            if p.kind == 'panic':
                continue
            ms = [(i, e) for i, e in enumerate(p.trace) if e.short.split('::')[-1] == 'merge_staged_commit' and ('openmls' in e.fn or 'MlsGroup' in e.fn)]
            if not ms:
                continue
            n += 1
            i0 = ms[0][0]
            for v in ('validate_commit_authorization', 'validate_commit_identities'):
                ev = [e for e in p.trace[:i0] if ev_is(e, v)]
                ob.require(bool(ev) and res_ok(ob, p, ev[-1]), f'O8/fn={f.short}/merge-without-{v}',
                           f'{f.short}: a staged commit is merged on a path where {v} did not run (or did not succeed) first: a commit that is not authorised can take effect', p)
    ob.require(n >= 1, 'O8/vacuity', 'no path merging a staged commit found')
    ob.r.bounds = {'functions': sorted(f.short for f in fs), 'paths': 'all'}
    return ob.done(cases=total)


@guard
def o9(tier):
    """an admin's removal changes exactly what it names: every leaf of a named identity, and no other"""
    old = M.SEQ_BOUND[0]
    M.SEQ_BOUND[0] = 2 if tier == 'quick' else 3
    try:
        ob = Ob('O9', f'remove_members: every member of the group is examined and the leaves handed to OpenMLS are exactly those whose Nostr identity is among the named keys '
                      f'(member lists of 0..{M.SEQ_BOUND[0]} leaves, two leaves may carry the same identity), in member order', pure=C.PURE_MLS, loop_bound=6)
        f = ob.fn(VALID, 'groups::remove_members')
        paths = ob.explore(f, [Opaque('self', '&MDK<Storage>'), Opaque('gid', '&mdk_storage_traits::GroupId'), Opaque('pubkeys', '&[nostr::key::PublicKey]')])
    finally:
        M.SEQ_BOUND[0] = old
    n = 0
    for p in paths:
        if p.kind != 'return':
            continue
        rm = [e for e in p.trace if ev_is(e, 'remove_members') and 'openmls' in e.fn]
        if not rm:
            continue
        n += 1
        u = lambda v: uid_of(ob.eng, p.st, v)
        pk = [e for e in p.trace if ev_is(e, 'pubkey_for_member')]
        ct = [e for e in p.trace if ev_is(e, 'contains')]
        nmem = z3.BitVec('members#len', 64)
        ob.prove(p, nmem == len(pk), 'O9/member-not-examined', f'remove_members stops after examining {len(pk)} member(s) although the group has more: a further leaf of a named identity is not removed')
        if not ob.require(len(ct) == len(pk), 'O9/shape', f'{len(pk)} members examined, {len(ct)} membership tests', p):
            continue
        lst = rm[0].args[3]
        items = [u(x) for x in lst.items] if hasattr(lst, 'items') else None
        if not ob.require(items is not None, 'O9/leaf-list-shape', f'leaf list is {u(lst)}', p):
            continue
        for j, (e_pk, e_ct) in enumerate(zip(pk, ct)):
            member = u(e_pk.args[1])
            named = ob.eng.prove(p, e_ct.ret)[0] if z3.is_expr(e_ct.ret) else None
            has = any(x.startswith(member + '.') or x.startswith('<' + member + '.') or member in x for x in items)
            if named is True:
                ob.require(has, 'O9/named-leaf-not-removed', f'member {member} carries a named identity but its leaf is not in the list handed to OpenMLS {items}', p)
            elif ob.eng.prove(p, z3.Not(e_ct.ret))[0]:
                ob.require(not has, 'O9/unnamed-leaf-removed', f'member {member} is not named but its leaf is in the removal list {items}', p)
    ob.require(n >= 2, 'O9/vacuity', f'paths reaching the OpenMLS removal: {n}')
    ob.r.bounds = {'members': f'0..{2 if tier == "quick" else 3}', 'paths': 'all'}
    return ob.done(cases=len(paths))


def o10(tier):
    """a refused late commit must not roll anything back after a restart either: hydrated snapshots carry no usable timestamp"""
    from props import C11
    r = C11.o1(tier)
    r.oid = 'O10'
    r.title = 'shared with C11-O1: a snapshot re-loaded after a restart carries timestamp 0 (unknown), so a stale commit that is going to be refused cannot win the MIP-03 comparison and roll the group back first'
    return r


@guard
def o11(tier):
    """add_members adds exactly the members named: every key-package event handed in is parsed, a failure aborts the operation, and what goes to OpenMLS is the list of parse results"""
    from mirsym.values import SeqV
    from mirsym.engine import State
    ob = Ob('O11', 'MDK::add_members (event lists of length 0..2): on every path that reaches MlsGroup::add_members each key-package event of the input was parsed successfully (a failed parse '
                   'returns Err, it is never skipped) and the key packages handed to OpenMLS are exactly the parse results, in order',
            pure=C.PURE_MLS, loop_bound=4)
    f = ob.fn(VALID, 'groups::add_members')
    total = hits = 0
    for n_ev in (0, 1, 2):
        evs = SeqV([Opaque(f'ev{i}', 'nostr::Event') for i in range(n_ev)], 'slice')
        st = State()
        args = [Opaque('self', '&MDK<Storage>'), Opaque('group_id', '&mdk_storage_traits::GroupId'), Ref(st.temp(evs), ())]
        paths = ob.explore(f, args, st)
        total += len(paths)
        for p in paths:
            if p.kind == 'panic':
                ob.require(False, 'O11/panic', p.msg, p); continue
            muts = [e for e in p.trace if ev_is(e, 'add_members') and ('MlsGroup' in e.fn or 'openmls' in e.fn)]
            if not muts:
                continue
            hits += 1
            pk = [e for e in p.trace if ev_is(e, 'parse_key_package')]
            ob.require(len(pk) == n_ev and [uid_of(ob.eng, p.st, e.args[1]).lstrip('*') for e in pk] == [f'ev{i}' for i in range(n_ev)], 'O11/not-every-event-parsed',
                       f'{n_ev} key-package events were handed in, parse_key_package ran on {[uid_of(ob.eng, p.st, e.args[1]) for e in pk]}', p)
            bad = [e for e in pk if not ob.eng.prove(p, e.ret.discriminant() == 0)[0]]
            ob.require(not bad, 'O11/failed-parse-skipped', 'MlsGroup::add_members is reached although a key-package event failed to parse: the member it names is silently left out '
                       '(the call reports success and still sends welcomes for every event)', p)
            kp = muts[0].args[3] if len(muts[0].args) > 3 else None
            items = None
            try:
                v = ob.eng.deref_all(p.st, kp) if hasattr(ob.eng, 'deref_all') else None
            except Exception:
                v = None
            from mirsym.models import deref_all
            try:
                v = deref_all(ob.eng, p.st, kp)
            except Exception:
                v = None
            if isinstance(v, SeqV):
                items = [uid_of(ob.eng, p.st, x) for x in v.items]
            want = [uid_of(ob.eng, p.st, e.ret) + '.Ok.0' for e in pk]
            ob.require(items is not None and items == want, 'O11/key-packages-not-the-parse-results', f'OpenMLS receives {items}, the parse results are {want}', p)
    ob.require(hits >= 3, 'O11/vacuity', f'paths reaching MlsGroup::add_members: {hits}')
    ob.r.bounds = {'key-package events': '0..2 (concrete length, opaque events)', 'paths': 'all'}
    ob.r.vacuity.append(f'{total} paths, {hits} reach MlsGroup::add_members')
    return ob.done(cases=total)


def run(tier, seed, only=None):
    obs = [('O1', o1), ('O2', o2), ('O3', o3), ('O4', o4), ('O5', o5), ('O6', o6), ('O7', o7), ('O8', o8), ('O9', o9), ('O10', o10), ('O11', o11)]
    return [f(tier) for k, f in obs if not only or k in only]
