"""C05 — only admins change roster or group data; identities never change (kernel level, engine E3)."""
import z3

from mirsym.api import (Ob, guard, ev_is, is_write, vname, ret_shape, derived_from, uid_of, deref, describe_path, Opaque, Agg, Ref,
                        STORAGE_WRITES, MLS_MUTATORS)
from mirsym import contracts as C
from mirsym import models as M

EXPLANATION = ('Symbolic execution (z3) of the MIR of the commit/proposal validators and processors in mdk-core, regenerated from the '
               'working tree. Every feasible path through each function is enumerated (OpenMLS and storage calls are '
               'nondeterministic environment stubs returning any value of their type; proposal lists are bounded symbolic sequences) and '
               'the authorisation truth table, the self-update whitelist, validate-before-apply ordering, proposal handling and identity '
               'checks are asserted on every path.')
TRUSTED = ['rustc nightly MIR dump (-Zunpretty=mir) of the working tree', 'mirsym MIR interpreter + std models (mirsym/models.py)',
           'OpenMLS contracts in mirsym/contracts.py', 'z3 4.x']

VALID = 'mdk-core'


def args_vca():
    return [Opaque('self', '&MDK<Storage>'), Opaque('mls_group', '&openmls::group::MlsGroup'), Opaque('staged', '&StagedCommit'),
            Opaque('sender', '&openmls::framing::Sender')]


@guard
def o1(tier):
    """validate_commit_authorization truth table"""
    ob = Ob('O1', 'validate_commit_authorization: Ok <=> member sender, known member, parsable identity, (admin in the CURRENT MLS extension or pure self-update)',
            inline={'parse_credential_identity'}, pure=C.PURE_MLS)
    f = ob.fn(VALID, 'validation::validate_commit_authorization')
    paths = ob.explore(f, args_vca())
    ob.r.bounds = {'paths': 'all', 'callee results': 'arbitrary (uninterpreted)', 'credential identity length': 'symbolic u64'}
    ob.r.assumptions += ['environment: member_at, BasicCredential::try_from, from_group, BTreeSet::contains, is_pure_self_update_commit return arbitrary values']
    n_ok = n_admin = n_pure = 0
    for p in paths:
        sh = ret_shape(p.ret)
        st = p.st
        if p.kind == 'panic':
            ob.require(False, 'O1/panic', f'validate_commit_authorization can panic: {p.msg}', p)
            continue
        sender_d = z3.BitVec('*sender#d', 64)
        ev = {e.short.split('::')[-1]: e for e in p.trace}
        if sh[0] == 'Ok':
            n_ok += 1
            # sender is Member
            ob.prove(p, sender_d == 0, 'O1/ok-nonmember-sender', 'returns Ok for a sender that is not Sender::Member')
            need = ['member_at', 'from_group', 'contains', 'is_pure_self_update_commit']
            miss = [n for n in need if n not in ev]
            if not ob.require(not miss, 'O1/ok-missing-check', f'Ok path without {miss}', p):
                continue
            ob.prove(p, ev['member_at'].ret.discriminant() == 1, 'O1/ok-unknown-member', 'returns Ok although member_at() is None')
            c, pu = ev['contains'].ret, ev['is_pure_self_update_commit'].ret
            ob.prove(p, z3.Or(c, pu), 'O1/ok-non-admin-non-pure', 'returns Ok although the sender is not an admin and the commit is not a pure self-update')
            if ob.eng.prove(p, c)[0]:
                n_admin += 1
            else:
                n_pure += 1
            # the admin set consulted is the one parsed from the MLS group passed in (current epoch), not a stored record
            fg = ev['from_group']
            ob.require(uid_of(ob.eng, st, fg.args[0]) == 'mls_group', 'O1/ext-source', 'admin set is not read from the current MLS group state', p)
            ob.require(derived_from(ob.eng, st, ev['contains'].args[0], fg), 'O1/admin-set-source',
                       'the set searched for the sender is not the admins of the extension parsed from the MLS group', p)
            # the key looked up is the identity parsed from the credential of the member at the sender's leaf
            ob.require(derived_from(ob.eng, st, ev['contains'].args[1], ev.get('from_slice', ev['member_at'])), 'O1/admin-key-source',
                       'the key looked up in the admin set is not the public key parsed from the sender credential', p)
            tf = ev.get('try_from')
            ob.require(tf is not None and derived_from(ob.eng, st, tf.args[0], ev['member_at']), 'O1/credential-source',
                       'the credential checked is not the one of member_at(sender leaf)', p)
            ob.require(uid_of(ob.eng, st, ev['member_at'].args[1]).startswith('*sender'), 'O1/leaf-source',
                       'member_at is not called with the leaf index of the commit sender', p)
            ob.require(uid_of(ob.eng, st, ev['is_pure_self_update_commit'].args[1]) == 'staged'
                       and uid_of(ob.eng, st, ev['is_pure_self_update_commit'].args[2]).startswith('*sender'),
                       'O1/pure-args', 'is_pure_self_update_commit is not applied to this staged commit and this sender', p)
        else:
            # Err paths: classify
            if 'contains' in ev and 'is_pure_self_update_commit' in ev:
                c, pu = ev['contains'].ret, ev['is_pure_self_update_commit'].ret
                ob.prove(p, z3.And(z3.Not(c), z3.Not(pu)), 'O1/err-although-authorised', 'returns Err although admin or pure self-update')
                ob.require(sh == ('Err', 'CommitFromNonAdmin'), 'O1/err-kind', f'non-admin non-pure commit yields {sh} instead of CommitFromNonAdmin', p)
            holds, _ = ob.eng.prove(p, sender_d != 0)
            if holds:
                ob.require(sh == ('Err', 'MessageFromNonMember') and not p.trace, 'O1/nonmember-kind',
                           f'non-member sender yields {sh} with calls {[e.short for e in p.trace]}', p)
        for e in p.trace:
            ob.require(not is_write(e), 'O1/side-effect', f'validator performs a state-changing call {e.short}', p)
    ob.require(n_admin >= 1 and n_pure >= 1, 'O1/vacuity', f'expected both an admin and a pure-self-update Ok path (admin={n_admin}, pure={n_pure})')
    ob.r.vacuity.append(f'{len(paths)} feasible paths, {n_ok} Ok ({n_admin} via admin, {n_pure} via pure self-update)')
    ob.sample({'function': 'validate_commit_authorization', 'paths': [dict(result=str(ret_shape(p.ret)), calls=[e.short for e in p.trace]) for p in paths[:6]]})
    return ob.done(cases=len(paths))


@guard
def o2(tier):
    """is_pure_self_update_commit over bounded symbolic proposal lists"""
    K = 3 if tier == 'quick' else 4
    ob = Ob('O2', f'is_pure_self_update_commit == (path or some Update) and all proposals are Update and every Update is sent by the committer, lists <= {K}',
            models=C.staged_commit_models(K), pure=C.PURE_MLS, loop_bound=K + 3)
    f = ob.fn(VALID, 'validation::is_pure_self_update_commit')
    args = [Opaque('self', '&MDK<Storage>'), Opaque('staged', '&StagedCommit'), Opaque('committer', '&openmls::prelude::LeafNodeIndex')]
    paths = ob.explore(f, args)
    ob.r.bounds = {'proposal list length': f'0..{K}', 'proposal kinds': 'all 9 openmls::Proposal variants (symbolic discriminant)',
                   'senders': 'symbolic Sender (4 variants), symbolic leaf index (u32)'}
    ob.r.assumptions += C.CONTRACT_TEXT[:2]
    upd = ob.prog.cat.variants('Proposal', 'openmls::messages::proposals').index('Update')
    n_true = 0
    lens = set()
    committer = Opaque('committer', '&openmls::prelude::LeafNodeIndex')
    for p in paths:
        if p.kind == 'panic':
            ob.require(False, 'O2/panic', f'can panic: {p.msg}', p); continue
        st = p.st
        lst = st.ext.get('props', {}).get('staged')
        path_leaf = [e for e in p.trace if ev_is(e, 'update_path_leaf_node')]
        has_path = (path_leaf[0].ret.discriminant() == 1) if path_leaf else None
        ret = p.ret
        if lst is None or has_path is None:
            ob.prove(p, z3.Not(ret), 'O2/true-without-looking', 'returns true without inspecting the update path and the proposal list')
            continue
        lens.add(len(lst))
        kinds = [q['kind'] for q in lst]
        own = []
        for q in lst:
            s = st.heap[f'staged.qp[{q["j"]}].sender']
            li = s.child('Member', 0, 'openmls::prelude::LeafNodeIndex')
            own.append(z3.And(s.discriminant() == 0, M.val_eq(ob.eng, li, committer)))
        some_upd = z3.Or([k == upd for k in kinds]) if kinds else z3.BoolVal(False)
        spec = z3.And(z3.Or(has_path, some_upd), *[z3.And(k == upd, o) for k, o in zip(kinds, own)])
        ob.prove(p, z3.Implies(ret, spec), 'O2/true-too-permissive',
                 'returns true for a commit that is not (update path or Update) with only Update proposals all sent by the committer')
        ob.prove(p, z3.Implies(spec, ret), 'O2/false-too-strict', 'returns false for a commit that satisfies the pure self-update specification')
        if ob.eng.prove(p, ret)[0]:
            n_true += 1
    ob.require(n_true >= 2, 'O2/vacuity', f'expected true paths (got {n_true})')
    ob.require(lens >= set(range(K + 1)), 'O2/vacuity-lengths', f'list lengths explored {sorted(lens)}')
    ob.r.vacuity.append(f'{len(paths)} paths, {n_true} returning true, list lengths {sorted(lens)}')
    ob.sample({'function': 'is_pure_self_update_commit', 'example_paths': [dict(pc=[str(c)[:80] for c in p.pc[:8]], ret=str(p.ret)) for p in paths[:4]]})
    return ob.done(cases=len(paths))


def run(tier, seed, only=None):
    obs = [('O1', o1), ('O2', o2)]
    return [f(tier) for k, f in obs if not only or k in only]
