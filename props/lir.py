"""Late input-dependent refusals ("a refused event has no effect", C06 / C16 / C08).

A storage write can refuse its record on *input* grounds (length and size limits, integers SQLite cannot hold): that is not a
storage fault, it is a deterministic function of what the peer sent.  If such a refusal can happen after an earlier write (or an
irreversible OpenMLS merge) of the same operation has succeeded, the operation is reported as failed but has left something behind.

Two halves, both regenerated from the working tree on every run:
  * refusal profile of each backend: which attributes of the record each write method validates (SQLite: validate_* calls and u64
    parameters in the method bodies; memory: `len() > self.limits.*` comparisons);
  * order of effects of the mdk-core operation: the state-changing calls on its successful paths, from symbolic execution of the MIR.
Claim: every attribute a later effect may refuse on is already validated by the FIRST effect of the operation (or by a check of the
operation itself before it).  Per (operation, backend, method, attribute) keys, so each late refusal is a separate finding.
"""
import os, re

from mirsym.api import Ob, guard, ev_is, is_write, vname, Opaque
from mirsym import contracts as C
from sqlsym import engine as S
from vlib.common import REPO

SEM = {'group_name': 'name', 'name': 'name', 'group_description': 'description', 'description': 'description', 'group_admin_pubkeys': 'admins', 'admin_pubkeys': 'admins',
       'group_relays': 'relays', 'relays': 'relays', 'event': 'event', 'content': 'content', 'tags': 'tags', 'created_at': 'created_at', 'last_message_at': 'created_at',
       'processed_at': 'processed_at', 'last_message_processed_at': 'processed_at', 'epoch': 'epoch', 'failure_reason': 'failure_reason'}
# attributes that do not come from the peer's input (local clock, local counters): a refusal on them is not input-dependent
LOCAL = {'processed_at', 'epoch', 'failure_reason'}

SQLITE_METHODS = [('groups.rs', 'save_group'), ('groups.rs', 'replace_group_relays'), ('groups.rs', 'save_group_exporter_secret'), ('welcomes.rs', 'save_welcome'),
                  ('welcomes.rs', 'save_processed_welcome'), ('messages.rs', 'save_message'), ('messages.rs', 'save_processed_message')]
MEMORY_METHODS = [('groups.rs', 'save_group'), ('groups.rs', 'replace_group_relays'), ('groups.rs', 'save_group_exporter_secret'), ('welcomes.rs', 'save_welcome'),
                  ('welcomes.rs', 'save_processed_welcome'), ('messages.rs', 'save_message'), ('messages.rs', 'save_processed_message')]


def sqlite_profile():
    """{method: {attribute: what is checked}}"""
    out = {}
    for rel, fn in SQLITE_METHODS:
        body = S.fn_body_deep(S.source(rel), fn)
        lets = S.let_bindings(rel, fn, deep=True)
        a = {}
        for m in re.finditer(r'validate_string_length\(\s*&?\s*(\w+)\.(\w+)\s*,\s*(\w+)', body):
            a[SEM.get(m.group(2), m.group(2))] = f'length <= {m.group(3)}'
        for m in re.finditer(r'validate_size\(\s*(\w+)\.as_bytes\(\)\s*,\s*(\w+)', body):
            rhs = lets.get(m.group(1), '')
            mm = re.search(r'(\w+)\.(\w+)', rhs)
            if not mm:
                raise S.SqlError(f'{fn}: cannot tell what {m.group(1)} serialises ({rhs[:60]})')
            a[SEM.get(mm.group(2), mm.group(2))] = f'JSON size <= {m.group(2)}'
        # a u64 bound as is: rusqlite refuses values above i64::MAX
        from sqlsym import writes as W
        for sql in S.program(rel, fn):
            st = S.parse_stmt(sql)
            if st.kind != 'INSERT':
                continue
            try:
                params = W.params_after(body, sql)
            except S.SqlError:
                continue
            for col, raw in zip(st.cols, params):
                e = W.expand(raw, lets)
                if re.search(r'\.as_secs\(\)', e) and not W.RISKY.search(e):
                    a.setdefault(SEM.get(col, col), 'u64 <= i64::MAX (ToSql)')
        out[fn] = a
    return out


def _inline_limit_locals(body):
    """`let n = x.len(); let max = self.limits.m; if n > max` reads as `if x.len() > self.limits.m`: locals that only name a length or a configured limit
    are substituted where they are used (the limit checks are then recognised whichever way they are written)"""
    for _ in range(2):
        for m in list(re.finditer(r'\blet\s+(\w+)(?:\s*:\s*[\w:<>]+)?\s*=\s*((?:&?\s*)?(?:self\s*\.\s*limits\s*\.\s*\w+|[\w.]+?\.len\(\)|[\w.]+?\.as_str\(\)\s*\.len\(\)))\s*;', body)):
            name, rhs = m.group(1), m.group(2).lstrip('& ').strip()
            head, tail = body[:m.end()], body[m.end():]
            tail = re.sub(r'(?<![\w.])' + re.escape(name) + r'(?![\w(])', rhs, tail)
            body = head + tail
    return body


def memory_profile():
    out = {}
    base = os.path.join(REPO, 'crates', 'mdk-memory-storage', 'src')
    for rel, fn in MEMORY_METHODS:
        body = _inline_limit_locals(S.fn_body_deep(open(os.path.join(base, rel)).read(), fn))
        a = {}
        for m in re.finditer(r'(?:(\w+)\s*\.\s*)?(\w+)\s*\.len\(\)\s*>=?\s*self\s*\.\s*limits\s*\.\s*(\w+)', body):
            attr = m.group(2)
            if attr in ('as_str()',):
                continue
            if m.group(3) == 'max_messages_per_group':
                continue                         # capacity of the store, not a property of the input record
            a[SEM.get(attr, attr)] = f'len <= limits.{m.group(3)}'
        for m in re.finditer(r'for\s+\w+\s+in\s+&?\s*(?:(\w+)\.)?(\w+)\s*\{[^}]*?as_str\(\)\s*\.len\(\)\s*>\s*self\s*\.\s*limits\s*\.\s*(\w+)', body, re.S):
            k = SEM.get(m.group(2), m.group(2))
            a[k] = (a[k] + '; ' if k in a else '') + f'each url len <= limits.{m.group(3)}'
        out[fn] = a
    return out


IRREVERSIBLE = ('merge_staged_commit', 'merge_pending_commit')


def effects(p):
    """ordered (method name, event) list of the state-changing calls of a path"""
    out = []
    for e in p.trace:
        short = e.short.split('::')[-1]
        if is_write(e) or (short in IRREVERSIBLE and ('openmls' in e.fn or 'MlsGroup' in e.fn)):
            out.append((short, e))
    return out


BOOKKEEPING = ('save_processed_welcome', 'save_processed_message', 'save_processed_message_record', 'save_processed_welcome_record', 'mark_processed', 'record_failure')


def check_sequences(ob, prefix, opname, seqs, profiles, r_samples, input_attrs):
    """seqs: set of tuples of effect names (successful paths). An attribute of the peer's input that some effect validates must be validated
    by the FIRST effect already (or the operation has left effects behind when the refusal comes). One failure per (backend, method, attribute),
    reported at the earliest effect that validates the attribute."""
    n = 0
    for seq in sorted(seqs):
        seq = tuple(x for x in seq if x not in BOOKKEEPING)          # processing records are allowed to survive a refusal
        if len(seq) < 2:
            continue
        first = seq[0]
        for backend, prof in profiles.items():
            seen = set(prof.get(first, {}))
            for idx, later in enumerate(seq[1:], start=1):
                for attr, what in sorted(prof.get(later, {}).items()):
                    if attr.split('.')[0] not in input_attrs:
                        continue
                    n += 1
                    if attr in seen:
                        continue                                      # an earlier effect already refuses on it: reported there (or it is the first)
                    seen.add(attr)
                    ob.require(False, f'{prefix}/{opname}/{backend}/{later}/{attr}/late-input-refusal',
                               f'{opname}: on the {backend} backend {later} refuses a record whose {attr} violates "{what}", but it runs after {list(seq[:idx])} '
                               f'and nothing before bounds {attr}: the operation reports failure and leaves those effects behind')
        if len(r_samples) < 4:
            r_samples.append({'operation': opname, 'effects in order': list(seq)})
    return n


@guard
def welcome_refusals(tier, oid='O6', prefix='O6'):
    ob = Ob(oid, 'process_welcome: every input limit on which a later storage write can refuse the invitation (name / description / admins / relays / rumor size; both backends) '
                 'is already enforced by the first write, so an invitation refused by the store leaves no group, relay or welcome record behind', pure=C.PURE_MLS)
    profiles = {'sqlite': sqlite_profile(), 'memory': memory_profile()}
    f = ob.fn('mdk-core', 'welcomes::process_welcome')
    paths = ob.explore(f, [Opaque('self', '&MDK<Storage>'), Opaque('wrapper_id', '&nostr::event::EventId'), Opaque('rumor', '&nostr::UnsignedEvent')])
    seqs = set()
    for p in paths:
        if p.kind == 'return' and vname(p.ret) == 'Ok':
            s = tuple(n for n, _ in effects(p))
            if s:
                seqs.add(s)
    ob.require(bool(seqs), f'{prefix}/vacuity', 'no successful path with effects')
    n = check_sequences(ob, prefix, 'process_welcome', seqs, profiles, ob.r.samples, {'name', 'description', 'admins', 'relays', 'event'})
    ob.r.bounds = {'paths': 'all', 'backends': 'sqlite and memory (refusal profiles read from the method bodies)'}
    ob.r.assumptions += ['a storage write refuses on input grounds only through the validations visible in its body (validate_* calls, limits comparisons, u64 parameters)',
                         'attribute correspondence between records is by field meaning (Group.name ~ Welcome.group_name, ...)']
    ob.r.vacuity.append(f'refusal profile sqlite: { {k: sorted(v) for k, v in profiles["sqlite"].items() if v} }')
    ob.r.vacuity.append(f'refusal profile memory: { {k: sorted(v) for k, v in profiles["memory"].items() if v} }')
    return ob.done(cases=n)


@guard
def commit_refusals(tier, oid='O7', prefix='O7'):
    """after the (irreversible) OpenMLS merge, the re-synchronisation writes must not be refusable on input grounds"""
    ob = Ob(oid, 'process_commit: once the commit is merged into the MLS group (irreversible), the record re-synchronisation cannot be refused by the store on input grounds '
                 '(name / description / admins / relays of the NEW extension are bounded before the merge)',
            pure=C.PURE_MLS, models=C.staged_commit_models(1), inline={'sync_group_metadata_from_mls'}, loop_bound=5)
    profiles = {'sqlite': sqlite_profile(), 'memory': memory_profile()}
    f = ob.fn('mdk-core', 'commit::process_commit')
    from props.C01 import mk_args
    paths = ob.explore(f, mk_args(f))
    seqs = set()
    bounded_before = set()
    for p in paths:
        if p.kind == 'return' and vname(p.ret) == 'Ok':
            eff = effects(p)
            names = tuple(n for n, _ in eff)
            if any(n in IRREVERSIBLE for n in names):
                i = [n in IRREVERSIBLE for n in names].index(True)
                seqs.add(names[i:])
    ob.require(bool(seqs), f'{prefix}/vacuity', 'no successful merging path')
    n = check_sequences(ob, prefix, 'process_commit', seqs, profiles, ob.r.samples, {'name', 'description', 'admins', 'relays'})
    ob.r.bounds = {'paths': 'all', 'backends': 'sqlite and memory'}
    ob.r.assumptions += ['OpenMLS merge_staged_commit persists the new epoch and cannot be undone except by an epoch-snapshot rollback']
    return ob.done(cases=n)


@guard
def message_refusals(tier, oid='O8', prefix='O8'):
    """process_application_message: message row, processed record, group pointer -- a later write must not refuse on input grounds the first one accepted"""
    ob = Ob(oid, 'process_application_message: every input limit on which a later storage write can refuse the message (content / tags / event size, timestamps SQLite cannot hold) is already '
                 'enforced by the first write (save_message), so a message the store refuses leaves no message row behind', pure=C.PURE_MLS)
    profiles = {'sqlite': sqlite_profile(), 'memory': memory_profile()}
    from props.C02 import app_args
    f = ob.fn('mdk-core', 'application::process_application_message')
    paths = ob.explore(f, app_args())
    seqs = set()
    for p in paths:
        if p.kind == 'return' and vname(p.ret) == 'Ok':
            s_ = tuple({'save_message_record': 'save_message', 'save_group_record': 'save_group', 'save_processed_message_record': 'save_processed_message'}.get(n, n) for n, _ in effects(p))
            if s_:
                seqs.add(s_)
    ob.require(bool(seqs), f'{prefix}/vacuity', 'no successful path with effects')
    n = check_sequences(ob, prefix, 'process_application_message', seqs, profiles, ob.r.samples, {'content', 'tags', 'event', 'created_at'})
    ob.r.bounds = {'paths': 'all', 'backends': 'sqlite and memory'}
    ob.r.assumptions += ['a u64 timestamp bound without conversion is refused by rusqlite above i64::MAX; the group pointer fields carry the message timestamps']
    return ob.done(cases=n)
