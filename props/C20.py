"""C20 — rollback snapshots stay bounded in number and age."""
import time
import z3

from vlib.common import Result
from mirsym.api import Ob, guard, Opaque, Agg, Ref, vname, ev_is, uid_of
from mirsym.values import Tok
from mirsym import snapmodel as SM
from mirsym import contracts as C
from props.snapharness import Harness, sequences
from sqlsym import engine as S

EXPLANATION = ('Engine E3c: the real MIR of EpochSnapshotManager::{create_snapshot, rollback_to_epoch, is_better_candidate} (ensure_hydrated and '
               'parse_snapshot_name inlined) is executed on concrete-shape queues with symbolic retention, epochs, timestamps and 256-bit ids, for every '
               'sequence of create/rollback steps up to the bound, and compared after every step with a 6-line reference model (queue content, '
               'stored-snapshot set, return values); engine E4/E3: the TTL pruning predicate and the start-up cut-off arithmetic.')
TRUSTED = ['rustc nightly MIR dump', 'mirsym interpreter with container models (HashMap/HashSet/VecDeque as concrete-shape lists)', 'stub storage and snapshot-name term model (mirsym/snapmodel.py)', 'z3']
GID = Tok('g', 0)


def cid(i):
    # distinct concrete low bits keep snapshot names decidedly different; the upper bits are symbolic
    return z3.Concat(z3.BitVec(f'id{i}_hi', 248), z3.BitVecVal(i, 8))


@guard
def o1(tier):
    """bounded queue, most recent kept, storage in step, rollback discards the suffix"""
    K = 3 if tier == 'quick' else 4
    RMAX = 3 if tier == 'quick' else 5
    ob = Ob('O1', f'EpochSnapshotManager == reference model after every step: |queue| <= retention, kept = most recent, stored snapshots == tracked snapshots, rollback drops target and later entries '
                  f'(all sequences of <= {K} create/rollback steps, retention 0..{RMAX}, symbolic epochs/timestamps/ids)')
    h = Harness(ob)
    r = z3.BitVec('retention', 64)
    total = 0
    nseq = 0
    maxq = 0
    hp = Harness(ob, persistent=True)
    # a restart with a smaller retention than the number of stored snapshots needs two snapshots before the restart and a step after it
    extra = [tuple('CCHC'), tuple('CCHR')] + ([tuple('CCCHC'), tuple('CCCHR')] if tier != 'quick' else [])
    seqs = list(sequences(K)) + [s_ for s_ in sequences(K, 'CRH') if 'H' in s_ and s_[0] != 'H']
    seqs += [x for x in extra if x not in [tuple(y) for y in seqs]]
    for seq in seqs:
        nseq += 1
        hh = hp if 'H' in seq else h
        ob.eng = hh.eng
        h_ = hh
        states = [(st0, m0, ref0, r) for st0, m0, ref0 in h_.start(r, [z3.ULE(r, RMAX)])]
        for i, step in enumerate(seq):
            nxt = []
            for st, mgr, ref, rc in states:
                if step == 'H':
                    # restart: a fresh manager over the same (persistent) storage, possibly configured with ANOTHER retention count; the applied timestamps are not
                    # persisted.  The reference keeps the whole list: the next step trims it from the front (oldest first) down to the new retention.
                    r2 = z3.BitVec(f'retention_after_restart{i}', 64)
                    st = st.clone()
                    st.pc.append(z3.ULE(r2, RMAX))
                    nxt.append((st, h_.fresh_manager(st, r2), [dict(epoch=x['epoch'], cid=x['cid'], ts=z3.BitVecVal(0, 64), hydrated=True) for x in ref], r2))
                    continue
                if step == 'C':
                    e, t, c = z3.BitVec(f'e{i}', 64), z3.BitVec(f't{i}', 64), cid(i)
                    for p in h_.create(st, mgr, GID, e, c, t):
                        total += 1
                        ob.require(vname(p.ret) == 'Ok', 'O1/create-fails', 'create_snapshot fails although the storage accepted the snapshot', p)
                        ref2 = h_.ref_create(p.st, ref, rc, e, c, t)
                        if ref2 is not None:
                            ref2 = [dict(x, hydrated=False) for x in ref2]
                        if not ob.require(ref2 is not None, 'O1/retention-undecided', 'create_snapshot does not compare the queue length with the retention count', p):
                            continue
                        if h_.compare(p.st, mgr, GID, ref2, 'O1/create', f'after step {i + 1} of {"".join(seq)}'):
                            ob.prove(p.st.pc, z3.ULE(z3.BitVecVal(len(ref2), 64), rc), 'O1/bound', 'more snapshots than the retention count are kept')
                        maxq = max(maxq, len(ref2))
                        nxt.append((p.st, mgr, ref2, rc))
                else:
                    e = z3.BitVec(f'target{i}', 64)
                    for p in h_.rollback(st, mgr, GID, e):
                        total += 1
                        # a restarted manager first trims what it re-loaded to its retention count, oldest first
                        ref1 = ref
                        while ref1 is not None and any(x.get('hydrated') for x in ref1):
                            d = h_.decide(p.st, z3.UGT(z3.BitVecVal(len(ref1), 64), rc))
                            if d is None:
                                ref1 = None
                            elif d:
                                ref1 = ref1[1:]
                            else:
                                ref1 = [dict(x, hydrated=False) for x in ref1]
                        if not ob.require(ref1 is not None, 'O1/hydration-retention-undecided', 'a restarted manager does not compare what it re-loaded with its retention count', p):
                            continue
                        ref2, found = h_.ref_rollback(p.st, ref1, e)
                        if not ob.require(ref2 is not None, 'O1/rollback-undecided', 'rollback_to_epoch does not decide which snapshot matches the target epoch', p):
                            continue
                        ob.require((vname(p.ret) == 'Ok') == found, 'O1/rollback-result', f'rollback_to_epoch returns {vname(p.ret)} but a snapshot for the target epoch was {"" if found else "not "}tracked', p)
                        h_.compare(p.st, mgr, GID, ref2, 'O1/rollback', f'after rollback (step {i + 1} of {"".join(seq)})')
                        if found:
                            log = p.st.ext.get('log', [])
                            rb = [x for x in log if x[0].startswith('rollback')]
                            ob.require(len(rb) >= 1 and rb[-1][0] == 'rollback', 'O1/rollback-not-performed', 'the storage rollback was not performed on the tracked snapshot', p)
                        nxt.append((p.st, mgr, ref2, rc))
            states = nxt
    ob.require(maxq >= min(K, RMAX) and total > 20, 'O1/vacuity', f'max queue {maxq}, transitions {total}')
    ob.r.bounds = {'steps per sequence': K, 'sequences': nseq, 'retention': f'0..{RMAX} (symbolic)', 'epochs / timestamps': 'all u64', 'commit ids': '248 symbolic bits + 8 distinguishing bits',
                   'groups': 1}
    ob.r.assumptions += SM.ASSUMPTIONS
    ob.r.vacuity.append(f'{nseq} sequences, {total} explored transitions, longest queue {maxq}')
    ob.sample({'sequence': 'CCR', 'reference_model': 'create: push; while len > retention: pop_front+release.  rollback(e): i = first epoch==e; storage.rollback(i); release later ones; truncate to i'})
    return ob.done(cases=total)


def o2(tier):
    """TTL predicate (SQLite) -- shares the query of C09-O3"""
    from props import C09
    r = C09.sqlite_snapshot_ops(tier)
    r.oid = 'O2'
    # hydration after a restart relies on list_group_snapshots returning the snapshots oldest first: the retention trim drops from the front
    try:
        ls = [S.parse_stmt(x) for x in S.program('lib.rs', 'list_group_snapshots') if x.upper().startswith('SELECT')]
        r.cases += 1
        if len(ls) != 1 or ls[0].order != [('created_at', 'ASC')] or not (len(ls[0].where) == 1 and ls[0].where[0][0] == 'group_id'):
            r.fail('O2/list-order', f'list_group_snapshots is not "WHERE group_id = ? ORDER BY created_at ASC" ({ls[0].text[:120] if ls else "no SELECT"}): after a restart the manager would '
                   'not trim the oldest snapshots (names sort lexicographically, epoch 10 before epoch 9)')
    except S.SqlError as e:
        r.broken(str(e))
    r.title = 'SQLite prune_expired_snapshots deletes exactly created_at < cutoff (z3, all 64-bit values); snapshot maintenance touches only the snapshot table (shared with C09-O3)'
    return r


@guard
def o3(tier):
    """start-up pruning in MdkBuilder::build"""
    ob = Ob('O3', 'MdkBuilder::build: on a persistent backend prune_expired_snapshots(now - snapshot_ttl_seconds, saturating) is invoked before the instance is returned; the snapshot manager is built with config.epoch_snapshot_retention', pure=C.PURE_MLS, assume_ok=['SystemTime::duration_since'])
    f = ob.fn('mdk-core', 'MdkBuilder::build')
    paths = ob.explore(f, [Opaque('builder', 'MdkBuilder<Storage>')])
    n_p = 0
    for p in paths:
        if p.kind == 'panic':
            ob.require(False, 'O3/panic', p.msg, p); continue
        pr = [e for e in p.trace if ev_is(e, 'prune_expired_snapshots')]
        bk = [e for e in p.trace if ev_is(e, 'is_persistent')]
        if not ob.require(bool(bk), 'O3/no-backend-check', 'build() does not look at the backend kind', p):
            continue
        persistent = ob.eng.prove(p, bk[0].ret)[0]
        if persistent:
            n_p += 1
            if ob.require(len(pr) == 1, 'O3/no-pruning', 'persistent backend opened without pruning expired snapshots', p):
                a = pr[0].args[1]
                s = str(z3.simplify(a)) if z3.is_expr(a) else uid_of(ob.eng, p.st, a)
                ob.require('as_secs' in s or 'now' in s.lower(), 'O3/cutoff-source', f'cut-off is {s[:120]}', p)
                ttl = [c for c in str(a).split() if 'builder' in c]
                ob.require('builder' in str(a) or 'builder' in s, 'O3/cutoff-ttl', f'cut-off does not depend on the configured time-to-live: {s[:160]}', p)
    # the retention count handed to the snapshot manager is the configured epoch_snapshot_retention (not another usize field of the configuration),
    # and the time-to-live used for the cut-off is snapshot_ttl_seconds
    cfg = ob.prog.cat.fields('MdkConfig', 'mdk_core')
    bld = ob.prog.cat.fields('MdkBuilder', 'mdk_core')
    want_ret = f'builder.{bld.index("config")}.{cfg.index("epoch_snapshot_retention")}'
    want_ttl = f'builder.{bld.index("config")}.{cfg.index("snapshot_ttl_seconds")}'
    n_new = 0
    for p in paths:
        if p.kind != 'return':
            continue
        for e in p.trace:
            if ev_is(e, 'EpochSnapshotManager::new'):
                n_new += 1
                got = uid_of(ob.eng, p.st, e.args[0])
                ob.require(got == want_ret, 'O3/retention-source', f'the snapshot manager is built with {got} instead of the configured epoch_snapshot_retention ({want_ret}): the number of snapshots kept '
                           '(and with it the depth of fork that can be resolved) follows another setting', p)
            if ev_is(e, 'prune_expired_snapshots'):
                a = e.args[1]
                ob.require(want_ttl in (str(a) if z3.is_expr(a) else uid_of(ob.eng, p.st, a)), 'O3/ttl-source', f'the pruning cut-off does not use snapshot_ttl_seconds ({want_ttl}): {str(a)[:120]}', p)
    ob.require(n_new >= 1, 'O3/vacuity-manager', 'EpochSnapshotManager::new not seen in build()')
    ob.require(n_p >= 1, 'O3/vacuity', 'no persistent path')
    ob.r.assumptions.append('the system clock is not before the Unix epoch (SystemTime::duration_since(UNIX_EPOCH) is Ok)')
    ob.r.bounds = {'paths': 'all', 'clock / ttl': 'symbolic u64'}
    ob.r.vacuity.append(f'{len(paths)} paths, {n_p} persistent')
    return ob.done(cases=len(paths))


def o4(tier):
    """a snapshot keeps its age: the rollback puts the other snapshots of the group back with their stored created_at, so the start-up TTL prune still sees their real age"""
    from props import C09
    r = C09.sqlite_columns(tier)
    r.oid = 'O4'
    r.title = 'SQLite (shared with C09-O2): snapshots that survive a rollback are re-inserted with every stored column, created_at included (their age does not restart, the TTL prune removes them in time)'
    return r


def run(tier, seed, only=None):
    obs = [('O1', o1), ('O2', o2), ('O3', o3), ('O4', o4)]
    out = []
    for k, f in obs:
        if only and k not in only:
            continue
        try:
            out.append(f(tier))
        except Exception as e:
            from vlib.common import Result
            rr = Result(k, 'sqlsym' if type(e).__name__ == 'SqlError' else 'mirsym', f.__doc__ or f.__name__)
            rr.broken(f'{type(e).__name__}: {e}')
            out.append(rr)
    return out
