"""C16 — invitations are idempotent, consent-gated and cannot disturb existing groups (kernel level)."""
import z3

from mirsym.api import (Ob, guard, env_fault, ev_is, is_write, vname, ret_shape, derived_from, uid_of, Opaque, Agg, Ref)
from mirsym import contracts as C
from mirsym import models as M
from props.C05 import first, all_ev, res_ok

EXPLANATION = ('Symbolic execution (z3) of the MIR of process_welcome, preview_welcome, accept_welcome and decline_welcome: every path is '
               'enumerated with storage and OpenMLS calls as nondeterministic stubs; dedup paths must be write-free, failures may only write the '
               'failed processed-welcome record, the only group state written before consent is Pending, and the pending record is never written '
               'over a group the user is active in.')
TRUSTED = ['rustc nightly MIR dump', 'mirsym interpreter + std models', 'z3']
CORE = 'mdk-core'
WSTATES = None


def pw_args():
    return [Opaque('self', '&MDK<Storage>'), Opaque('wrapper_id', '&nostr::event::EventId'), Opaque('rumor', '&nostr::UnsignedEvent')]


def group_state_of(ob, p, g):
    """GroupState written: Agg Group value -> variant name of field 'state' (index 12)"""
    if isinstance(g, Agg):
        names = g.names or []
        v = g.fields[names.index('state')] if 'state' in names else g.fields[12]
        return vname(v)
    if isinstance(g, Opaque):
        v = g.over.get((None, 12))
        return vname(v) if v is not None else '?unchanged'
    return '?'


@guard
def o1(tier):
    """process_welcome: dedup and refusal paths"""
    ob = Ob('O1', 'process_welcome: an already processed invitation returns the stored welcome (or the stored failure) without any write; an invalid rumor is refused before any storage access; '
                  'every Err path writes at most the failed processed-welcome record', pure=C.PURE_MLS)
    f = ob.fn(CORE, 'welcomes::process_welcome')
    paths = ob.explore(f, pw_args())
    n_dedup = n_prev = n_ok = 0
    for p in paths:
        if p.kind == 'panic':
            ob.require(False, 'O1/panic', p.msg, p); continue
        sh = ret_shape(p.ret)
        writes = [e for e in p.trace if is_write(e)]
        wn = [e.short.split('::')[-1] for e in writes]
        val = [e for e in p.trace if ev_is(e, 'validate_welcome_event')]
        if not ob.require(bool(val) and p.trace.index(val[0]) == 0, 'O1/validation-first', 'rumor not validated first', p):
            continue
        if not res_ok(ob, p, val[0]):
            ob.require(sh[0] == 'Err' and len(p.trace) == 1, 'O1/invalid-rumor', f'invalid rumor: {sh}, then {[e.short for e in p.trace[1:]]}', p)
            continue
        fpw = [e for e in p.trace if ev_is(e, 'find_processed_welcome_by_event_id')]
        if not ob.require(bool(fpw), 'O1/no-dedup', 'no processed-welcome lookup', p):
            continue
        ob.require(uid_of(ob.eng, p.st, fpw[0].args[1]) in ('wrapper_id', '*wrapper_id'), 'O1/dedup-key', 'dedup lookup under another id', p)
        r = fpw[0].ret
        found = ob.eng.prove(p, z3.And(r.discriminant() == 0, r.child('Ok', 0, 'Option<ProcessedWelcome>').discriminant() == 1))[0]
        if found:
            n_dedup += 1
            ob.require(not writes, 'O1/dedup-writes', f'already processed invitation performs {wn}', p)
            ob.require(not [e for e in p.trace if ev_is(e, 'preview_welcome')], 'O1/dedup-reprocess', 'already processed invitation is parsed again', p)
            rec = r.child('Ok', 0, 'Option<ProcessedWelcome>').child('Some', 0, 'ProcessedWelcome')
            sd = rec.child(None, 3, 'ProcessedWelcomeState').discriminant()
            states = ob.prog.cat.variants('ProcessedWelcomeState', 'mdk_storage_traits::welcomes::types')
            if ob.eng.prove(p, sd == states.index('Failed'))[0]:
                n_prev += 1
                ob.require(sh == ('Err', 'WelcomePreviouslyFailed'), 'O1/failed-retry', f'previously failed invitation yields {sh}', p)
            elif sh[0] == 'Ok':
                fw = [e for e in p.trace if ev_is(e, 'find_welcome_by_event_id')]
                ob.require(bool(fw) and derived_from(ob.eng, p.st, p.ret.fields[0], fw[0]) and uid_of(ob.eng, p.st, fw[0].args[1]).startswith(rec.uid), 'O1/dedup-result',
                           'result is not the welcome stored for the processed record', p)
            continue
        if sh[0] == 'Err':
            if env_fault(ob, p):
                continue      # a storage call itself failed: the property quantifies over inputs, not storage faults (see C12)
            ob.require(not [e for e in writes if not ev_is(e, 'save_processed_welcome')], 'O1/err-with-effects',
                       f'process_welcome returns Err after performing {wn} (a refused invitation leaves a group/relay/welcome record behind)', p)
        else:
            n_ok += 1
    ob.require(n_dedup >= 2 and n_prev >= 1 and n_ok >= 1, 'O1/vacuity', f'dedup {n_dedup} failed {n_prev} ok {n_ok}')
    ob.r.vacuity.append(f'{len(paths)} paths: dedup {n_dedup}, previously failed {n_prev}, accepted {n_ok}')
    # preview_welcome failure paths
    ob.new_engine(pure=C.PURE_MLS)
    f2 = ob.fn(CORE, 'welcomes::preview_welcome')
    paths2 = ob.explore(f2, pw_args())
    for p in paths2:
        if p.kind == 'panic':
            ob.require(False, 'O1/preview-panic', p.msg, p); continue
        w = [e for e in p.trace if is_write(e)]
        if vname(p.ret) == 'Ok':
            ob.require(not w, 'O1/preview-ok-writes', f'successful preview writes {[e.short for e in w]}', p)
        else:
            ob.require(all(ev_is(e, 'save_processed_welcome') for e in w) and len(w) <= 1, 'O1/preview-err-writes', f'failed preview writes {[e.short for e in w]}', p)
            for e in w:
                rec = e.args[1]
                ob.require(isinstance(rec, Agg) and vname(rec.fields[(rec.names or ['', '', '', 'state']).index('state')]) == 'Failed', 'O1/preview-failed-state', 'failed preview does not record Failed', p)
    ob.r.bounds = {'paths': 'all'}
    return ob.done(cases=len(paths) + len(paths2))


@guard
def o2(tier):
    """consent gating: only accept makes a group Active"""
    ob = Ob('O2', 'process_welcome only ever writes GroupState::Pending; accept_welcome writes Active + SelfUpdateState::Required after into_group succeeded; decline_welcome writes Inactive',
            pure=C.PURE_MLS)
    total = 0
    f = ob.fn(CORE, 'welcomes::process_welcome')
    paths = ob.explore(f, pw_args())
    total += len(paths)
    n = 0
    for p in paths:
        for e in p.trace:
            if ev_is(e, 'save_group'):
                n += 1
                stt = group_state_of(ob, p, e.args[1])
                ob.require(stt == 'Pending', 'O2/process-state', f'process_welcome writes a group record in state {stt}', p)
            if ev_is(e, 'save_welcome'):
                w = e.args[1]
                if isinstance(w, Agg) and w.names and 'state' in w.names:
                    ob.require(vname(w.fields[w.names.index('state')]) == 'Pending', 'O2/process-welcome-state', 'welcome not stored as Pending', p)
    ob.require(n >= 1, 'O2/vacuity-process', 'no save_group in process_welcome')
    wel = Opaque('welcome', '&mdk_storage_traits::welcomes::types::Welcome')
    for spec, want in (('welcomes::accept_welcome', 'Active'), ('welcomes::decline_welcome', 'Inactive')):
        f = ob.fn(CORE, spec)
        paths = ob.explore(f, [Opaque('self', '&MDK<Storage>'), wel])
        total += len(paths)
        k = 0
        for p in paths:
            if p.kind == 'panic':
                ob.require(False, f'O2/{spec}/panic', p.msg, p); continue
            writes = [(i, e) for i, e in enumerate(p.trace) if is_write(e)]
            pv = [(i, e) for i, e in enumerate(p.trace) if ev_is(e, 'preview_welcome')]
            ig = [(i, e) for i, e in enumerate(p.trace) if ev_is(e, 'into_group')]
            if want == 'Active':
                sw = [(i, e) for i, e in writes if not ev_is(e, 'into_group')]
                if sw:
                    ob.require(bool(ig) and ig[0][0] < sw[0][0] and res_ok(ob, p, ig[0][1]), 'O2/accept-write-before-join', 'accept_welcome writes before (or although) into_group succeeded', p)
            if writes and pv:
                ob.require(res_ok(ob, p, pv[0][1]), f'O2/{want}-write-after-failed-preview', 'writes although the preview failed', p)
            for i, e in writes:
                if ev_is(e, 'save_group'):
                    k += 1
                    g = e.args[1]
                    stt = group_state_of(ob, p, g)
                    ob.require(stt == want, f'O2/{want}-state', f'{spec.split("::")[-1]} writes state {stt}', p)
                    gg = [x for x in p.trace if ev_is(x, 'get_group')]
                    ob.require(bool(gg) and isinstance(g, Opaque) and g.uid.startswith(uid_of(ob.eng, p.st, gg[0].ret)), f'O2/{want}-record', 'the record written is not the one loaded for that group id', p)
                    if want == 'Active':
                        su = g.over.get((None, 13)) if isinstance(g, Opaque) else None
                        ob.require(vname(su) == 'Required', 'O2/accept-self-update', 'accept does not set SelfUpdateState::Required', p)
                        ob.require('into_group' in uid_of(ob.eng, p.st, gg[0].args[1]), 'O2/accept-group-id', 'group looked up is not the joined MLS group', p)
        ob.require(k >= 1, f'O2/vacuity-{want}', 'no save_group path')
    ob.r.bounds = {'paths': 'all'}
    ob.r.vacuity.append(f'{total} paths over process/accept/decline')
    return ob.done(cases=total)


@guard
def o3(tier):
    """the pending record never overwrites a group the user is active in"""
    ob = Ob('O3', 'process_welcome: every save_group is dominated by a lookup of the same MLS group id whose result excludes an Active record, and the record is skipped ONLY when that lookup found an Active record',
            pure=C.PURE_MLS)
    f = ob.fn(CORE, 'welcomes::process_welcome')
    paths = ob.explore(f, pw_args())
    gs = ob.prog.cat.variants('GroupState', 'mdk_storage_traits::groups::types')
    n = 0
    for p in paths:
        saves = [(i, e) for i, e in enumerate(p.trace) if ev_is(e, 'save_group', 'replace_group_relays')]
        if not saves:
            continue
        n += 1
        i0 = saves[0][0]
        look = [(i, e) for i, e in enumerate(p.trace[:i0]) if ev_is(e, 'get_group', 'find_group_by_mls_group_id')]
        key = 'O3/overwrites-existing-group'
        what = ('process_welcome writes the pending group record (and relays) under the inviter-chosen MLS group id without checking for an existing active group: '
                'merely receiving an invitation that reuses the id replaces name/admins/routing id and turns the active group Pending')
        if not ob.require(bool(look), key, what, p):
            continue
        e = look[-1][1]
        saved = saves[0][1].args[1]
        sid = uid_of(ob.eng, p.st, saved.fields[0]) if isinstance(saved, Agg) else uid_of(ob.eng, p.st, saved)
        ob.require(uid_of(ob.eng, p.st, e.args[1]) == sid or 'group_id' in uid_of(ob.eng, p.st, e.args[1]), 'O3/lookup-other-id', f'lookup of {uid_of(ob.eng, p.st, e.args[1])} but saves {sid}', p)
        r = e.ret
        # on this path the looked-up record is either absent or not Active
        opt = r.child('Ok', 0, 'Option<Group>')
        stt = opt.child('Some', 0, 'Group').child(None, 12, 'GroupState').discriminant()
        ob.prove(p, z3.And(r.discriminant() == 0, z3.Or(opt.discriminant() == 0, stt != gs.index('Active'))), key, what)
    # conversely, the guard is exactly "Active": an invitation for a group the user is NOT active in (no record, Pending, or Inactive after a removal /
    # a declined invitation) must refresh the record from the welcome, or accepting it later re-activates a stale record (old epoch, name, admins, routing id)
    n_skip = 0
    for p in paths:
        if p.kind != 'return' or vname(p.ret) != 'Ok' or any(ev_is(e, 'save_group') for e in p.trace):
            continue
        if not any(ev_is(e, 'save_welcome') for e in p.trace):
            continue                                  # dedup path: the stored welcome is returned, nothing is processed
        look = [e for e in p.trace if ev_is(e, 'get_group', 'find_group_by_mls_group_id')]
        if not look:
            continue
        n_skip += 1
        r_ = look[-1].ret
        opt = r_.child('Ok', 0, 'Option<Group>')
        stt = opt.child('Some', 0, 'Group').child(None, 12, 'GroupState').discriminant()
        ob.prove(p, z3.And(opt.discriminant() == 1, stt == gs.index('Active')), 'O3/invitation-skipped-for-non-active-group',
                 'process_welcome stores the invitation but does NOT write the pending group record although the existing record is not Active (e.g. Inactive after a removal): '
                 'accepting the invitation then re-activates the stale record instead of the inviter\'s current group state')
    ob.require(n >= 1, 'O3/vacuity', 'no saving path')
    ob.r.bounds = {'paths': 'all'}
    ob.r.vacuity.append(f'{len(paths)} paths, {n} write a group record, {n_skip} keep the existing record')
    r = ob.done(cases=len(paths))
    from vlib import scen
    scen.confirm(r, 'O3/overwrites-existing-group', 'c16', 'c16_welcome_reusing_active_group_id')
    return r


def o4(tier):
    """SQLite: writing the pending record can never delete another group's row"""
    from props import C10
    r = C10.o4(tier)
    r.oid = 'O4'
    r.title = 'SQLite save_group/save_welcome (shared with C10-O4): no INSERT OR REPLACE on a table with cascade children or several uniqueness constraints (a colliding Nostr group id must be refused, not resolved by deleting the other group)'
    return r


def o5(tier):
    from props import memobs
    r = memobs.save_group_refusal(tier, 'O5', 'O5')
    r.title = 'memory backend (shared with C08-O6): a pending-group record refused by the store (routing id taken by another group) leaves nothing behind -- ' + r.title[:160]
    return r


def o6(tier):
    from props import lir
    from vlib import scen
    r = lir.welcome_refusals(tier, 'O6', 'O6')
    scen.confirm(r, 'O6/process_welcome/sqlite/save_welcome/event/late-input-refusal', 'c16', 'c16_oversized_welcome_leaves_no_group_sqlite')
    scen.confirm(r, 'O6/process_welcome/memory/replace_group_relays/relays/late-input-refusal', 'c16', 'c16_welcome_with_too_many_relays_leaves_no_group_memory')
    return r


def o7(tier):
    """accepting an invitation activates the group whatever happened to the stored record in between (e.g. it turned Inactive because the removal commit arrived after the re-invitation)"""
    from props import C12
    from mirsym.api import guard as _g
    r = _g(C12.o3)(tier)
    r.oid = 'O7'
    r.title = 'accept_welcome (shared with C12-O3): every successful return has saved the group as Active (+ SelfUpdateState::Required, O2), whatever state the stored record or welcome was in'
    return r


def o8(tier):
    """a processed invitation is found again under its id, whatever state it is in"""
    from props import C10
    r = C10.o3(tier)
    r.oid = 'O8'
    r.title = 'SQLite (shared with C10-O3): find_welcome_by_event_id / find_processed_welcome_by_event_id select by exactly their key (no state filter), so a re-delivered invitation that was already accepted or declined returns the stored welcome'
    return r


def run(tier, seed, only=None):
    obs = [('O1', o1), ('O2', o2), ('O3', o3), ('O4', o4), ('O5', o5), ('O6', o6), ('O7', o7), ('O8', o8)]
    out = []
    for k, f in obs:
        if only and k not in only:
            continue
        try:
            out.append(f(tier))
        except Exception as e:                      # an engine that cannot read the tree is an inconclusive obligation, not a crash of the whole check
            from vlib.common import Result
            rr = Result(k, 'sqlsym' if type(e).__name__ == 'SqlError' else 'mirsym', f.__doc__ or f.__name__)
            rr.broken(f'{type(e).__name__}: {e}')
            out.append(rr)
    return out
