"""C17 — media encryption (one clause): key-derivation context and AAD are injective on validated inputs."""
import re
import z3

from mirsym.api import Ob, guard, StatePath, Opaque, Agg, Ref, vname, ev_is, uid_of
from mirsym import codecmodel as CM
from mirsym import contracts as C
from mirsym.engine import State
from mirsym.values import StrV
from mirsym import models as M

EXPLANATION = ('Engine E3 with z3 sequences: the MIR of encrypted_media::crypto::{build_aad, build_hkdf_context} is executed with Vec<u8> as a z3 sequence of bytes '
               '(Vec::new / extend_from_slice / push modelled exactly); z3 then decides that two input tuples (32-byte hash, MIME type, file name, purpose suffix) '
               'with equal output are equal, for all strings without NUL up to the length bound: different files, names or MIME types never share a key context or AAD.')
TRUSTED = ['rustc nightly MIR dump', 'mirsym interpreter', 'z3 sequence theory', 'validate_mime_type / validate_filename reject control characters (NUL in particular): assumption, see DESIGN.md']
CORE = 'mdk-core'
BYTE = z3.BitVecSort(8)
SEQ = z3.SeqSort(BYTE)


def zs(e):
    return StrV(sym=('zseq', e))


def seq_of(eng, st, v):
    v = M.deref_all(eng, st, v)
    if isinstance(v, StrV) and isinstance(v.sym, tuple) and v.sym[0] == 'zseq':
        return v.sym[1]
    raise Exception(f'byte sequence expected, got {v!r}')


def seq_models():
    R = re.compile

    def vec_new(eng, st, call):
        return [(st, zs(z3.Empty(SEQ)))]

    def extend(eng, st, call):
        r, v = M.base_ref(eng, st, call.args[0])
        add = seq_of(eng, st, call.args[1])
        eng.write(st, r.loc, r.path, zs(z3.Concat(seq_of(eng, st, v), add)))
        return [(st, M.UNIT())]

    def push(eng, st, call):
        r, v = M.base_ref(eng, st, call.args[0])
        eng.write(st, r.loc, r.path, zs(z3.Concat(seq_of(eng, st, v), z3.Unit(call.args[1]))))
        return [(st, M.UNIT())]

    def as_bytes(eng, st, call):
        return [(st, call.args[0])]

    def bytes_of(eng, st, v):
        """a byte sequence operand of concat: a symbolic sequence (parameter), or a constant byte string / byte array"""
        from mirsym.values import SeqV, Agg
        v = M.deref_all(eng, st, v)
        if isinstance(v, StrV) and isinstance(v.sym, tuple) and v.sym[0] == 'zseq':
            return v.sym[1]
        if isinstance(v, StrV) and v.text is not None:
            bs = v.text.encode('latin-1') if isinstance(v.text, str) else bytes(v.text)
            return z3.Concat(*[z3.Unit(z3.BitVecVal(b, 8)) for b in bs]) if len(bs) > 1 else (z3.Unit(z3.BitVecVal(bs[0], 8)) if bs else z3.Empty(SEQ))
        items = v.items if isinstance(v, SeqV) else (v.fields if isinstance(v, Agg) and v.kind in ('array', 'tuple') else None)
        if items is not None and all(z3.is_bv(x) for x in items):
            us = [z3.Unit(x if x.size() == 8 else z3.Extract(7, 0, x)) for x in items]
            return z3.Concat(*us) if len(us) > 1 else (us[0] if us else z3.Empty(SEQ))
        raise Exception(f'byte sequence expected, got {v!r}')

    def concat(eng, st, call):
        from mirsym.values import SeqV, Agg
        arr = M.deref_all(eng, st, call.args[0])
        items = arr.items if isinstance(arr, SeqV) else (arr.fields if isinstance(arr, Agg) else None)
        if items is None:
            return None
        parts = [bytes_of(eng, st, x) for x in items]
        return [(st, zs(z3.Concat(*parts) if len(parts) > 1 else (parts[0] if parts else z3.Empty(SEQ))))]

    def index_full(eng, st, call):
        return [(st, call.args[0])]

    return [(R(r'Vec::<u8>::new$'), vec_new), (R(r'Vec::<u8>::extend_from_slice$'), extend), (R(r'Vec::<u8>::push$'), push), (R(r'str>::as_bytes$|String::as_bytes$'), as_bytes),
            (R(r'slice::<impl \[.*\]>::concat::<'), concat), (R(r' as (std::ops::)?Index<(std::ops::)?RangeFull>>::index$'), index_full)]


def no_nul(s, maxlen):
    i = z3.Int('i_' + str(s))
    return [z3.Length(s) <= maxlen, z3.Length(s) >= 1, z3.Not(z3.Contains(s, z3.Unit(z3.BitVecVal(0, 8))))]


@guard
def o1(tier):
    """AAD / HKDF context injectivity"""
    L = 6 if tier == 'quick' else 8
    ob = Ob('O1', f'build_aad and build_hkdf_context are injective: equal output => equal (hash, MIME type, file name, suffix), for all 32-byte hashes and all NUL-free MIME types / file names of 1..{L} bytes',
            models=seq_models(), loop_bound=4)
    total = 0
    for fn, with_suffix in (('build_aad', False), ('build_hkdf_context', True)):
        f = ob.fn(CORE, fn)
        outs = []
        for side in (1, 2):
            st = State()
            label = z3.Const('label', SEQ)
            h, m_, n_ = z3.Const(f'hash{side}', SEQ), z3.Const(f'mime{side}', SEQ), z3.Const(f'name{side}', SEQ)
            args = [Ref(st.temp(zs(label)), ()), Ref(st.temp(zs(h)), ()), Ref(st.temp(zs(m_)), ()), Ref(st.temp(zs(n_)), ())]
            sfx = None
            if with_suffix:
                sfx = z3.Const(f'suffix{side}', SEQ)
                args.append(Ref(st.temp(zs(sfx)), ()))
            paths = [p for p in ob.explore(f, args, st) if p.kind == 'return']
            if not ob.require(len(paths) == 1, f'O1/{fn}/shape', f'{fn} is not straight-line ({len(paths)} paths)'):
                break
            outs.append((seq_of(ob.eng, paths[0].st, paths[0].ret), h, m_, n_, sfx))
        if len(outs) != 2:
            continue
        (r1, h1, m1, n1, s1), (r2, h2, m2, n2, s2) = outs
        label = z3.Const('label', SEQ)
        key = lambda t: z3.Concat(*[z3.Unit(z3.BitVecVal(b, 8)) for b in t.encode()])
        cons = [z3.Length(h1) == 32, z3.Length(h2) == 32, label == key('mip04-v2')] + no_nul(m1, L) + no_nul(m2, L) + no_nul(n1, L) + no_nul(n2, L)
        diff = [h1 != h2, m1 != m2, n1 != n2]
        if with_suffix:
            cons += [z3.Or(s1 == key('key'), s1 == key('nonce')), z3.Or(s2 == key('key'), s2 == key('nonce'))]
            diff.append(s1 != s2)
        s = z3.Solver()
        s.set('timeout', 120000)
        s.add(cons + [r1 == r2, z3.Or(diff)])
        import time
        t0 = time.time()
        res = s.check()
        ob.eng.solver_s += time.time() - t0
        ob.eng.queries += 1
        total += 1
        if res == z3.sat:
            m = s.model()
            ob._fail(f'O1/{fn}/collision', f'{fn} maps two different (hash, MIME type, file name{", suffix" if with_suffix else ""}) tuples to the same bytes: '
                     f'mime {m.eval(m1)} / {m.eval(m2)}, name {m.eval(n1)} / {m.eval(n2)}', None, {'model': str(m)[:800]})
        elif res == z3.unknown:
            ob.r.broken(f'{fn}: z3 returned unknown ({s.reason_unknown()})')
        # vacuity: equal inputs give equal outputs and the constraints are satisfiable
        s2_ = z3.Solver(); s2_.add(cons + [r1 == r2]); ob.eng.queries += 1
        ob.require(s2_.check() == z3.sat, f'O1/{fn}/vacuity', 'constraints unsatisfiable')
        # NUL is what the injectivity rests on: without the no-NUL assumption a collision must exist (sanity of the encoding)
        s3 = z3.Solver(); s3.set('timeout', 60000)
        s3.add([z3.Length(h1) == 32, z3.Length(h2) == 32, z3.Length(m1) <= L, z3.Length(m2) <= L, z3.Length(n1) <= L, z3.Length(n2) <= L, r1 == r2, z3.Or(m1 != m2, n1 != n2)] +
               ([s1 == s2] if with_suffix else []))
        ob.eng.queries += 1
        ob.r.vacuity.append(f'{fn}: collision exists once NUL bytes are allowed inside the fields: {s3.check()} (expected sat: the encoding relies on the validators)')
        ob.sample({'function': fn, 'output_term': str(z3.simplify(r1))[:300]})
    ob.r.bounds = {'hash': 'all 32-byte values', 'MIME type / file name': f'all NUL-free byte strings of length 1..{L}', 'scheme label': 'mip04-v2', 'suffix': 'key | nonce'}
    ob.r.assumptions += ['validate_mime_type / validate_filename (executed by every caller before these builders) reject control characters, NUL in particular',
                         'AEAD tamper evidence, HKDF independence and epoch lookup are cryptography / MLS state: NOT covered']
    return ob.done(cases=total)


def o2(tier):
    """the epoch-hint lookup that selects the key epoch is scoped to the group (shared with C10-O3)"""
    from props import C10
    r = C10.o3(tier)
    r.oid = 'O2'
    r.title = 'SQLite find_message_epoch_by_tag_content (epoch hint for media keys) is restricted to the asking group and to rows with an epoch (shared with C10-O3)'
    return r


@guard
def o3(tier):
    """sender side: key context, AAD and published metadata name the same (hash, MIME type, file name, scheme)"""
    from mirsym.api import ev_is, uid_of
    ob = Ob('O3', 'encrypt_for_upload_with_options: the (scheme, hash, MIME type, file name) given to the key derivation, to the AEAD AAD and published in the upload metadata are the same terms '
                  '(canonical MIME type, validated file name, hash of the processed data); validators run before any key use', loop_bound=4)
    f = ob.fn(CORE, 'manager::encrypt_for_upload_with_options')
    args = [Opaque('self', '&EncryptedMediaManager<Storage>'), Opaque('data', '&[u8]'), Opaque('mime_type', '&str'), Opaque('filename', '&str'), Opaque('options', '&MediaProcessingOptions')]
    paths = ob.explore(f, args)
    n = 0
    for p in paths:
        if p.kind == 'panic':
            ob.require(False, 'O3/panic', p.msg, p); continue
        if vname(p.ret) != 'Ok':
            continue
        n += 1
        u = lambda v: uid_of(ob.eng, p.st, v)
        dk = [e for e in p.trace if ev_is(e, 'derive_encryption_key')]
        en = [e for e in p.trace if ev_is(e, 'encrypt_data_with_aad')]
        vm = [e for e in p.trace if ev_is(e, 'validate_mime_type')]
        vf = [e for e in p.trace if ev_is(e, 'validate_filename')]
        if not ob.require(len(dk) == 1 and len(en) == 1 and len(vm) == 1 and len(vf) == 1, 'O3/shape', f'{[e.short for e in p.trace]}', p):
            continue
        i_dk = p.trace.index(dk[0])
        ob.require(p.trace.index(vm[0]) < i_dk and p.trace.index(vf[0]) < i_dk and ob.eng.prove(p, z3.And(vm[0].ret.discriminant() == 0, vf[0].ret.discriminant() == 0))[0],
                   'O3/validate-first', 'key derived before / without successful MIME type and file name validation', p)
        # derive_encryption_key(mdk, group, scheme, hash, mime, filename); encrypt_data_with_aad(data, key, nonce, scheme, hash, mime, filename)
        kd = [u(x) for x in dk[0].args[2:6]]
        ad = [u(x) for x in en[0].args[3:7]]
        ob.require(kd == ad, 'O3/key-aad-mismatch', f'key derivation uses (scheme, hash, mime, name) = {kd} but the AAD uses {ad}: the file cannot be decrypted from its own metadata', p)
        up = p.ret.fields[0]
        names = up.names or []
        if 'mime_type' in names:
            ob.require(u(up.fields[names.index('mime_type')]) == kd[2], 'O3/published-mime', f'published MIME type {u(up.fields[names.index("mime_type")])} is not the one bound into the key ({kd[2]})', p)
            ob.require(u(up.fields[names.index('original_hash')]) == kd[1], 'O3/published-hash', 'published hash is not the one bound into the key', p)
        ob.require(kd[3] in ('filename', '*filename') and u(vf[0].args[0]) in ('filename', '*filename'), 'O3/filename', f'file name bound into the key: {kd[3]}', p)
        ob.require('validate_mime_type' in kd[2] or 'extract_and_process_metadata' in kd[2], 'O3/raw-mime', f'the MIME type bound into the key ({kd[2]}) is the caller\'s raw spelling, not the canonical one used on the decrypt side', p)
    ob.require(n >= 1, 'O3/vacuity', 'no Ok path')
    ob.r.bounds = {'paths': 'all'}
    ob.r.vacuity.append(f'{len(paths)} paths, {n} Ok')
    return ob.done(cases=len(paths))


@guard
def o4(tier):
    """the receiver reads the imeta fields verbatim: the element is split as it is, nothing is trimmed or folded before or after the split"""
    old = M.SEQ_BOUND[0]
    M.SEQ_BOUND[0] = 2
    try:
        ob = Ob('O4', 'parse_imeta_tag: each tag element is split exactly as received (first space separates key and value; no trimming / case folding before the split) and the value handed to '
                      'validate_filename / validate_mime_type / hex::decode and stored is the split value itself, so the (hash, MIME, file name) the receiver authenticates are the bytes the sender published',
                models=CM.codec_models(), loop_bound=12, pure=C.PURE_MLS, max_paths=50000)
        ob.eng.model_maps = False
        f = ob.fn(CORE, 'manager::parse_imeta_tag')
        paths = ob.explore(f, [Opaque('self', '&EncryptedMediaManager<Storage>'), Opaque('tag', '&nostr::Tag')])
    finally:
        M.SEQ_BOUND[0] = old
    VIEW = ('<String as Deref>::deref', 'String::as_str', '<String as AsRef>::as_ref', '<String as Borrow>::borrow')
    n_split = 0
    for p in paths:
        if p.kind == 'panic':
            continue
        u = lambda v: uid_of(ob.eng, p.st, v)
        produced = {u(e.ret): e for e in p.trace if e.ret is not None}
        for e in p.trace:
            if not (ev_is(e, 'splitn') or e.short.split('::')[-1] == 'split_once'):
                continue
            is_once = not ev_is(e, 'splitn')
            n_split += 1
            src = u(e.args[0])
            chain = []
            cur = src
            while cur in produced and len(chain) < 6:
                chain.append(produced[cur].short)
                cur = u(produced[cur].args[0]) if produced[cur].args else ''
            bad = [c for c in chain if c not in VIEW]
            ob.require(not bad and cur.startswith('iter['), 'O4/imeta-element-altered-before-split',
                       f'parse_imeta_tag splits {" <- ".join(chain) or src} (<- {cur}) instead of the tag element itself: the element is transformed ({bad}) before key and value are separated, '
                       'so a file name / MIME type with e.g. trailing whitespace is not what the sender authenticated', p)
            if is_once:
                ob.require(str(u(e.args[1])) in ('32', "' '"), 'O4/imeta-split-shape', f'split_once({u(e.args[1])}) does not split at the first space', p)
            else:
                ob.require(str(u(e.args[1])) == '2' and str(u(e.args[2])) == '32', 'O4/imeta-split-shape', f'splitn({u(e.args[1])}, {u(e.args[2])}) is not splitn(2, \' \')', p)
        # the sender accepts exactly what validate_mime_type / validate_filename accept; the receiver must not apply a second, narrower gate to the validated value
        for i, e in enumerate(p.trace):
            if ev_is(e, 'validate_mime_type', 'validate_filename') and e.ret is not None:
                base = u(e.ret)
                later = [x for x in p.trace[i + 1:] if any(base and u(a).lstrip('*').startswith(base) for a in x.args)]
                # ... or branches on its content (a comparison of the accepted value with anything shows up as a path-condition conjunct over `<validator>.Ok.0`)
                inspected = [str(c)[:80] for c in p.pc if base and (base + '.Ok.0') in str(c)]
                if inspected and not later:
                    later = [type('E', (), {'short': 'a comparison of the accepted value (' + inspected[0] + ')'})()]
                ob.require(not later, f'O4/imeta-second-gate/{e.short.split("::")[-1]}', f'after {e.short} accepted the value, parse_imeta_tag examines it again with {[x.short for x in later][:3]}: '
                           'the receiver refuses (or alters) tags the sender legitimately produced, so create_imeta_tag / parse_imeta_tag no longer round-trip', p)
        for e in p.trace:
            if ev_is(e, 'validate_filename', 'validate_mime_type', 'hex::decode', 'decode') and e.args:
                a = u(e.args[-1] if ev_is(e, 'validate_filename', 'validate_mime_type') else e.args[0])
                if ev_is(e, 'validate_filename', 'validate_mime_type'):
                    ob.require(a.startswith('splitn[') or re.match(r'split_once(#\d+)?\.Some\.0\.1$', a) is not None, f'O4/imeta-value-altered/{e.short.split("::")[-1]}', f'{e.short} is given {a}, not the value part of the split element', p)
    ob.require(n_split >= 2, 'O4/vacuity', f'split events (splitn / split_once) seen: {n_split}')
    ob.r.bounds = {'tag elements inspected': '<= 2 per path (the loop body is the same for every element)', 'paths': 'all'}
    return ob.done(cases=len(paths))


def o5(tier):
    """the exporter secrets of ALL past epochs survive a rollback (a file shared long ago stays decryptable)"""
    from props import C09
    r = C09.sqlite_columns(tier)
    r.oid = 'O5'
    r.title = 'SQLite (shared with C09-O2): the snapshot reads every exporter-secret row of the group (no LIMIT / ORDER truncation) and the rollback writes all of them back, so media of any earlier epoch stays decryptable after a commit race'
    return r

def o6(tier):
    """the epoch hint a receiver uses to find the media key is the epoch the announcing message was created in, whenever it was processed"""
    from props import C04
    r = C04.o3(tier)
    r.oid = 'O6'
    r.title = 'shared with C04-O3: the announcing message is recorded under its own epoch (the epoch whose exporter secret the sender used), regardless of when the receiver processed it -- ' + r.title[:160]
    return r


@guard
def o7(tier):
    """the epoch the file was announced in is tried first; the current-epoch key is only a fallback and cannot mask a successful hint"""
    ob = Ob('O7', 'decrypt_from_download: the key of the epoch recorded with the announcing message is tried FIRST and, when it decrypts, the result is returned without deriving anything for the '
                  'current epoch (a member of the sharing epoch still decrypts later, also when no secret can be exported for the current epoch, e.g. after having been removed); the fallback '
                  'runs only after the hint failed', pure=C.PURE_MLS)
    f = ob.fn(CORE, 'manager::decrypt_from_download')
    paths = ob.explore(f, [Opaque('self', '&EncryptedMediaManager<Storage>'), Opaque('data', '&[u8]'), Opaque('reference', '&MediaReference')])
    n_hint = n_fb = 0
    for p in paths:
        if p.kind == 'panic':
            ob.require(False, 'O7/panic', p.msg, p); continue
        hint = [(i, e) for i, e in enumerate(p.trace) if ev_is(e, 'try_decrypt_with_epoch_hint')]
        der = [(i, e) for i, e in enumerate(p.trace) if ev_is(e, 'derive_encryption_key')]
        if not ob.require(bool(hint), 'O7/no-epoch-hint', 'decrypt_from_download does not try the recorded epoch', p):
            continue
        ih, eh = hint[0]
        ob.require(not der or der[0][0] > ih, 'O7/fallback-before-hint', 'the current-epoch key is derived before the recorded epoch was tried: when that derivation fails (no exporter secret for the current epoch) '
                   'a file of an earlier epoch can no longer be decrypted although its key is stored', p)
        if ob.eng.prove(p, eh.ret.discriminant() == 0)[0]:
            n_hint += 1
            ob.require(vname(p.ret) == 'Ok' and not der, 'O7/hint-success-not-returned', 'the recorded epoch decrypted the file, yet the function goes on (or fails)', p)
        elif der:
            n_fb += 1
    ob.require(n_hint >= 1 and n_fb >= 1, 'O7/vacuity', f'hint-success paths {n_hint}, fallback paths {n_fb}')
    ob.r.bounds = {'paths': 'all'}
    return ob.done(cases=len(paths))


def o8(tier):
    """the group image key material (hash, seed, nonce) is stored as published: a re-saved group record overwrites every column"""
    from props import C10
    r = C10.o4(tier)
    r.oid = 'O8'
    r.title = 'SQLite (shared with C10-O4): re-saving the group record overwrites image_hash / image_key / image_nonce (and every other column) with the new values, so a replaced group image decrypts with the stored seed and nonce'
    return r


def o9(tier):
    """memory backend: the epoch hint of a media reference is found whatever the state of the announcing message"""
    from props import memobs
    return memobs.epoch_hint_lookup(tier, 'O9', 'O9')


def o10(tier):
    """the stored welcome / group record is read back column by column: the group image key is not taken from another column"""
    from props import C10
    r = C10.o8(tier)
    r.oid = 'O10'
    r.title = 'SQLite (shared with C10-O8): every stored value reaches its own column and every decoder reads each column once, into the field of the same name (group_image_key / group_image_nonce of a welcome, image_key / image_nonce of a group are the published ones)'
    return r


def o11(tier):
    """the sender's own announcement keeps the epoch it was created in when its relay echo confirms it"""
    from props import C02
    r = C02.o3(tier)
    r.oid = 'O11'
    r.title = 'own echo (shared with C02-O3): confirming an own message changes its state only -- its epoch is not re-stamped with the group\'s current epoch, so the epoch hint of an announced file still names the epoch whose secret encrypted it'
    return r


def o12(tier):
    """the receiver stores the announcing message under the epoch handed in by the dispatcher (O6: the message's own epoch), not under its current group epoch"""
    from props import C02
    r = C02.o2(tier)
    r.oid = 'O12'
    r.title = ('receiver (shared with C02-O2): process_application_message records the announcing message with epoch = the epoch handed in by the dispatcher (O6: the epoch the message was '
               'created in), not the receiver\'s current group epoch -- a receiver that processed a commit before the announcement still finds the key of the sharing epoch -- ' + r.title[:120])
    return r


def run(tier, seed, only=None):
    obs = [('O1', o1), ('O2', o2), ('O3', o3), ('O4', o4), ('O5', o5), ('O6', o6), ('O7', o7), ('O8', o8), ('O9', o9), ('O10', o10), ('O11', o11), ('O12', o12)]
    out = []
    for k, f in obs:
        if only and k not in only:
            continue
        try:
            out.append(f(tier))
        except Exception as e:                      # an engine that cannot read the tree is an inconclusive obligation, not a crash of the whole check
            from vlib.common import Result
            rr = Result(k, 'sqlsym' if type(e).__name__ == 'SqlError' else 'mirsym', f.__doc__ or f.__name__)
            rr.broken(f'{type(e).__name__}: {e}')
            out.append(rr)
    return out
