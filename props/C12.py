"""C12 — a crash at any storage step leaves a recoverable database (one clause: snapshot, rollback, relay replacement are all-or-nothing)."""
import os, re, time
import z3

from vlib.common import Result
from sqlsym import engine as S

EXPLANATION = ('Engine E4: the SQL statement lists of snapshot_group_state, restore_group_from_snapshot and replace_group_relays are extracted from the '
               'current source with their transaction / savepoint brackets; the process may die after any statement (symbolic crash index k). Under '
               "SQLite's contract that uncommitted transactions vanish on reopen, z3 decides that for every k the persisted effects are either none or all.")
TRUSTED = ['SQLite atomic commit (uncommitted transaction / savepoint contents vanish after a crash)', 'sqlsym statement extraction and classification', 'z3']

TARGETS = [('lib.rs', 'snapshot_group_state'), ('lib.rs', 'restore_group_from_snapshot'), ('groups.rs', 'replace_group_relays')]


def atomicity(rel, fn, sol, r):
    stmts = [S.parse_stmt(s) for s in S.program(rel, fn)]
    n = len(stmts)
    k = z3.Int('crash_after')            # statements 0..k-1 executed before the process died; k == n: no crash
    applied = []
    open_idx = None        # index of the statement that opened the current atomic bracket
    writes = []
    depth = 0
    brackets = []          # (open index, close index)
    for i, s in enumerate(stmts):
        up = s.text.upper()
        if s.kind == 'BEGIN' or (s.kind == 'SAVEPOINT' and depth == 0):
            open_idx = i; depth += 1; continue
        if s.kind == 'SAVEPOINT':
            depth += 1; continue
        if s.kind == 'COMMIT' or (s.kind == 'RELEASE' and depth == 1):
            if open_idx is not None:
                brackets.append((open_idx, i))
            open_idx = None; depth = max(0, depth - 1); continue
        if s.kind == 'RELEASE':
            depth -= 1; continue
        if s.kind == 'ROLLBACK':
            # textual error-path statement (after COMMIT in program order): not part of the success path
            continue
        if s.kind in ('INSERT', 'DELETE', 'UPDATE'):
            writes.append((i, s, open_idx))
    close_of = {o: c for o, c in brackets}
    for i, s, o in writes:
        if o is None:
            a = k > i                                     # autocommit: persisted as soon as executed
            if fn != 'replace_group_relays' or True:
                pass
        elif o in close_of:
            a = k > close_of[o]                           # persisted iff the bracket's COMMIT / RELEASE was executed
        else:
            a = z3.BoolVal(False)
            r.fail(f'O1/{fn}/bracket-never-closed', f'{fn}: transaction opened at statement {o} is never committed on the success path')
        applied.append((i, s, a))
    if not writes:
        r.fail(f'O1/{fn}/no-writes', f'{fn}: no state-changing statement found (extraction problem)')
        return 0
    dom = [k >= 0, k <= n]
    cases = 0
    # all-or-nothing: for every crash point every pair of writes is persisted alike
    for (i, s1, a1) in applied:
        for (j, s2, a2) in applied:
            if i < j:
                cases += 1
                sat, m = sol.check(dom + [a1 != a2])
                if sat:
                    kk = m[k].as_long()
                    key = f'O1/{fn}/not-atomic'
                    if not any(f['key'] == key for f in r.failures):
                        r.fail(key, f'{fn}: a crash after statement {kk} ("{stmts[kk - 1].text[:60]}") persists "{(s1 if z3.is_true(m.eval(a1)) else s2).text[:50]}" but not '
                                    f'"{(s2 if z3.is_true(m.eval(a1)) else s1).text[:50]}" (state-changing statement outside the transaction bracket)',
                               detail={'crash_after': kk, 'program': [x.text[:80] for x in stmts]})
    sps = [s for s in stmts if s.kind == 'SAVEPOINT']
    if sps:
        name = sps[0].text.split()[-1]
        err = [s.text for s in stmts if s.kind == 'ROLLBACK']
        full = any(re.search(r'ROLLBACK TO (SAVEPOINT )?' + re.escape(name), t, re.I) and re.search(r'RELEASE (SAVEPOINT )?' + re.escape(name), t, re.I) for t in err) \
            or any(re.fullmatch(r'ROLLBACK', t.strip(), re.I) for t in err)
        if err and not full:
            r.fail(f'O1/{fn}/savepoint-left-open', f'{fn}: the error path rewinds savepoint {name} but never releases it: the implicit transaction stays open and every later write on the '
                   'connection is lost when the database is closed')
    # control flow between the statement that opens the bracket and the guarded block whose result decides COMMIT / ROLLBACK:
    # an early exit (`?`, `return`) there leaves the transaction open (and its file lock held); every later write of the connection is
    # then uncommitted and vanishes with the process
    body = S.fn_body(S.source(rel), fn)
    flat = re.sub(r'//[^\n]*', '', body)
    mo = re.search(r'"\s*(BEGIN[^"]*|SAVEPOINT[^"]*)"', flat)
    if mo:
        rest = flat[mo.end():]
        stmt_end = rest.find(';')                      # end of the statement that executes BEGIN (its own `?` happens before the transaction exists)
        mg = re.search(r'=\s*\(\s*\|\|', rest)                # `let result = (|| ... { ... })();`
        if mg and stmt_end >= 0 and mg.start() > stmt_end:
            between = rest[stmt_end + 1: mg.start()]
            exits = re.findall(r'\?\s*[;,)\n]|\breturn\b', between)
            if exits:
                r.fail(f'O1/{fn}/early-exit-in-open-transaction', f'{fn}: between the statement that opens the transaction and the block guarded by COMMIT/ROLLBACK there are {len(exits)} early exit(s) '
                       '(`?` / `return`): an error there returns with the transaction still open, so later writes on the connection are never committed')
        elif not mg:
            r.notes.append(f'{fn}: no guarded closure after the opening statement (error path checked at statement level only)')
    if not any(s.kind == 'ROLLBACK' for s in stmts):
        r.fail(f'O1/{fn}/no-rollback-on-error', f'{fn}: no ROLLBACK on the error path (a failed statement would leave the transaction open)')
    r.samples.append({'function': fn, 'statements': [f'{i}: {s.kind} {s.table or ""}' for i, s in enumerate(stmts)], 'brackets': brackets,
                      'writes_inside_bracket': sum(1 for _, _, o in writes if o is not None), 'writes_total': len(writes)})
    return cases


def o1(tier):
    r = Result('O1', 'sqlsym', 'snapshot creation, rollback and relay replacement are all-or-nothing for a crash after any statement (symbolic crash index)')
    t0 = time.time()
    sol = S.Solver()
    for rel, fn in TARGETS:
        r.cases += atomicity(rel, fn, sol, r)
        r.functions.append(f'mdk_sqlite_storage::{fn} (SQL program)')
    # the all-or-nothing argument rests on SQLite's rollback journal / WAL being on disk and synced: configuration-level contract
    for rel in ('lib.rs', 'encryption.rs', 'db.rs'):
        for lit in S.all_sql_literals(rel):
            for m in re.finditer(r'PRAGMA\s+(\w+)\s*=\s*([\w"\']+)', lit, re.I):
                k, v = m.group(1).lower(), m.group(2).strip('"\'').upper()
                r.cases += 1
                if k == 'journal_mode' and v in ('MEMORY', 'OFF'):
                    r.fail('O1/journal-mode', f'{rel}: PRAGMA journal_mode = {v}: the rollback journal is not on disk, a crash inside a transaction leaves a torn database (atomic commit is lost)')
                if k == 'synchronous' and v in ('OFF', '0'):
                    r.fail('O1/synchronous-off', f'{rel}: PRAGMA synchronous = {v}: committed transactions may be lost or torn on power failure')
                if k == 'foreign_keys' and v in ('OFF', '0'):
                    r.fail('O1/foreign-keys-off', f'{rel}: PRAGMA foreign_keys = {v}')
    # SQLite recovers an interrupted transaction from its rollback journal / WAL at the next open: the backend must never delete or truncate those files itself
    import glob as _glob
    for path in sorted(_glob.glob(os.path.join(S.SQLITE, 'src', '*.rs'))):
        src = re.sub(r'//[^\n]*', '', open(path).read())
        mt = re.search(r'#\[cfg\(test\)\]\s*(pub\s+)?mod\s+\w+\s*\{', src)
        if mt:
            src = src[:mt.start()]                     # the unit-test module (test-only helpers elsewhere stay in)
        for m in re.finditer(r'(remove_file|remove_dir_all|File::create|set_len|fs::write|truncate)\s*\(', src):
            ctx = src[max(0, m.start() - 400): m.end() + 200]
            if re.search(r'-journal|-wal|-shm|journal|\bwal\b', ctx, re.I):
                r.cases += 1
                r.fail('O1/journal-file-removed', f'{os.path.basename(path)}: {m.group(1)}() is applied to SQLite\'s journal / WAL side files: after a crash inside a transaction the next open cannot roll the '
                       'half-written pages back (torn database; snapshot and rollback are no longer all-or-nothing)')
                break
    r.queries = sol.queries
    r.solver_s = sol.time
    r.bounds = {'crash point': 'any statement boundary (symbolic k)', 'loops': 'each statement literal stands for all its executions (a loop body inside the bracket stays inside)'}
    r.assumptions += ['statements reached through rusqlite run in autocommit mode unless bracketed by BEGIN/COMMIT or SAVEPOINT/RELEASE',
                      'the main clause of C12 (re-processing the interrupted event converges) spans OpenMLS writes and is NOT covered']
    r.wall_s = time.time() - t0
    return r


def o2(tier):
    """retrying the interrupted operation converges: MDK::merge_pending_commit re-synchronises the stored record on EVERY successful return,
    also when the OpenMLS merge had already been persisted by the interrupted run (no commit pending any more)"""
    from mirsym.api import Ob, Opaque, ev_is, vname
    from mirsym import contracts as C
    from props.C05 import res_ok
    ob = Ob('O2', 'MDK::merge_pending_commit (the retry after a crash between the OpenMLS merge and the record update): every successful return has re-synchronised the stored group record '
                  'with the MLS state, whether or not a commit was still pending', pure=C.PURE_MLS, models=C.staged_commit_models(1), loop_bound=5)
    f = ob.fn('mdk-core', 'groups::merge_pending_commit')
    paths = ob.explore(f, [Opaque('self', '&MDK<Storage>'), Opaque('group_id', '&mdk_storage_traits::GroupId')])
    n_ok = n_nopending = 0
    for p in paths:
        if p.kind != 'return' or vname(p.ret) != 'Ok':
            continue
        n_ok += 1
        sy = [e for e in p.trace if ev_is(e, 'sync_group_metadata_from_mls')]
        pc_ = [e for e in p.trace if ev_is(e, 'pending_commit')]
        nopend = bool(pc_) and ob.eng.prove(p, pc_[0].ret.discriminant() == 0)[0]
        n_nopending += nopend
        ob.require(bool(sy) and res_ok(ob, p, sy[-1]), 'O2/merge_pending_commit/ok-without-resync' + ('-when-nothing-pending' if nopend else ''),
                   'merge_pending_commit returns Ok without re-synchronising the stored record' + (' when no commit is pending: a retry after a crash that hit between the OpenMLS merge and the '
                   'record update leaves the stored epoch / group data behind the MLS state for good' if nopend else ''), p)
    ob.require(n_ok >= 1, 'O2/vacuity', 'no successful path')
    ob.r.bounds = {'paths': 'all', 'pending-commit proposal list': '0..1'}
    ob.r.assumptions.append('OpenMLS: MlsGroup::merge_pending_commit is a no-op returning Ok when no commit is pending; the merge is persisted by OpenMLS before it returns')
    ob.r.vacuity.append(f'{len(paths)} paths, {n_ok} successful, {n_nopending} of them with provably no pending commit')
    return ob.done(cases=len(paths))


def o3(tier):
    """retrying an interrupted accept converges: accept_welcome never returns Ok without having written the group as Active"""
    from mirsym.api import Ob, Opaque, ev_is, vname
    from mirsym import contracts as C
    from props.C16 import group_state_of
    ob = Ob('O3', 'MDK::accept_welcome (the retry after a crash between marking the welcome accepted and activating the group): every successful return has saved the group record in state Active, '
                  'whatever state the stored welcome is in', pure=C.PURE_MLS)
    f = ob.fn('mdk-core', 'welcomes::accept_welcome')
    paths = ob.explore(f, [Opaque('self', '&MDK<Storage>'), Opaque('welcome', '&mdk_storage_traits::welcomes::types::Welcome')])
    n_ok = 0
    for p in paths:
        if p.kind != 'return' or vname(p.ret) != 'Ok':
            continue
        n_ok += 1
        sg = [e for e in p.trace if ev_is(e, 'save_group') and not ev_is(e, 'save_group_exporter_secret')]
        gg = [e for e in p.trace if ev_is(e, 'get_group', 'find_group_by_mls_group_id')]
        none_found = bool(gg) and ob.eng.prove(p, z3.And(gg[-1].ret.discriminant() == 0, gg[-1].ret.child('Ok', 0, 'Option<Group>').discriminant() == 0))[0]
        ok = (bool(sg) and any(group_state_of(ob, p, e.args[1]) == 'Active' for e in sg)) or none_found        # (no record of the group at all: nothing to activate)
        ob.require(ok, 'O3/accept_welcome/ok-without-activation', 'accept_welcome returns Ok without saving the group as Active: a retry after a crash that hit between the two writes leaves the group Pending for good', p)
    ob.require(n_ok >= 1, 'O3/vacuity', 'no successful path')
    ob.r.bounds = {'paths': 'all', 'stored welcome': 'arbitrary (any state)'}
    return ob.done(cases=len(paths))


def o6(tier):
    """after a crash between the OpenMLS merge and the record update the stored record lags behind the MLS state: the exporter secret must follow the MLS state"""
    from mirsym.api import Ob, Opaque, ev_is, vname, uid_of
    from mirsym import contracts as C
    ob = Ob('O6', 'MDK::exporter_secret: every secret looked up, exported, saved or returned is that of the epoch of the loaded MLS group (MlsGroup::epoch), never of the epoch in the stored '
                  'group record, which lags behind after a crash between merge_staged_commit and the record update (the re-delivered events could then never be decrypted)', pure=C.PURE_MLS)
    f = ob.fn('mdk-core', 'MDK::exporter_secret')
    paths = ob.explore(f, [Opaque('self', '&MDK<Storage>'), Opaque('group_id', '&GroupId')])
    n_ok = n_hit = n_miss = 0
    for p in paths:
        if p.kind == 'panic':
            ob.require(False, 'O6/panic', p.msg, p); continue
        if vname(p.ret) != 'Ok':
            continue
        n_ok += 1
        u = lambda v: uid_of(ob.eng, p.st, v)
        ld = [e for e in p.trace if ev_is(e, 'load_mls_group')]
        if not ob.require(bool(ld) and u(ld[0].args[1]) == 'group_id', 'O6/no-mls-load', 'a secret is returned without loading the MLS group of the asked group id', p):
            continue
        mls = u(ld[0].ret) + '.Ok.0.Some.0'
        want = f'GroupEpoch::as_u64(MlsGroup::epoch({mls}))'
        lk = [e for e in p.trace if ev_is(e, 'get_group_exporter_secret')]
        for e in lk:
            ob.require(u(e.args[1]) == 'group_id' and u(e.args[2]) == want, 'O6/lookup-epoch-source',
                       f'the exporter secret is looked up for ({u(e.args[1])}, {u(e.args[2])[:100]}), not for the epoch of the MLS group ({want})', p)
        sv = [e for e in p.trace if ev_is(e, 'save_group_exporter_secret')]
        ex = [e for e in p.trace if ev_is(e, 'export_secret')]
        ret = u(p.ret)
        if sv:
            n_miss += 1
            ob.require(bool(ex) and u(ex[0].args[0]) == mls, 'O6/export-source', 'the secret saved is not exported from the loaded MLS group', p)
            from mirsym.values import Agg
            rec = sv[0].args[1]
            ep = None
            if isinstance(rec, Agg):
                names = rec.names or []
                ep = rec.fields[names.index('epoch')] if 'epoch' in names else (rec.fields[1] if len(rec.fields) > 1 else None)
            ob.require(ep is not None and u(ep) == want, 'O6/save-epoch-source', f'the exported secret is saved under epoch {u(ep)[:120] if ep is not None else u(rec)[:120]}, not under the epoch of the MLS group', p)
        else:
            n_hit += 1
            ob.require(len(lk) == 1 and u(lk[0].ret) in ret, 'O6/return-source', f'the secret returned ({ret[:120]}) is not the one found for the epoch of the MLS group', p)
    ob.require(n_hit >= 1 and n_miss >= 1, 'O6/vacuity', f'ok paths {n_ok}: cached {n_hit}, exported {n_miss}')
    ob.r.bounds = {'paths': 'all'}
    ob.r.vacuity.append(f'{len(paths)} paths; {n_hit} cached, {n_miss} exported')
    return ob.done(cases=len(paths))


def o5(tier):
    """a write repeated after a crash replaces the interrupted one completely"""
    from props import C10
    r = C10.o4(tier)
    r.oid = 'O5'
    r.title = 'SQLite (shared with C10-O4): every upsert overwrites every non-key column, so an operation retried after a crash (same rumor, new wrapper event) leaves the row of the retry, not a mix with the interrupted attempt'
    return r


def run(tier, seed, only=None):
    out = []
    if not only or 'O1' in only:
        try:
            out.append(o1(tier))
        except S.SqlError as e:
            r = Result('O1', 'sqlsym', 'atomicity')
            r.broken(f'SQL engine: {e}')
            out.append(r)
    if not only or 'O2' in only:
        from mirsym.api import guard
        out.append(guard(o2)(tier))
    if not only or 'O3' in only:
        from mirsym.api import guard
        out.append(guard(o3)(tier))
    if not only or 'O4' in only:
        from props import C02
        r4 = C02.o3(tier); r4.oid = 'O4'
        r4.title = 'own echo (shared with C02-O3): the message is confirmed BEFORE its processed record is (save_message, then save_processed_message), so a crash between the two writes is healed by the retry instead of being stopped by the dedup gate'
        out.append(r4)
    if not only or 'O5' in only:
        try:
            out.append(o5(tier))
        except S.SqlError as e:
            r = Result('O5', 'sqlsym', 'upserts')
            r.broken(f'SQL engine: {e}')
            out.append(r)
    if not only or 'O6' in only:
        from mirsym.api import guard
        out.append(guard(o6)(tier))
    return out
