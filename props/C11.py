"""C11 — restarting on persistent storage is invisible (partial: the snapshot manager's view of stored snapshots)."""
import z3

from mirsym.api import Ob, guard, StatePath, Opaque, Agg, Ref, vname
from mirsym.values import StrV, Tok
from mirsym import snapmodel as SM
from mirsym import models as M
from props.snapharness import Harness, sequences
from props.C20 import GID, cid
from vlib import scen

EXPLANATION = ('Engine E3c: manager A performs create/rollback steps on a persistent stub storage; manager B is created fresh on the same storage (the restart) and '
               'hydrates itself through the real ensure_hydrated / parse_snapshot_name MIR; for a symbolic later query both must answer alike. The name parser is '
               'explored on the name term and on malformed names.')
TRUSTED = ['rustc nightly MIR dump', 'mirsym interpreter + container models', 'snapshot-name term model and split/parse models (mirsym/snapmodel.py)', 'z3']


@guard
def o1(tier):
    """parse_snapshot_name picks the right components and refuses other shapes"""
    ob = Ob('O1', 'parse_snapshot_name(name(g, e, id)) = Some{epoch e, commit id, timestamp 0}; names that do not have exactly four "_"-separated parts starting with "snap" are refused')
    h = Harness(ob, persistent=True)
    f = ob.fn('mdk-core', 'epoch_snapshots::EpochSnapshotManager::parse_snapshot_name')
    from mirsym.engine import State
    e, c = z3.BitVec('e', 64), z3.BitVec('cid', 256)
    n = 0
    for name, want in [(StrV(sym=SM.Name(GID, e, c)), 'Some'), (StrV(text='snap_aa_1'), 'None'), (StrV(text='snapshot_aa_1_bb'), 'None'), (StrV(text='snap_aa_1_bb_cc'), 'None'),
                       (StrV(text='snap_aa_x_bb'), 'None'), (StrV(text=''), 'None')]:
        st = State()
        paths = ob.explore(f, [Ref(st.temp(name), ()), Ref(st.temp(GID), ()), z3.BitVec('created_at', 64)], st)
        for p in paths:
            n += 1
            if p.kind == 'panic':
                ob.require(False, 'O1/panic', f'parse_snapshot_name can panic on {name!r}: {p.msg}', p); continue
            ob.require(vname(p.ret) == want, f'O1/{want}-expected', f'parse_snapshot_name({name!r}) = {vname(p.ret)}', p)
            if want == 'Some' and vname(p.ret) == 'Some':
                f_ = SM.snap_fields(p.ret.fields[0])
                ob.prove(p, z3.And(f_['epoch'] == e, SM.id_bv(f_['applied_commit_id']) == c), 'O1/components', 'the parsed snapshot does not carry the epoch and commit id encoded in the name')
                ob.prove(p, f_['applied_commit_ts'] == 0, 'O1/fabricated-timestamp', 'the parsed snapshot carries a commit timestamp although none is persisted (anything but the 0 marker is fabricated)')
                ob.require(isinstance(f_['snapshot_name'], StrV) and f_['snapshot_name'].sym is name.sym, 'O1/name-kept', 'parsed snapshot does not keep its stored name', p)
    ob.r.bounds = {'well-formed names': 'all u64 epochs, all 256-bit ids (term model)', 'malformed names': '5 concrete shapes'}
    ob.r.assumptions += SM.ASSUMPTIONS + ['hex never contains "_" and u64 Display/parse round-trips (library facts)']
    return ob.done(cases=n)


@guard
def o2(tier):
    """a manager re-created on the same storage answers like the one that took the snapshots"""
    K = 3 if tier == 'quick' else 4
    ob = Ob('O2', f'after every sequence of <= {K} create / rollback steps on persistent storage, a freshly created manager (restart) and the original one give the same answer to is_better_candidate and rollback_to_epoch for every later query')
    h = Harness(ob, persistent=True)
    r = z3.BitVecVal(5, 64)
    total = 0
    from props.snapharness import sequences
    for seq in [q for q in sequences(K) if q[0] == 'C']:
        states = h.start(r, [])
        for i, step in enumerate(seq):
            nxt = []
            for st, mgr, ref in states:
                if step == 'C':
                    e, t, c = z3.BitVec(f'e{i}', 64), z3.BitVec(f't{i}', 64), cid(i)
                    for p in h.create(st, mgr, GID, e, c, t):
                        ref2 = h.ref_create(p.st, ref, r, e, c, t)
                        if ref2 is not None:
                            p.st.pc.append(t != 0)
                            nxt.append((p.st, mgr, ref2))
                else:
                    # a rollback before the restart: what it discards must also be gone from storage, or the restarted manager sees it again
                    e = z3.BitVec(f'target{i}', 64)
                    for p in h.rollback(st, mgr, GID, e):
                        ref2, found = h.ref_rollback(p.st, ref, e)
                        if ref2 is not None:
                            nxt.append((p.st, mgr, ref2))
            states = nxt
        ce, ct, cc = z3.BitVec('cand_epoch', 64), z3.BitVec('cand_ts', 64), z3.BitVec('cand_id', 256)
        for st, mgr_a, ref in states:
            mgr_b = h.fresh_manager(st, r)
            for pa in h.better(st, mgr_a, GID, ce, ct, cc):
                for pb in h.better(pa.st, mgr_b, GID, ce, ct, cc):
                    total += 1
                    if not ob.eng.prove(pb, z3.Implies(pb.ret, pa.ret))[0]:
                        ob._fail('O2/hydrated-manager-invents-better-candidate',
                                 'after a restart is_better_candidate answers TRUE where the pre-restart manager answers false: a commit that lost the race before the restart now triggers a rollback '
                                 '(the hydrated snapshot carries a fabricated applied-commit timestamp)', pb, None)
                    ok = ob.eng.prove(pb, z3.Implies(pa.ret, pb.ret))[0]
                    if not ok:
                        ob._fail('O2/hydrated-snapshot-has-no-timestamp',
                                 'after a restart the snapshot manager no longer recognises a better commit: hydrated snapshots carry applied_commit_ts = 0 (the timestamp is not persisted), '
                                 'so is_better_candidate answers false where the pre-restart manager answers true; a late MIP-03 winner is then not rolled back to', pb, None)
                    # the tracked set itself survives
                    qa, qb = SM.queue_of(ob.eng, pb.st, mgr_a, GID), SM.queue_of(ob.eng, pb.st, mgr_b, GID)
                    same = len(qa) == len(qb) and all(ob.eng.prove(pb, z3.And(SM.snap_fields(x)['epoch'] == SM.snap_fields(y)['epoch'],
                                                                                SM.id_bv(SM.snap_fields(x)['applied_commit_id']) == SM.id_bv(SM.snap_fields(y)['applied_commit_id'])))[0] for x, y in zip(qa, qb))
                    ob.require(same, 'O2/hydrated-queue-differs', f'hydrated manager tracks {len(qb)} snapshots, the original {len(qa)} (or different epochs/ids)', pb)
    ob.r.bounds = {'create / rollback steps before the restart': f'1..{K}', 'retention': 5, 'timestamps': 'non-zero u64', 'ids': '248 symbolic bits'}
    ob.r.assumptions += SM.ASSUMPTIONS
    ob.r.vacuity.append(f'{total} (pre-restart, post-restart) answer pairs compared')
    r_ = ob.done(cases=total)
    scen.confirm(r_, 'O2/hydrated-snapshot-has-no-timestamp', 'c01', 'c11_restart_between_competing_commits')
    return r_


def o3(tier):
    """what survives a restart is what was committed: no storage method may return with a transaction/savepoint still open
    (every later write of that connection would sit in an uncommitted transaction and vanish at restart). Shared with C12-O1."""
    from props import C12
    from sqlsym import engine as S
    try:
        r = C12.o1(tier)
    except S.SqlError as e:
        from vlib.common import Result
        r = Result('O3', 'sqlsym', 'transaction brackets'); r.broken(f'SQL engine: {e}'); return r
    r.oid = 'O3'
    r.title = ('SQLite (shared with C12-O1): every BEGIN / SAVEPOINT opened by snapshot creation, rollback and relay replacement is closed on every path, '
               'error paths included (ROLLBACK, or ROLLBACK TO + RELEASE), so no later write is left in an uncommitted transaction that a restart would drop; durable journal settings')
    return r


def o4(tier):
    """what a restart re-loads is what belongs to the group: the rollback never files another group's snapshots under this group"""
    from props import C09
    r = C09.sqlite_columns(tier)
    r.oid = 'O4'
    r.title = 'SQLite (shared with C09-O2): the snapshots a rollback puts back are this group\'s own, unchanged -- after a restart the manager re-loads exactly the snapshots the group had'
    return r


def o5(tier):
    """a snapshot consumed by a rollback is gone from the table: a restart does not re-load it as a stale entry (timestamp 0) that shadows the next commit of that epoch"""
    from props import C09
    r = C09.sqlite_restore(tier)
    r.oid = 'O5'
    r.title = 'SQLite (shared with C09-O1): after restore_group_from_snapshot the consumed snapshot is deleted on every path (early exits included) and the other snapshots of the group are kept: what a restart hydrates is what the running manager tracks'
    return r


def o6(tier):
    """a refused commit leaves no snapshot behind: a restart would re-load it as an entry without timestamp that shadows the real commit of that epoch"""
    from props import C05
    r = C05.o3(tier)
    r.oid = 'O6'
    r.title = 'process_commit (shared with C05-O3): both validators run before create_snapshot and a refusal returns without any write, so no snapshot exists for a commit that was never applied (after a restart such a snapshot would be hydrated with timestamp 0 and block the MIP-03 comparison for its epoch)'
    return r


def run(tier, seed, only=None):
    obs = [('O1', o1), ('O2', o2), ('O3', o3), ('O4', o4), ('O5', o5), ('O6', o6)]
    out = []
    for k, f in obs:
        if only and k not in only:
            continue
        try:
            out.append(f(tier))
        except Exception as e:                      # an engine that cannot read the tree is an inconclusive obligation, not a crash of the whole check
            from vlib.common import Result
            rr = Result(k, 'sqlsym' if type(e).__name__ == 'SqlError' else 'mirsym', f.__doc__ or f.__name__)
            rr.broken(f'{type(e).__name__}: {e}')
            out.append(rr)
    return out
