"""Validation of sqlsym's trusted part against a real SQLite engine (python sqlite3, in memory).

Run once per process by every E4 obligation (`ensure()`): the repository's migrations are executed, and each semantic rule the
relational encoding relies on is checked on the real engine.  A mismatch makes the E4 obligations BROKEN (the encoding would be
reasoning about a different database than the one the code talks to).  This is translator validation, not a decision procedure:
the verdicts of the checks still come from z3.
"""
import glob, os, re, sqlite3

from . import engine as S

_DONE = {}


def _db():
    con = sqlite3.connect(':memory:', isolation_level=None)
    con.execute('PRAGMA foreign_keys = ON')
    for f in sorted(glob.glob(os.path.join(S.SQLITE, 'migrations', 'V*.sql'))):
        con.executescript(open(f).read())
    return con


def _dummy(coltype, seed):
    t = coltype.upper()
    if t in ('INTEGER', 'INT', 'BIGINT'):
        return seed
    if t == 'BLOB':
        return bytes([seed % 251]) * 4
    return f'v{seed}'


def _insert_row(con, tables, t, overrides, seed):
    cols = [c[0] for c in t.cols]
    vals = [overrides.get(c[0], _dummy(c[1], seed + i)) for i, c in enumerate(t.cols)]
    con.execute(f'INSERT INTO {t.name} ({", ".join(cols)}) VALUES ({", ".join("?" * len(cols))})', vals)


def checks():
    """[(rule, ok, detail)]"""
    out = []
    tables = S.load_catalogue()
    # --- R1 catalogue == engine: columns, primary keys, foreign keys of every table as the real engine sees them
    con = _db()
    real = [r[0] for r in con.execute("SELECT name FROM sqlite_master WHERE type='table' AND name NOT LIKE 'sqlite_%'")]
    out.append(('R1 table set of the catalogue == sqlite_master', sorted(real) == sorted(tables), f'{sorted(set(real) ^ set(tables))}'))
    for name, t in tables.items():
        if name not in real:
            continue
        cols = [(r[1], (r[2] or '').upper(), bool(r[3])) for r in con.execute(f'PRAGMA table_info({name})')]
        ok = [c[0] for c in cols] == t.colnames()
        out.append((f'R1 columns of {name}', ok, f'engine {[c[0] for c in cols]} vs catalogue {t.colnames()}'))
        pk = [r[1] for r in sorted(con.execute(f'PRAGMA table_info({name})').fetchall(), key=lambda r: r[5]) if r[5]]
        out.append((f'R1 primary key of {name}', pk == t.pk, f'engine {pk} vs catalogue {t.pk}'))
        fks = sorted((r[3], r[2], r[4], r[6].upper() if r[6].upper() in ('CASCADE', 'SET NULL') else 'RESTRICT') for r in con.execute(f'PRAGMA foreign_key_list({name})'))
        out.append((f'R1 foreign keys of {name}', fks == sorted(t.fks), f'engine {fks} vs catalogue {sorted(t.fks)}'))
        uq = []
        for r in con.execute(f'PRAGMA index_list({name})').fetchall():
            if r[2] and r[3] != 'pk':
                uq.append([c[2] for c in con.execute(f'PRAGMA index_info({r[1]})')])
        out.append((f'R1 unique constraints of {name}', sorted(map(sorted, uq)) == sorted(map(sorted, t.uniques)), f'engine {uq} vs catalogue {t.uniques}'))
    # --- R2 ON DELETE CASCADE closure: delete a groups row, exactly the catalogue's cascade children lose their rows
    con = _db()
    g = tables.get('groups')
    if g is not None:
        gid = b'\x01\x02'
        _insert_row(con, tables, g, {'mls_group_id': gid}, 10)
        kids = S.cascade_children(tables, 'groups')
        filled = []
        for cname, ccol in kids:
            try:
                _insert_row(con, tables, tables[cname], {ccol: gid}, 30)
                filled.append(cname)
            except sqlite3.Error as e:
                out.append((f'R2 insert child row into {cname}', False, str(e)))
        others = [t for t in tables.values() if t.name not in filled and t.name != 'groups' and not t.fks]
        for t in others:
            try:
                _insert_row(con, tables, t, {}, 50)
            except sqlite3.Error:
                pass
        before = {t: con.execute(f'SELECT COUNT(*) FROM {t}').fetchone()[0] for t in tables}
        con.execute('DELETE FROM groups WHERE mls_group_id = ?', (gid,))
        after = {t: con.execute(f'SELECT COUNT(*) FROM {t}').fetchone()[0] for t in tables}
        lost = sorted(t for t in tables if after[t] < before[t] and t != 'groups')
        out.append(('R2 DELETE FROM groups removes exactly the rows of the cascade children', lost == sorted(filled), f'lost {lost} vs catalogue children {sorted(filled)}'))
        # --- R3 INSERT OR REPLACE deletes the conflicting row and its cascade children; ON CONFLICT DO UPDATE does not
        con = _db()
        _insert_row(con, tables, g, {'mls_group_id': gid}, 10)
        child = filled[0] if filled else None
        if child:
            ccol = dict(kids)[child]
            _insert_row(con, tables, tables[child], {ccol: gid}, 30)
            cols = g.colnames()
            vals = [gid if c == 'mls_group_id' else _dummy(dict((x[0], x[1]) for x in g.cols)[c], 10 + i) for i, c in enumerate(cols)]
            con.execute(f'INSERT OR REPLACE INTO groups ({", ".join(cols)}) VALUES ({", ".join("?" * len(cols))})', vals)
            n = con.execute(f'SELECT COUNT(*) FROM {child}').fetchone()[0]
            out.append((f'R3 INSERT OR REPLACE on the primary key deletes the old row and cascades into {child}', n == 0, f'{n} child rows left'))
            con = _db()
            _insert_row(con, tables, g, {'mls_group_id': gid}, 10)
            _insert_row(con, tables, tables[child], {ccol: gid}, 30)
            setcol = [c for c in cols if c != 'mls_group_id'][0]
            con.execute(f'INSERT INTO groups ({", ".join(cols)}) VALUES ({", ".join("?" * len(cols))}) ON CONFLICT(mls_group_id) DO UPDATE SET {setcol} = excluded.{setcol}', vals)
            n = con.execute(f'SELECT COUNT(*) FROM {child}').fetchone()[0]
            out.append((f'R3 ON CONFLICT DO UPDATE keeps the row (no cascade into {child})', n == 1, f'{n} child rows left'))
    # --- R4 LIMIT / OFFSET rules used by the pagination obligations
    con = sqlite3.connect(':memory:')
    con.execute('CREATE TABLE t (k INTEGER, e INTEGER)')
    con.executemany('INSERT INTO t VALUES (?, ?)', [(1, None), (2, 5), (3, -1), (4, 2 ** 63 - 1)])
    q = lambda sql, *a: [r[0] for r in con.execute(sql, a)]
    out.append(('R4 negative OFFSET behaves as OFFSET 0', q('SELECT k FROM t ORDER BY k LIMIT 2 OFFSET ?', -5) == [1, 2], ''))
    out.append(('R4 OFFSET i64::MAX yields the empty page', q('SELECT k FROM t ORDER BY k LIMIT 2 OFFSET ?', 2 ** 63 - 1) == [], ''))
    out.append(('R4 negative LIMIT means no limit', q('SELECT k FROM t ORDER BY k LIMIT ?', -1) == [1, 2, 3, 4], ''))
    out.append(('R4 LIMIT l OFFSET o == sorted[o : o + l]', q('SELECT k FROM t ORDER BY k LIMIT 2 OFFSET 1') == [2, 3], ''))
    # --- R5 NULL and signed-integer comparison rules used by the predicate / ORDER BY obligations
    out.append(('R5 "e > ?" is false for NULL', q('SELECT k FROM t WHERE e > ? ORDER BY k', 1) == [2, 4], ''))
    out.append(('R5 "e IS NOT NULL AND e > ?" selects the same rows', q('SELECT k FROM t WHERE e IS NOT NULL AND e > ? ORDER BY k', 1) == [2, 4], ''))
    out.append(('R5 INTEGER comparison is signed 64-bit', q('SELECT k FROM t WHERE e < 0') == [3], ''))
    out.append(('R5 ORDER BY ... DESC puts NULL last, ASC first', q('SELECT k FROM t ORDER BY e DESC')[-1] == 1 and q('SELECT k FROM t ORDER BY e ASC')[0] == 1, ''))
    out.append(('R5 ORDER BY a DESC, b DESC is lexicographic', [tuple(r) for r in con.execute('SELECT a, b FROM (SELECT 1 a, 2 b UNION ALL SELECT 2, 1 UNION ALL SELECT 2, 3 UNION ALL SELECT 1, 1) ORDER BY a DESC, b DESC')] == [(2, 3), (2, 1), (1, 2), (1, 1)], ''))
    out.append(('R5 BLOB comparison is bytewise (memcmp) with shorter-prefix-first', q("SELECT x'00ff' < x'0100'")[0] == 1 and q("SELECT x'01' < x'0100'")[0] == 1, ''))
    try:
        con.execute('INSERT INTO t VALUES (?, ?)', (9, 2 ** 63))
        ok = False
    except OverflowError:
        ok = True
    out.append(('R5 an integer >= 2^63 cannot be bound (the driver refuses it)', ok, ''))
    # --- R6 transaction / savepoint rules used by the atomicity obligations
    con = sqlite3.connect(':memory:', isolation_level=None)
    con.execute('CREATE TABLE t (k INTEGER)')
    con.execute('SAVEPOINT s'); con.execute('INSERT INTO t VALUES (1)'); con.execute('ROLLBACK TO s')
    out.append(('R6 ROLLBACK TO leaves the savepoint (and its transaction) open', con.in_transaction, ''))
    con.execute('RELEASE s')
    out.append(('R6 RELEASE closes it', not con.in_transaction, ''))
    con.execute('BEGIN IMMEDIATE'); con.execute('INSERT INTO t VALUES (2)'); con.execute('ROLLBACK')
    out.append(('R6 ROLLBACK undoes every statement since BEGIN', con.execute('SELECT COUNT(*) FROM t').fetchone()[0] == 0 and not con.in_transaction, ''))
    con.execute('SAVEPOINT s'); con.execute('INSERT INTO t VALUES (3)'); con.execute('RELEASE s')
    out.append(('R6 an outermost RELEASE commits', con.execute('SELECT COUNT(*) FROM t').fetchone()[0] == 1 and not con.in_transaction, ''))
    # R7: col IN (SELECT c FROM t WHERE P) is true for a row iff SOME row satisfying P carries the same value (the witness may be another row); `= NULL` is never true
    c2 = sqlite3.connect(':memory:', isolation_level=None)
    c2.execute('CREATE TABLE m (g INTEGER, id INTEGER, e INTEGER, s TEXT, PRIMARY KEY (g, id))')
    c2.executemany('INSERT INTO m VALUES (?, ?, ?, ?)', [(1, 7, 5, 'a'), (2, 7, None, 'a'), (2, 8, 9, 'a')])
    c2.execute("UPDATE m SET s = 'x' WHERE id IN (SELECT id FROM m WHERE g = 1 AND e > 3)")
    out.append(('R7 IN (sub-select) matches through a witness row of another group', sorted(tuple(r) for r in c2.execute("SELECT g, id FROM m WHERE s = 'x'")) == [(1, 7), (2, 7)], ''))
    out.append(('R7 a comparison with a bound NULL is never true', c2.execute('SELECT COUNT(*) FROM m WHERE e = ?', (None,)).fetchone()[0] == 0
                and c2.execute('SELECT COUNT(*) FROM m WHERE e IS NULL').fetchone()[0] == 1, ''))
    return out


def ensure(r=None):
    """run the validation once per process; on mismatch mark the obligation result `r` broken; returns the list of failed rules"""
    if 'res' not in _DONE:
        try:
            _DONE['res'] = checks()
        except Exception as e:                      # the validator itself failing is a broken check, never a pass
            _DONE['res'] = [('sqlsym validation could not run', False, repr(e))]
    bad = [(n, d) for n, ok, d in _DONE['res'] if not ok]
    if r is not None:
        r.assumptions.append(f'sqlsym semantics validated on a real SQLite {sqlite3.sqlite_version} with the repository\'s migrations: {len(_DONE["res"]) - len(bad)} of {len(_DONE["res"])} rules agree '
                             '(catalogue vs sqlite_master, cascade closure, OR REPLACE vs DO UPDATE, LIMIT/OFFSET, NULL/signed comparison, savepoints)')
        if bad:
            r.broken('sqlsym semantic rule(s) disagree with the real SQLite engine: ' + '; '.join(f'{n} ({d})' for n, d in bad)[:800])
    return bad


if __name__ == '__main__':
    for n, ok, d in checks():
        print('ok  ' if ok else 'FAIL', n, '' if ok else d)
