"""Write-side fidelity of the SQLite backend: what is bound to an INSERT must be read back as what was given.

For every save_* method the `params![...]` list that follows the INSERT literal is taken from the current source, matched
positionally with the statement's column list, let-bound identifiers are expanded, and
  (1) the record field a parameter reads must not be the field of a *different* column of the same table (swapped columns);
  (2) for INTEGER columns the Rust-side numeric conversion (casts, try_from/unwrap_or, min/max/clamp, saturating ops) is turned into
      a z3 function f over the field's machine type, composed with rusqlite's ToSql acceptance rule and the read-side FromSql
      type found in db.rs, and z3 decides   forall x in dom(field): accepted(x) => read(f(x)) is defined and == x.
A conversion the translator does not understand is an inconclusive run (SqlError -> BROKEN), never a pass.
"""
import re
import z3

from . import engine as S

RISKY = re.compile(r'\bas\s+[iu](?:8|16|32|64|128|size)\b|try_from|try_into|unwrap_or|\.min\(|\.max\(|\.clamp\(|saturating_|wrapping_|checked_|overflowing_|%|>>|<<|\babs\b|\.pow\(')
INT_BITS = {'u8': 8, 'u16': 16, 'u32': 32, 'u64': 64, 'usize': 64, 'i8': 8, 'i16': 16, 'i32': 32, 'i64': 64, 'isize': 64}
# library accessors applied to stored TEXT / BLOB values (contracts): lossless = the decoder's constructor is its inverse
LOSSLESS_ACCESSORS = {'as_str', 'as_bytes', 'to_bytes', 'as_slice', 'to_vec', 'to_string', 'to_hex', 'as_json', 'to_owned', 'as_secs', 'as_u16', 'as_u64', 'to_string_lossless', 'from'}
# documented as normalising / truncating: two different values can map to the same stored value
LOSSY_ACCESSORS = {'as_str_without_trailing_slash', 'to_lowercase', 'to_uppercase', 'to_ascii_lowercase', 'to_ascii_uppercase', 'trim', 'trim_end', 'trim_start', 'trim_matches',
                   'trim_end_matches', 'trim_start_matches', 'truncate', 'to_string_lossy', 'from_utf8_lossy', 'split_whitespace', 'normalize', 'domain', 'host', 'host_str', 'path', 'scheme'}
ACCESSOR_TYPES = {'as_secs': 'u64', 'as_u64': 'u64', 'as_u16': 'u16', 'as_u32': 'u32', 'len': 'usize', 'as_u8': 'u8'}


def params_after(body, sql_prefix):
    """the params![...] (or rusqlite::params![...]) list following the SQL literal that starts with sql_prefix"""
    key = re.sub(r'\s+', ' ', sql_prefix)[:40]
    body = re.sub(r'\\\n\s*', '', body)                      # string continuation lines inside the SQL literal
    body = re.sub(r'(?m)^\s*//[^\n]*$', '', body)            # full-line comments
    body = re.sub(r'(?<=[,;(\[{\s])//[^\n"]*$', '', body, flags=re.M)   # trailing comments (not inside string literals)
    flat = re.sub(r'\s+', ' ', body)
    i = flat.find(key)
    if i < 0:
        raise S.SqlError(f'cannot locate the literal {key!r} in the function body')
    m = re.search(r'params!\s*\[', flat[i:])
    if not m:
        raise S.SqlError(f'no params![..] after {key!r}')
    j = i + m.end()
    d, k = 1, j
    while k < len(flat) and d:
        d += flat[k] in '([{'
        d -= flat[k] in ')]}'
        k += 1
    return [p.strip() for p in split_params(flat[j:k - 1]) if p.strip()]


def split_params(s):
    out, d, cur = [], 0, ''
    i = 0
    while i < len(s):
        c = s[i]
        if c in '([{':
            d += 1
        elif c in ')]}':
            d -= 1
        elif c == '|' :
            # closure parameter list |x| : skip to the closing bar so that commas inside are not split points
            j = s.find('|', i + 1)
            if j > 0:
                cur += s[i:j + 1]; i = j + 1; continue
        if c == ',' and d == 0:
            out.append(cur); cur = ''
        else:
            cur += c
        i += 1
    out.append(cur)
    return out


def expand(expr, lets, depth=0):
    """replace a bare let-bound identifier by its right-hand side (one or two levels); `match` bindings are kept opaque"""
    e = expr.strip()
    while e.startswith('&'):
        e = e[1:].strip()
    if e.startswith('(') and e.endswith(')') and _balanced(e[1:-1]):
        e = e[1:-1].strip()
    if re.fullmatch(r'\w+', e) and e in lets and depth < 3:
        rhs = lets[e]
        if rhs.startswith('match '):
            return 'match:' + rhs
        return expand(rhs, lets, depth + 1)
    return e


def _balanced(s):
    d = 0
    for c in s:
        d += c in '(['
        d -= c in ')]'
        if d < 0:
            return False
    return d == 0


def field_of(expr, record):
    m = re.search(r'\b' + re.escape(record) + r'\s*\.\s*(\w+)', expr)
    return m.group(1) if m else None


def read_type(dbsrc, decoder, col):
    """Rust type the column is decoded into by db.rs (None if it is not decoded through row.get with a declared integer type)"""
    body = S.fn_body(dbsrc, decoder)
    m = re.search(r'let\s+\w+\s*:\s*([^=;]+?)\s*=\s*row\s*\.\s*get\(\s*"' + re.escape(col) + r'"\s*\)', body)
    if m:
        return m.group(1).strip()
    m = re.search(r'row\s*\.\s*get::<\s*_\s*,\s*([^>]+(?:<[^>]+>)?)>\(\s*"' + re.escape(col) + r'"\s*\)', body)
    if m:
        return m.group(1).strip()
    return None


class OptionFlattened(Exception):
    pass


class Conv:
    """numeric pipeline of one parameter: source type -> f -> parameter type"""
    def __init__(self, src_ty, fn, out_ty, text):
        self.src_ty, self.fn, self.out_ty, self.text = src_ty, fn, out_ty, text


def _const(txt, bits):
    t = txt.strip().replace('_', '')
    t = re.sub(r'(?<=\d)[iu](8|16|32|64|size)$', '', t)
    m = re.fullmatch(r'([iu](?:8|16|32|64|size))::(MAX|MIN)', t)
    if m:
        b = INT_BITS[m.group(1)]
        signed = m.group(1)[0] == 'i'
        v = (2 ** (b - 1) - 1 if signed else 2 ** b - 1) if m.group(2) == 'MAX' else (-(2 ** (b - 1)) if signed else 0)
        return v
    if re.fullmatch(r'-?\d+', t):
        return int(t)
    if re.fullmatch(r'0x[0-9a-fA-F]+', t):
        return int(t, 16)
    raise S.SqlError(f'cannot evaluate constant {txt!r}')


def source_type(expr, field_ty):
    """machine type of the accessor chain that feeds the conversion"""
    m = re.search(r'\.(\w+)\(\)\s*$', expr)
    if m and m.group(1) in ACCESSOR_TYPES:
        return ACCESSOR_TYPES[m.group(1)]
    ft = (field_ty or '').replace('std::option::Option<', '').replace('Option<', '').rstrip('>')
    ft = ft.split('::')[-1]
    if ft in INT_BITS:
        return ft
    if ft == 'Timestamp':
        return 'u64'
    return None


def conversion(expr, field_ty):
    """Conv for the (single) numeric transformation in expr, None if the expression has no risky token"""
    e = expr
    e = re.sub(r'(try_from\(.+\))\.unwrap_or_default\(\)', r'\1.unwrap_or(0)', e)      # Result<int, _>::unwrap_or_default() == unwrap_or(0)
    # Option<T> flattened with a default: None is stored as that default and comes back as Some(default)
    mo = re.fullmatch(r'(.+?)\.(unwrap_or_default\(\)|unwrap_or\((.+)\))', e.strip())
    if mo and 'Option' in (field_ty or '') and not RISKY.search(mo.group(1)):
        raise OptionFlattened(mo.group(2))
    # look inside Option::map closures:  X.map(|v| BODY)  -> analyse BODY with v as the accessor
    m = re.search(r'\.map\(\s*\|\s*(\w+)\s*\|\s*(.+)\)\s*$', e)
    inner_var = None
    if m and RISKY.search(m.group(2)):
        inner_var, e = m.group(1), m.group(2).strip()
    if not RISKY.search(e):
        return None
    if len(RISKY.findall(e)) > 2:
        raise S.SqlError(f'parameter conversion too complex to translate: {expr}')

    def src_of(sub):
        sub = sub.strip()
        if RISKY.search(sub):
            raise S.SqlError(f'nested parameter conversion not translated: {expr}')
        st = source_type(sub, field_ty)
        if st is None:
            raise S.SqlError(f'cannot determine the integer type feeding the conversion in: {expr}')
        return st

    def ext(x, st, bits):
        """x is a z3 bit-vector of the source width; extend to `bits`"""
        w = x.size()
        if bits == w:
            return x
        if bits < w:
            return z3.Extract(bits - 1, 0, x)
        return z3.SignExt(bits - w, x) if st[0] == 'i' else z3.ZeroExt(bits - w, x)

    m = re.fullmatch(r'([iu](?:8|16|32|64|size))::try_from\((.+)\)\.unwrap_or\((.+)\)', e)
    if m:
        T, sub, c = m.group(1), m.group(2), m.group(3)
        st = src_of(sub); tb = INT_BITS[T]; cv = _const(c, tb)
        def fn(x, st=st, T=T, tb=tb, cv=cv):
            wide = ext(x, st, 128) if False else (z3.SignExt(128 - x.size(), x) if st[0] == 'i' else z3.ZeroExt(128 - x.size(), x))
            lo = -(2 ** (tb - 1)) if T[0] == 'i' else 0
            hi = 2 ** (tb - 1) - 1 if T[0] == 'i' else 2 ** tb - 1
            fits = z3.And(wide >= z3.BitVecVal(lo, 128), wide <= z3.BitVecVal(hi, 128))
            return z3.If(fits, z3.Extract(tb - 1, 0, wide), z3.BitVecVal(cv, tb))
        return Conv(st, fn, T, e)
    m = re.fullmatch(r'(.+?)\s+as\s+([iu](?:8|16|32|64|size))', e)
    if m:
        sub, T = m.group(1).strip(), m.group(2)
        if sub.startswith('(') and sub.endswith(')'):
            sub = sub[1:-1]
        st = src_of(sub); tb = INT_BITS[T]
        return Conv(st, lambda x, st=st, tb=tb: ext(x, st, tb), T, e)
    m = re.fullmatch(r'(.+)\.(min|max)\((.+)\)', e)
    if m:
        sub, op, c = m.group(1), m.group(2), m.group(3)
        st = src_of(sub); b = INT_BITS[st]; cv = z3.BitVecVal(_const(c, b), b)
        lt = (lambda a, b_: a < b_) if st[0] == 'i' else z3.ULT
        if op == 'min':
            return Conv(st, lambda x: z3.If(lt(x, cv), x, cv), st, e)
        return Conv(st, lambda x: z3.If(lt(x, cv), cv, x), st, e)
    m = re.fullmatch(r'(.+)\.clamp\((.+),(.+)\)', e)
    if m:
        sub = m.group(1); st = src_of(sub); b = INT_BITS[st]
        lo, hi = z3.BitVecVal(_const(m.group(2), b), b), z3.BitVecVal(_const(m.group(3), b), b)
        lt = (lambda a, b_: a < b_) if st[0] == 'i' else z3.ULT
        return Conv(st, lambda x: z3.If(lt(x, lo), lo, z3.If(lt(hi, x), hi, x)), st, e)
    m = re.fullmatch(r'(.+)\.(saturating|wrapping)_(add|sub)\((.+)\)', e)
    if m:
        sub, mode, op, c = m.groups(); st = src_of(sub); b = INT_BITS[st]; cv = z3.BitVecVal(_const(c, b), b)
        if st[0] == 'i':
            raise S.SqlError(f'signed saturating/wrapping arithmetic not translated: {expr}')
        if mode == 'wrapping':
            return Conv(st, (lambda x: x + cv) if op == 'add' else (lambda x: x - cv), st, e)
        if op == 'add':
            return Conv(st, lambda x: z3.If(z3.ULT(x + cv, x), z3.BitVecVal(2 ** b - 1, b), x + cv), st, e)
        return Conv(st, lambda x: z3.If(z3.ULT(x, cv), z3.BitVecVal(0, b), x - cv), st, e)
    raise S.SqlError(f'parameter conversion not understood: {expr}')


def read_back(stored, rty):
    """(defined, value zero/sign-extended to 64 bits) of rusqlite FromSql for the declared Rust type over a stored i64"""
    t = (rty or '').replace(' ', '')
    t = re.sub(r'^Option<(.+)>$', r'\1', t)
    if t not in INT_BITS:
        return None
    b = INT_BITS[t]
    if t[0] == 'u':
        hi = 2 ** 63 - 1 if b == 64 else 2 ** b - 1
        return z3.And(stored >= 0, stored <= hi), stored
    lo, hi = -(2 ** (b - 1)), 2 ** (b - 1) - 1
    return z3.And(stored >= lo, stored <= hi), stored


def stored_of(y, out_ty):
    """(accepted, stored i64) for binding a value y of Rust type out_ty (rusqlite ToSql)"""
    b = INT_BITS[out_ty]
    if out_ty in ('u64', 'usize'):
        return z3.ULT(y, z3.BitVecVal(2 ** 63, 64)), y
    if out_ty[0] == 'u':
        return z3.BoolVal(True), z3.ZeroExt(64 - b, y)
    return z3.BoolVal(True), (z3.SignExt(64 - b, y) if b < 64 else y)
