"""Engine E4: the SQLite backend's SQL programs as relational SMT.

Regenerated on every run from /repo:
  * catalogue: crates/mdk-sqlite-storage/migrations/*.sql (tables, columns, primary keys, UNIQUE, FOREIGN KEY ... ON DELETE CASCADE),
  * programs: the SQL string literals of a storage method in program order (helper methods called through Self:: are inlined),
    with their transaction brackets.
A statement the extractor / parser cannot classify raises SqlError -> the check is BROKEN (exit 2).
"""
import os, re, glob, time
import z3

from vlib.common import REPO

SQLITE = os.path.join(REPO, 'crates', 'mdk-sqlite-storage')


class SqlError(Exception):
    pass


# ------------------------------------------------------------------------------------------------ catalogue

class Table:
    def __init__(self, name):
        self.name = name
        self.cols = []        # [(name, type, notnull)]
        self.pk = []
        self.uniques = []     # [[cols]]
        self.fks = []         # [(col, ref_table, ref_col, on_delete)]

    def colnames(self):
        return [c[0] for c in self.cols]


def split_top(s, sep=','):
    out, d, cur = [], 0, ''
    for c in s:
        if c == '(':
            d += 1
        elif c == ')':
            d -= 1
        if c == sep and d == 0:
            out.append(cur.strip()); cur = ''
        else:
            cur += c
    if cur.strip():
        out.append(cur.strip())
    return out


def load_catalogue():
    tables = {}
    files = sorted(glob.glob(os.path.join(SQLITE, 'migrations', 'V*.sql')))
    if not files:
        raise SqlError('no migrations found')
    for f in files:
        sql = open(f).read()
        sql = re.sub(r'--[^\n]*', '', sql)
        for stmt in [s.strip() for s in sql.split(';') if s.strip()]:
            m = re.match(r'CREATE TABLE (?:IF NOT EXISTS )?(\w+)\s*\((.*)\)$', stmt, re.S | re.I)
            if m:
                t = Table(m.group(1))
                for item in split_top(m.group(2)):
                    item = re.sub(r'\s+', ' ', item).strip()
                    mm = re.match(r'^PRIMARY KEY\s*\((.*)\)$', item, re.I)
                    if mm:
                        t.pk = [c.strip() for c in mm.group(1).split(',')]; continue
                    mm = re.match(r'^UNIQUE\s*\((.*)\)$', item, re.I)
                    if mm:
                        t.uniques.append([c.strip() for c in mm.group(1).split(',')]); continue
                    mm = re.match(r'^FOREIGN KEY\s*\((\w+)\)\s*REFERENCES\s*(\w+)\s*\((\w+)\)(.*)$', item, re.I)
                    if mm:
                        od = 'CASCADE' if re.search(r'ON DELETE CASCADE', mm.group(4), re.I) else ('SET NULL' if re.search(r'ON DELETE SET NULL', mm.group(4), re.I) else 'RESTRICT')
                        t.fks.append((mm.group(1), mm.group(2), mm.group(3), od)); continue
                    mm = re.match(r'^CHECK\s*\(', item, re.I)
                    if mm:
                        continue
                    mm = re.match(r'^(\w+)\s+(\w+)(.*)$', item)
                    if not mm:
                        raise SqlError(f'{f}: cannot parse column definition: {item}')
                    rest = mm.group(3)
                    t.cols.append((mm.group(1), mm.group(2).upper(), bool(re.search(r'NOT NULL', rest, re.I))))
                    if re.search(r'PRIMARY KEY', rest, re.I):
                        t.pk = [mm.group(1)]
                    if re.search(r'\bUNIQUE\b', rest, re.I):
                        t.uniques.append([mm.group(1)])
                tables[t.name] = t
                continue
            m = re.match(r'ALTER TABLE (\w+) ADD COLUMN (\w+)\s+(\w+)(.*)$', stmt, re.S | re.I)
            if m:
                if m.group(1) not in tables:
                    raise SqlError(f'{f}: ALTER of unknown table {m.group(1)}')
                tables[m.group(1)].cols.append((m.group(2), m.group(3).upper(), bool(re.search(r'NOT NULL', m.group(4), re.I))))
                continue
            m = re.match(r'CREATE UNIQUE INDEX (?:IF NOT EXISTS )?(\w+) ON (\w+)\s*\((.*)\)$', stmt, re.S | re.I)
            if m:
                tables[m.group(2)].uniques.append([re.sub(r'\s+(ASC|DESC)$', '', c.strip(), flags=re.I) for c in m.group(3).split(',')])
                continue
            if re.match(r'CREATE INDEX', stmt, re.I) or re.match(r'(UPDATE|PRAGMA|DROP INDEX)', stmt, re.I):
                continue
            raise SqlError(f'{f}: unclassified migration statement: {stmt[:80]}')
    return tables


def cascade_children(tables, parent):
    """[(child table, child column)] with ON DELETE CASCADE referencing `parent`"""
    return [(t.name, fk[0]) for t in tables.values() for fk in t.fks if fk[1] == parent and fk[3] == 'CASCADE']


# ------------------------------------------------------------------------------------------------ program extraction

_SRC = {}


def source(rel):
    p = os.path.join(SQLITE, 'src', rel)
    if p not in _SRC:
        s = open(p).read()
        # cut the test module
        i = s.find('#[cfg(test)]\nmod tests')
        _SRC[p] = s if i < 0 else s[:i]
    return _SRC[p]


def fn_body(src, name):
    m = re.search(r'\bfn ' + re.escape(name) + r'\s*(<[^>]*>)?\s*\(', src)
    if not m:
        raise SqlError(f'function {name} not found')
    i = src.index('{', m.end())
    # skip to the body brace: the first '{' after the signature's closing ')' and return type
    d = 0
    j = m.end() - 1
    while True:
        c = src[j]
        if c == '(':
            d += 1
        elif c == ')':
            d -= 1
            if d == 0:
                break
        j += 1
    i = src.index('{', j)
    d = 0
    k = i
    instr = False
    while k < len(src):
        c = src[k]
        if instr:
            if c == '\\':
                k += 2; continue
            if c == '"':
                instr = False
        elif c == '"':
            instr = True
        elif c == '/' and src[k:k + 2] == '//':
            k = src.index('\n', k); continue
        elif c == '{':
            d += 1
        elif c == '}':
            d -= 1
            if d == 0:
                return src[i:k + 1]
        k += 1
    raise SqlError(f'unbalanced body of {name}')


SQL_KW = ('SELECT', 'INSERT', 'DELETE', 'UPDATE', 'BEGIN', 'COMMIT', 'ROLLBACK', 'SAVEPOINT', 'RELEASE', 'PRAGMA', 'CREATE', 'DROP', 'WITH')


def fn_body_deep(src, name, depth=0, seen=None):
    """the body of `name` followed by the bodies of the helpers of the same file it calls (`Self::f`, `self.f`, free `f`), transitively (two levels):
    what a reader sees after inlining private helpers.  Used where parameter lists / validation calls are looked up by text."""
    seen = seen if seen is not None else {name}
    body = fn_body(src, name)
    out = [body]
    if depth >= 2:
        return body
    for m in re.finditer(r'(?<![\w.:])(?:Self::|self\.)?([A-Za-z_]\w*)\s*\(', re.sub(r'//[^\n]*', '', body)):
        callee = m.group(1)
        if callee in seen or not re.search(r'\bfn ' + re.escape(callee) + r'\b', src):
            continue
        seen.add(callee)
        try:
            out.append(fn_body_deep(src, callee, depth + 1, seen))
        except SqlError:
            pass
    return '\n'.join(out)


def program(rel, name, depth=0):
    """ordered SQL statements of a function: [(sql text, offset)] with helper functions of the same file inlined"""
    src = source(rel)
    body = fn_body(src, name)
    # strip line comments (not inside strings)
    out = []
    k = 0
    n = len(body)
    while k < n:
        c = body[k]
        if body.startswith('//', k):
            k = body.find('\n', k)
            if k < 0:
                break
            continue
        if c == '"':
            j = k + 1
            buf = []
            while j < n:
                if body[j] == '\\':
                    if body[j + 1] == '\n':
                        j += 2
                        while j < n and body[j] in ' \t':
                            j += 1
                        continue
                    buf.append(body[j:j + 2]); j += 2; continue
                if body[j] == '"':
                    break
                buf.append(body[j]); j += 1
            lit = re.sub(r'\s+', ' ', ''.join(buf)).strip()
            if lit.upper().startswith(SQL_KW) and (' ' in lit or lit.upper() in ('COMMIT', 'ROLLBACK', 'BEGIN')):
                out.append(lit)
            k = j + 1
            continue
        m = re.match(r'(Self::|self\.)?([A-Za-z_]\w*)\s*\(', body[k:])
        # a call of a helper defined in the same file: `Self::f(..)`, `self.f(..)` or a free private function `f(..)` (not a method of another value, not a path)
        if m and not m.group(1) and k > 0 and body[k - 1] in '.:':
            m = None
        if m and depth < 3 and (k == 0 or not (body[k - 1].isalnum() or body[k - 1] == '_')):
            callee = m.group(2)
            if callee != name and re.search(r'\bfn ' + re.escape(callee) + r'\b', src):
                try:
                    sub = program(rel, callee, depth + 1)
                except SqlError:
                    sub = []
                out.extend(sub)
            k += m.end()
            continue
        k += 1
    return out


# ------------------------------------------------------------------------------------------------ SQL statement parsing

class Stmt:
    def __init__(self, kind, text):
        self.kind, self.text = kind, text
        self.table = None
        self.cols = []
        self.where = None         # list of (col, op, rhs) conjuncts
        self.conflict = None      # (target cols, {col: expr}) for upserts, 'REPLACE' for INSERT OR REPLACE
        self.sets = {}
        self.order = []           # [(col, 'ASC'|'DESC')]
        self.limit = None
        self.offset = None
        self.select = []
        self.or_clause = None

    def __repr__(self):
        return f'<{self.kind} {self.table or ""} {self.text[:50]}>'


def parse_where(s):
    """conjunction of simple predicates; OR-groups in parentheses are kept as ('or', [...])"""
    conj = []
    parts, d, cur, i = [], 0, '', 0
    while i < len(s):                      # split on AND at parenthesis depth 0 (sub-selects keep their own ANDs)
        c = s[i]
        d += c == '('
        d -= c == ')'
        m = re.match(r'\s+AND\s+', s[i:], re.I) if d == 0 else None
        if m:
            parts.append(cur); cur = ''; i += m.end(); continue
        cur += c; i += 1
    parts.append(cur)
    for p in parts:
        p = p.strip()
        if p.startswith('(') and p.endswith(')') and re.search(r'\s+OR\s+', p, re.I):
            alts = [parse_where(x)[0] for x in re.split(r'\s+OR\s+', p[1:-1], flags=re.I)]
            conj.append(('or', alts)); continue
        m = re.match(r'^NOT\s*\(\s*(\w+)\s*(=|!=|<>|>=|<=|>|<)\s*([^()]+?)\s*\)$', p, re.I)
        if m:
            # NOT (a op b) selects the rows where a op' b with the complementary operator: for a NULL operand both are NULL, i.e. not selected
            neg = {'=': '!=', '!=': '=', '<>': '=', '>=': '<', '<=': '>', '>': '<=', '<': '>='}[m.group(2)]
            conj.append((m.group(1), neg, m.group(3).strip())); continue
        m = re.match(r'^(\w+)\s+IS\s+(NOT\s+)?NULL$', p, re.I)
        if m:
            conj.append((m.group(1), 'notnull' if m.group(2) else 'isnull', None)); continue
        m = re.match(r'^(\w+)\s*(=|!=|<>|>=|<=|>|<)\s*(.+)$', p)
        if m:
            conj.append((m.group(1), m.group(2).replace('<>', '!='), m.group(3).strip())); continue
        m = re.match(r"^(\w+)\s+LIKE\s+(\S+)(?:\s+ESCAPE\s+\S+)?$", p, re.I)
        if m:
            conj.append((m.group(1), 'like', m.group(2))); continue
        m = re.match(r"^(\w+)\s+IN\s*\((.+)\)$", p, re.I)
        if m:
            conj.append((m.group(1), 'in', [x.strip() for x in m.group(2).split(',')])); continue
        raise SqlError('WHERE conjunct not understood: ' + p)
    return conj


def parse_stmt(sql):
    s = re.sub(r'\s+', ' ', sql).strip().rstrip(';')
    u = s.upper()
    for kw in ('BEGIN', 'COMMIT', 'ROLLBACK', 'SAVEPOINT', 'RELEASE', 'PRAGMA'):
        if u.startswith(kw):
            return Stmt(kw, s)
    m = re.match(r'^DELETE FROM (\w+)(?: WHERE (.*))?$', s, re.I)
    if m:
        st = Stmt('DELETE', s); st.table = m.group(1); st.where = parse_where(m.group(2)) if m.group(2) else []
        return st
    m = re.match(r'^INSERT( OR REPLACE| OR IGNORE)? INTO (\w+)\s*\((.*?)\)\s*VALUES\s*\((.*?)\)(?:\s*ON CONFLICT\s*(?:\((.*?)\))?\s*DO (NOTHING|UPDATE SET (.*)))?$', s, re.I)
    if m:
        st = Stmt('INSERT', s); st.table = m.group(2)
        st.cols = [c.strip() for c in m.group(3).split(',')]
        st.values = [v.strip() for v in split_top(m.group(4))]
        if len(st.cols) != len(st.values):
            raise SqlError(f'INSERT column/value count mismatch: {s[:100]}')
        st.or_clause = m.group(1).strip().upper().replace('OR ', '') if m.group(1) else None
        if m.group(1):
            st.conflict = m.group(1).strip().upper().replace('OR ', '')
        if m.group(6):
            tgt = [c.strip() for c in m.group(5).split(',')] if m.group(5) else []      # no conflict target: ANY uniqueness constraint triggers the DO UPDATE
            sets = {}
            if m.group(7):
                for a in split_top(m.group(7)):
                    k, _, v = a.partition('=')
                    sets[k.strip()] = v.strip()
            st.conflict = (tgt, sets, m.group(6).upper().startswith('NOTHING'))
        return st
    m = re.match(r'^UPDATE (\w+) SET (.*?)(?: WHERE (.*))?$', s, re.I)
    if m:
        st = Stmt('UPDATE', s); st.table = m.group(1)
        for a in split_top(m.group(2)):
            k, _, v = a.partition('=')
            st.sets[k.strip()] = v.strip()
        st.where = parse_where(m.group(3)) if m.group(3) else []
        return st
    m = re.match(r'^SELECT (?:DISTINCT )?(.*?) FROM (\w+)(?: WHERE (.*?))?(?: ORDER BY (.*?))?(?: LIMIT (\S+))?(?: OFFSET (\S+))?$', s, re.I)
    if m and not u.startswith('SELECT EXISTS'):
        st = Stmt('SELECT', s); st.table = m.group(2)
        st.select = [c.strip() for c in split_top(m.group(1))]
        st.where = parse_where(m.group(3)) if m.group(3) else []
        if m.group(4):
            for o in m.group(4).split(','):
                o = o.strip()
                mm = re.match(r'^(\w+)(?:\s+(ASC|DESC))?$', o, re.I)
                if not mm:
                    raise SqlError('ORDER BY term: ' + o)
                st.order.append((mm.group(1), (mm.group(2) or 'ASC').upper()))
        st.limit, st.offset = m.group(5), m.group(6)
        return st
    if u.startswith('SELECT'):
        st = Stmt('SELECT', s)
        m = re.search(r'FROM (\w+)', s, re.I)
        st.table = m.group(1) if m else None
        return st
    raise SqlError('SQL statement not understood: ' + s[:120])


# ------------------------------------------------------------------------------------------------ solver helper

class Solver:
    def __init__(self):
        self.queries = 0
        self.time = 0.0

    def check(self, conds):
        s = z3.Solver()
        for c in conds:
            s.add(c)
        t0 = time.time()
        r = s.check()
        self.time += time.time() - t0
        self.queries += 1
        if r == z3.unknown:
            raise SqlError('solver unknown')
        from vlib import cross
        cross.record(conds, 'sat' if r == z3.sat else 'unsat', 'sql')
        return (r == z3.sat), (s.model() if r == z3.sat else None)


# ------------------------------------------------------------------------------------------------ guarded statements

def program_guarded(rel, name):
    """like program(), but each statement carries the conditions of the `if` blocks that enclose it inside the function:
    [(sql, [guard text, ...])].  Only the top-level function body is analysed for guards (helpers are inlined unguarded)."""
    src = source(rel)
    body = fn_body(src, name)
    flat = program(rel, name)
    # positions of literals in body, with enclosing if-conditions
    out = []
    stack = []          # (brace depth at which the block closes, guard text or None)
    depth = 0
    k = 0
    n = len(body)
    pending_if = None
    exits = []          # negated conditions of `if g { .. return Ok(..) }` blocks seen so far
    while k < n:
        c = body[k]
        if body.startswith('//', k):
            k = body.find('\n', k)
            if k < 0:
                break
            continue
        if c == '"':
            j = k + 1
            buf = []
            while j < n:
                if body[j] == '\\':
                    if body[j + 1] == '\n':
                        j += 2
                        while j < n and body[j] in ' \t':
                            j += 1
                        continue
                    buf.append(body[j:j + 2]); j += 2; continue
                if body[j] == '"':
                    break
                buf.append(body[j]); j += 1
            lit = re.sub(r'\s+', ' ', ''.join(buf)).strip()
            if lit.upper().startswith(SQL_KW) and (' ' in lit or lit.upper() in ('COMMIT', 'ROLLBACK', 'BEGIN')):
                out.append((lit, [g for _, g in stack if g and g not in ('<closure>', '<scope>')] + [g for _, g in exits]))
            k = j + 1
            continue
        # a closure body: a `return` inside a row mapper (`|row| {..}`) leaves only the mapper; an immediately invoked `|| {..}` block is a scope of its own:
        # a `return Ok` inside it skips the rest of that block
        mc = re.match(r'\|([^|{};]*)\|\s*(?:->\s*[^{]+)?\{', body[k:]) if c == '|' else None
        if mc:
            depth += 1
            stack.append((depth, '<closure>' if mc.group(1).strip() else '<scope>'))
            k += mc.end()
            continue
        if body.startswith('return', k) and (k == 0 or not (body[k - 1].isalnum() or body[k - 1] == '_')) and re.match(r'return\s+Ok\b', body[k:]):
            marks = [i_ for i_, (_, g) in enumerate(stack) if g in ('<closure>', '<scope>')]
            if not marks or stack[marks[-1]][1] == '<scope>':
                base = marks[-1] + 1 if marks else 0
                gs = [g for _, g in stack[base:] if g]
                if len(gs) != 1:
                    raise SqlError(f'{name}: early `return Ok` under {len(gs)} enclosing conditions is not modelled')
                g = gs[0]
                exits.append((stack[marks[-1]][0] if marks else 0, g[1:].strip() if g.startswith('!') else '!' + g))
            k += 6
            continue
        m = re.match(r'\bif\s+(?!let\b)([^{]+?)\s*\{', body[k:]) if (k == 0 or not (body[k - 1].isalnum() or body[k - 1] == '_')) else None
        if m and body[k:k + 2] == 'if':
            depth += 1
            stack.append((depth, m.group(1).strip()))
            k += m.end()
            continue
        if c == '{':
            depth += 1
        elif c == '}':
            if stack and stack[-1][0] == depth:
                if stack[-1][1] == '<scope>':
                    exits[:] = [x for x in exits if x[0] != depth]
                stack.pop()
            depth -= 1
        k += 1
    # statements coming from inlined helpers are not in `out`; merge by order using flat list
    res = []
    oi = 0
    for s in flat:
        if oi < len(out) and out[oi][0] == s:
            res.append(out[oi]); oi += 1
        else:
            res.append((s, []))
    return res


def let_bindings(rel, name, deep=False):
    """{ident: rhs text} for simple `let ident = ...;` bindings of the function (used to interpret guards); deep: also those of the same-file helpers it calls
    (bindings of the function itself win)"""
    body = fn_body(source(rel), name)
    if deep:
        full = fn_body_deep(source(rel), name)
        body = full[len(body):] + '\n' + body
    out = {}
    for m in re.finditer(r'\blet\s+(?:mut\s+)?(\w+)(?:\s*:\s*[^=;]+)?\s*=\s*([^;]+);', body):
        out[m.group(1)] = re.sub(r'\s+', ' ', m.group(2)).strip()
    return out


def all_sql_literals(rel):
    """every SQL string literal of a source file outside its test module (for configuration-level checks such as PRAGMAs)"""
    src = source(rel)
    out = []
    for m in re.finditer(r'"((?:[^"\\]|\\.)*)"', src, re.S):
        lit = re.sub(r'\s+', ' ', m.group(1)).strip()
        if lit.upper().startswith(SQL_KW):
            out.append(lit)
    return out
